//! Fixture crate for /verif: hand-written positive (`bad_*`) and negative (`ok_*`) examples for the
//! who-may-call / inventory rules whose expected number of matches on orx-parallel is zero.
//! It is never executed; it only has to compile so that the driver can extract its MIR.
#![allow(dead_code, clippy::all)]

use orx_concurrent_ordered_bag::ConcurrentOrderedBag;
use orx_split_vec::SplitVec;

// ---------------------------------------------------------------- C08-WHO / C14-PROPAGATE
/// the only legitimate shape: scoped threads created and joined inside one entry
pub fn ok_scoped_entry(n: usize) -> usize {
    std::thread::scope(|s| {
        let mut hs = vec![];
        for i in 0..n {
            hs.push(s.spawn(move || i * 2));
        }
        hs.into_iter().map(|h| h.join().expect("join")).sum()
    })
}

/// a detached thread outside any scoped entry, joined by hand
pub fn bad_rogue_spawn() -> usize {
    let h = std::thread::spawn(|| 1usize);
    h.join().unwrap_or(0)
}

pub fn bad_catches_panic(f: impl Fn() -> usize + std::panic::UnwindSafe) -> usize {
    std::panic::catch_unwind(f).unwrap_or(0)
}

pub fn bad_takes_lock(m: &std::sync::Mutex<usize>) -> usize {
    *m.lock().unwrap()
}

pub struct BadDropper(pub Vec<String>);
impl Drop for BadDropper {
    fn drop(&mut self) {
        // may panic while unwinding -> abort
        assert!(self.0.len() < 10, "too long");
    }
}

// ---------------------------------------------------------------- C13
pub fn bad_raw_read(v: &mut Vec<String>) -> String {
    unsafe { std::ptr::read(v.as_ptr()) }
}

pub fn bad_set_len(v: &mut Vec<String>) {
    unsafe { v.set_len(0) }
}

pub fn bad_forget(v: Vec<String>) {
    std::mem::forget(v)
}

pub fn bad_manually_drop(v: Vec<String>) -> usize {
    let m = std::mem::ManuallyDrop::new(v);
    m.len()
}

pub fn bad_bag_unwrap(bag: ConcurrentOrderedBag<String>) -> SplitVec<String> {
    unsafe { bag.into_inner().unwrap() }
}

pub fn ok_bag_unwrap(bag: ConcurrentOrderedBag<String>) -> SplitVec<String> {
    unsafe { bag.into_inner().unwrap_only_if_counts_match() }
}

// ---------------------------------------------------------------- C06-RECV / C06-MUT
// ---- C14-NOWAIT controls -------------------------------------------------------------------------
use orx_concurrent_iter::{ConcurrentIterX, HasMore};

/// waits until other threads have drained the iterator: every exit depends on `has_more`
pub fn bad_waits_for_progress<I: ConcurrentIterX>(iter: &I, first: usize) {
    while let HasMore::Yes(remaining) = iter.has_more() {
        if remaining < first {
            break;
        }
        std::thread::yield_now();
    }
}

/// the same flag computed under a branch (control dependence only)
pub fn bad_waits_flag<I: ConcurrentIterX>(iter: &I) {
    loop {
        let done = match iter.has_more() {
            HasMore::No => true,
            _ => false,
        };
        if done {
            break;
        }
        std::thread::yield_now();
    }
}

/// blocks on a channel
pub fn bad_blocks_on_channel(rx: &std::sync::mpsc::Receiver<usize>) -> usize {
    rx.recv().unwrap_or(0)
}

/// bounded polling: one exit does not depend on other threads
pub fn ok_bounded_poll<I: ConcurrentIterX>(iter: &I) -> usize {
    let mut polls = 0;
    for _ in 0..1000 {
        if let HasMore::No = iter.has_more() {
            break;
        }
        polls += 1;
    }
    polls
}

/// own progress: every iteration pulls an element itself
pub fn ok_drains_itself<I: ConcurrentIterX>(iter: &I) -> usize {
    let mut n = 0;
    while let Some(_x) = iter.next() {
        n += 1;
    }
    n
}

// ---- C15-STACK / C05-DRIVE / C06-GROW / C14-SERIAL / C15-ALLOC controls ----------------------------
use orx_concurrent_iter::IterIntoConcurrentIter;
use orx_fixed_vec::{FixedVec, PinnedVec};

/// spawns workers with a stack of the library's choosing
pub fn bad_small_stack(n: usize) -> usize {
    std::thread::scope(|s| {
        let h = std::thread::Builder::new()
            .stack_size(64 * 1024)
            .spawn_scoped(s, move || n * 2)
            .expect("spawn");
        h.join().expect("join")
    })
}

/// answers from the length of the source: `f` never runs
pub fn bad_len_skips_closure<F: Fn(u32) -> u32>(v: &[u32], f: F) -> usize {
    v.iter().copied().map(f).len()
}

/// no closure on the chain: nothing is skipped
pub fn ok_len_of_plain_chain(v: &[u32]) -> usize {
    v.iter().copied().len()
}

/// the closure runs for every element
pub fn ok_count_runs_closure<F: Fn(u32) -> u32>(v: &[u32], f: F) -> usize {
    v.iter().copied().map(f).count()
}

/// a FixedVec cannot grow
pub fn bad_push_onto_fixed(mut target: FixedVec<u32>, x: u32) -> FixedVec<u32> {
    target.push(x);
    target
}

/// through the inner Vec
pub fn ok_push_through_vec(target: FixedVec<u32>, x: u32) -> FixedVec<u32> {
    let mut v: Vec<u32> = target.into();
    v.push(x);
    v.into()
}

/// the user's closure becomes part of the serialised source
pub fn bad_closure_in_source<F: Fn(&u32) -> bool + Send + Sync>(v: Vec<u32>, keep: F) -> usize {
    let con = v.into_iter().filter(keep).into_con_iter();
    let _ = &con;
    0
}

/// a plain iterator as source
pub fn ok_plain_source(v: Vec<u32>) -> usize {
    let con = v.into_iter().into_con_iter();
    let _ = &con;
    0
}

/// a buffer sized by a free parameter
pub fn bad_buffer_sized_by_parameter(chunk_size: usize) -> Vec<u32> {
    Vec::with_capacity(chunk_size)
}

/// a buffer sized by the data
pub fn ok_buffer_sized_by_data(v: &[u32]) -> Vec<u32> {
    Vec::with_capacity(v.len())
}

// ---- C14-WINDOW control: a value duplicated by ptr::read while a closure runs ------------------------
pub fn bad_replace_with<T, F: FnOnce(T) -> T>(dest: &mut T, f: F) {
    unsafe {
        let old = std::ptr::read(dest);
        std::ptr::write(dest, f(old));
    }
}

/// the same update without duplication
pub fn ok_replace_option<T, F: FnOnce(T) -> T>(dest: &mut Option<T>, f: F) {
    if let Some(old) = dest.take() {
        *dest = Some(f(old));
    }
}

pub mod par {
    pub mod collect_into {
        pub mod collect_into_core {
            pub trait ParCollectIntoCore<O> {
                fn seq_extend<I: Iterator<Item = O>>(self, iter: I) -> Self
                where
                    Self: Sized;
                fn map_into<I: Iterator<Item = O>>(self, iter: I) -> Self
                where
                    Self: Sized;
            }
        }
    }
}
use par::collect_into::collect_into_core::ParCollectIntoCore;

pub struct OkTarget(pub Vec<u64>);
impl ParCollectIntoCore<u64> for OkTarget {
    fn seq_extend<I: Iterator<Item = u64>>(mut self, iter: I) -> Self {
        self.0.extend(iter);
        self
    }
    fn map_into<I: Iterator<Item = u64>>(mut self, iter: I) -> Self {
        for x in iter {
            self.0.push(x);
        }
        self
    }
}

pub struct BadTarget(pub Vec<String>);
impl ParCollectIntoCore<String> for BadTarget {
    /// drops the receiver on one path and builds the result from scratch
    fn seq_extend<I: Iterator<Item = String>>(self, iter: I) -> Self {
        let (lo, _) = iter.size_hint();
        if lo == 0 {
            BadTarget(iter.collect())
        } else {
            let mut me = self;
            me.0.extend(iter);
            me
        }
    }
    /// keeps the receiver but clears it first
    fn map_into<I: Iterator<Item = String>>(mut self, iter: I) -> Self {
        self.0.clear();
        self.0.extend(iter);
        self
    }
}
