#![feature(rustc_private)]
#![allow(clippy::all)]
extern crate rustc_abi;
extern crate rustc_driver;
extern crate rustc_hir;
extern crate rustc_interface;
extern crate rustc_middle;
extern crate rustc_span;

use rustc_driver::Compilation;
use rustc_hir::def::DefKind;
use rustc_hir::def_id::DefId;
use rustc_middle::mir::{
    AggregateKind, BasicBlock, Body, Const, Operand, Place, ProjectionElem, Rvalue, StatementKind,
    TerminatorKind, UnwindAction, VarDebugInfoContents,
};
use rustc_middle::ty::{self, Instance, Ty, TyCtxt, TypingEnv};
use std::fmt::Write;

thread_local! { static SEEN_ENUMS: std::cell::RefCell<Vec<DefId>> = std::cell::RefCell::new(Vec::new()); }

fn note_enum<'tcx>(t: Ty<'tcx>) {
    let mut t = t;
    loop {
        match t.kind() {
            ty::Ref(_, inner, _) => { t = *inner; }
            ty::Adt(d, _) => {
                if d.is_enum() && !d.did().is_local() {
                    SEEN_ENUMS.with(|s| { let mut s = s.borrow_mut(); if !s.contains(&d.did()) { s.push(d.did()); } });
                }
                return;
            }
            _ => return,
        }
    }
}

fn esc(s: &str) -> String {
    let mut o = String::with_capacity(s.len() + 2);
    o.push('"');
    for c in s.chars() {
        match c {
            '"' => o.push_str("\\\""),
            '\\' => o.push_str("\\\\"),
            '\n' => o.push_str("\\n"),
            '\t' => o.push_str("\\t"),
            c if (c as u32) < 0x20 => { let _ = write!(o, "\\u{:04x}", c as u32); }
            c => o.push(c),
        }
    }
    o.push('"');
    o
}

fn ty_head<'tcx>(tcx: TyCtxt<'tcx>, t: Ty<'tcx>) -> String {
    match t.kind() {
        ty::Adt(d, _) => format!("adt:{}", tcx.def_path_str(d.did())),
        ty::Param(p) => format!("param:{}", p.name),
        ty::Closure(d, _) => format!("closure:{}", tcx.def_path_str(*d)),
        ty::FnDef(d, _) => format!("fndef:{}", tcx.def_path_str(*d)),
        ty::Ref(_, inner, _) => format!("ref:{}", ty_head(tcx, *inner)),
        ty::RawPtr(inner, _) => format!("ptr:{}", ty_head(tcx, *inner)),
        ty::Tuple(ts) if ts.is_empty() => "unit".to_string(),
        ty::Tuple(_) => "tuple".to_string(),
        ty::Alias(..) => format!("alias:{}", t),
        ty::Bool => "bool".into(),
        ty::Uint(_) | ty::Int(_) => format!("int:{}", t),
        _ => format!("other:{}", t),
    }
}

fn place_json<'tcx>(tcx: TyCtxt<'tcx>, body: &Body<'tcx>, p: &Place<'tcx>) -> String {
    let mut proj = String::from("[");
    let mut first = true;
    for (base, elem) in p.iter_projections() {
        if !first { proj.push(','); }
        first = false;
        match elem {
            ProjectionElem::Deref => proj.push_str("\"*\""),
            ProjectionElem::Field(f, fty) => {
                // field name if ADT
                let bty = base.ty(&body.local_decls, tcx);
                let name = match bty.ty.kind() {
                    ty::Adt(d, _) => {
                        let v = match bty.variant_index { Some(v) => d.variant(v), None => if d.is_enum() { d.variant(rustc_abi::VariantIdx::from_u32(0)) } else { d.non_enum_variant() } };
                        v.fields.get(f).map(|x| x.name.to_string()).unwrap_or_default()
                    }
                    _ => String::new(),
                };
                let _ = write!(proj, "{{\"f\":{},\"n\":{},\"t\":{}}}", f.as_u32(), esc(&name), esc(&fty.to_string()));
            }
            ProjectionElem::Downcast(name, v) => { let _ = write!(proj, "{{\"v\":{},\"n\":{}}}", v.as_u32(), esc(&name.map(|s| s.to_string()).unwrap_or_default())); }
            ProjectionElem::Index(l) => { let _ = write!(proj, "{{\"idx\":{}}}", l.as_u32()); }
            other => { let _ = write!(proj, "{{\"o\":{}}}", esc(&format!("{:?}", other))); }
        }
    }
    proj.push(']');
    format!("{{\"l\":{},\"p\":{}}}", p.local.as_u32(), proj)
}

fn const_json<'tcx>(tcx: TyCtxt<'tcx>, env: TypingEnv<'tcx>, c: &Const<'tcx>) -> String {
    let t = c.ty();
    if let ty::FnDef(d, args) = *t.kind() {
        return format!("{{\"k\":\"fn\",\"path\":{},\"full\":{}}}", esc(&tcx.def_path_str(d)), esc(&tcx.def_path_str_with_args(d, args)));
    }
    if let Const::Unevaluated(u, _) = c {
        let v = c.try_eval_scalar_int(tcx, env).map(|s| s.to_bits_unchecked().to_string());
        let mut name = tcx.def_path_str(u.def);
        if let Some(p) = u.promoted { name = format!("{}::promoted[{}]", name, p.as_u32()); }
        return format!("{{\"k\":\"constref\",\"def\":{},\"ty\":{},\"v\":{}}}", esc(&name), esc(&t.to_string()), match v { Some(v) => esc(&v), None => "null".into() });
    }
    if let Some(s) = c.try_eval_scalar_int(tcx, env) {
        let bits = s.to_bits_unchecked();
        return format!("{{\"k\":\"int\",\"v\":{},\"ty\":{}}}", esc(&bits.to_string()), esc(&t.to_string()));
    }
    format!("{{\"k\":\"c\",\"s\":{},\"ty\":{}}}", esc(&format!("{}", c)), esc(&t.to_string()))
}

fn op_json<'tcx>(tcx: TyCtxt<'tcx>, env: TypingEnv<'tcx>, body: &Body<'tcx>, o: &Operand<'tcx>) -> String {
    match o {
        Operand::Copy(p) => format!("{{\"k\":\"copy\",\"pl\":{}}}", place_json(tcx, body, p)),
        Operand::Move(p) => format!("{{\"k\":\"move\",\"pl\":{}}}", place_json(tcx, body, p)),
        Operand::Constant(c) => const_json(tcx, env, &c.const_),
        #[allow(unreachable_patterns)]
        other => format!("{{\"k\":\"other\",\"s\":{}}}", esc(&format!("{:?}", other))),
    }
}

fn rvalue_json<'tcx>(tcx: TyCtxt<'tcx>, env: TypingEnv<'tcx>, body: &Body<'tcx>, r: &Rvalue<'tcx>) -> String {
    match r {
        Rvalue::Use(o, _) => format!("{{\"r\":\"use\",\"o\":{}}}", op_json(tcx, env, body, o)),
        Rvalue::CopyForDeref(p) => format!("{{\"r\":\"use\",\"o\":{{\"k\":\"copy\",\"pl\":{}}}}}", place_json(tcx, body, p)),
        Rvalue::Ref(_, bk, p) => format!("{{\"r\":\"ref\",\"mut\":{},\"pl\":{}}}", matches!(bk, rustc_middle::mir::BorrowKind::Mut { .. }), place_json(tcx, body, p)),
        Rvalue::RawPtr(_, p) => format!("{{\"r\":\"rawptr\",\"pl\":{}}}", place_json(tcx, body, p)),
        Rvalue::BinaryOp(op, ab) => format!("{{\"r\":\"bin\",\"op\":{},\"a\":{},\"b\":{}}}", esc(&format!("{:?}", op)), op_json(tcx, env, body, &ab.0), op_json(tcx, env, body, &ab.1)),
        Rvalue::UnaryOp(op, a) => format!("{{\"r\":\"un\",\"op\":{},\"a\":{}}}", esc(&format!("{:?}", op)), op_json(tcx, env, body, a)),
        Rvalue::Discriminant(p) => format!("{{\"r\":\"discr\",\"pl\":{}}}", place_json(tcx, body, p)),
        Rvalue::Cast(k, o, t) => format!("{{\"r\":\"cast\",\"kind\":{},\"o\":{},\"ty\":{}}}", esc(&format!("{:?}", k)), op_json(tcx, env, body, o), esc(&t.to_string())),
        Rvalue::Aggregate(kind, ops) => {
            let mut s = String::from("{\"r\":\"agg\",");
            match &**kind {
                AggregateKind::Tuple => s.push_str("\"ak\":\"tuple\""),
                AggregateKind::Array(_) => s.push_str("\"ak\":\"array\""),
                AggregateKind::Adt(d, v, _, _, _) => {
                    let adt = tcx.adt_def(*d);
                    let vn = adt.variant(*v).name.to_string();
                    let _ = write!(s, "\"ak\":\"adt\",\"adt\":{},\"variant\":{},\"vidx\":{}", esc(&tcx.def_path_str(*d)), esc(&vn), v.as_u32());
                }
                AggregateKind::Closure(d, _) => {
                    let caps: Vec<String> = tcx.closure_captures(d.expect_local()).iter().map(|c| esc(&c.to_string(tcx))).collect();
                    let _ = write!(s, "\"ak\":\"closure\",\"def\":{},\"caps\":[{}]", esc(&tcx.def_path_str(*d)), caps.join(","));
                }
                other => { let _ = write!(s, "\"ak\":\"other\",\"s\":{}", esc(&format!("{:?}", other))); }
            }
            s.push_str(",\"ops\":[");
            let v: Vec<String> = ops.iter().map(|o| op_json(tcx, env, body, o)).collect();
            s.push_str(&v.join(","));
            s.push_str("]}");
            s
        }
        other => format!("{{\"r\":\"other\",\"s\":{}}}", esc(&format!("{:?}", other))),
    }
}

fn unwind_json(u: &UnwindAction) -> String {
    match u {
        UnwindAction::Continue => "\"continue\"".into(),
        UnwindAction::Unreachable => "\"unreachable\"".into(),
        UnwindAction::Terminate(_) => "\"terminate\"".into(),
        UnwindAction::Cleanup(bb) => format!("{}", bb.as_u32()),
    }
}

fn bbn(b: &Option<BasicBlock>) -> String { match b { Some(b) => b.as_u32().to_string(), None => "null".into() } }

fn fn_bounds_json<'tcx>(tcx: TyCtxt<'tcx>, did: DefId) -> String {
    // generic parameters that carry an Fn*/FnMut/FnOnce bound (= user closures), with input and output types
    let li = tcx.lang_items();
    let fn_traits = [li.fn_trait(), li.fn_mut_trait(), li.fn_once_trait()];
    let preds = tcx.predicates_of(did).instantiate_identity(tcx);
    let mut items: Vec<String> = vec![];
    let mut outs: Vec<(String, String)> = vec![];
    for (clause, _) in preds.predicates.iter().zip(preds.spans.iter()) {
        let clause = clause.skip_normalization();
        if let Some(pc) = clause.as_projection_clause() {
            let pc = pc.skip_binder();
            if Some(pc.projection_term.def_id()) == li.fn_once_output() {
                outs.push((pc.projection_term.self_ty().to_string(), pc.term.to_string()));
            }
        }
    }
    for clause in preds.predicates.iter() {
        let clause = clause.skip_normalization();
        if let Some(tc) = clause.as_trait_clause() {
            let tc = tc.skip_binder();
            let td = tc.trait_ref.def_id;
            if fn_traits.contains(&Some(td)) {
                let st = tc.trait_ref.self_ty();
                let inputs = tc.trait_ref.args.type_at(1);
                let by_ref: Vec<String> = match inputs.kind() {
                    ty::Tuple(ts) => ts.iter().map(|t| (if matches!(t.kind(), ty::Ref(..)) { "true" } else { "false" }).to_string()).collect(),
                    _ => vec![],
                };
                let out = outs.iter().find(|(s, _)| *s == st.to_string()).map(|(_, o)| o.clone()).unwrap_or_default();
                items.push(format!("{{\"param\":{},\"trait\":{},\"inputs\":{},\"by_ref\":[{}],\"output\":{}}}", esc(&st.to_string()), esc(&tcx.def_path_str(td)), esc(&inputs.to_string()), by_ref.join(","), esc(&out)));
            }
        }
    }
    format!("[{}]", items.join(","))
}

fn body_json<'tcx>(tcx: TyCtxt<'tcx>, did: DefId, kind: DefKind) -> String {
    let body = if matches!(kind, DefKind::Const { .. } | DefKind::AssocConst { .. }) { tcx.mir_for_ctfe(did) } else { tcx.optimized_mir(did) };
    body_json_of(tcx, did, kind, body, None)
}

fn body_json_of<'tcx>(tcx: TyCtxt<'tcx>, did: DefId, kind: DefKind, body: &Body<'tcx>, promoted: Option<u32>) -> String {
    let env = TypingEnv::post_analysis(tcx, did);
    let sm = tcx.sess.source_map();
    let mut s = String::new();
    let span = tcx.def_span(did);
    let lo = sm.lookup_char_pos(span.lo());
    let hi = sm.lookup_char_pos(body.span.hi());
    let (bname, bkind) = match promoted { Some(p) => (format!("{}::promoted[{}]", tcx.def_path_str(did), p), "Const-promoted".to_string()), None => (tcx.def_path_str(did), format!("{:?}", kind)) };
    let kind = if promoted.is_some() { DefKind::AnonConst } else { kind };
    let _ = write!(s, "{{\"name\":{},\"kind\":{},\"file\":{},\"line\":{},\"end\":{},\"argc\":{}", esc(&bname), esc(&bkind), esc(&lo.file.name.prefer_local_unconditionally().to_string()), lo.line, hi.line, body.arg_count);
    if kind == DefKind::Closure {
        let _ = write!(s, ",\"parent\":{}", esc(&tcx.def_path_str(tcx.parent(did))));
        let caps: Vec<String> = tcx.closure_captures(did.expect_local()).iter().map(|c| esc(&c.to_string(tcx))).collect();
        let _ = write!(s, ",\"captures\":[{}]", caps.join(","));
    }
    {
        let base = tcx.typeck_root_def_id(did);
        let _ = write!(s, ",\"fn_bounds\":{}", fn_bounds_json(tcx, base));
        // type parameters in the order in which call sites list their type arguments ("targs")
        let tps: Vec<String> = ty::GenericArgs::identity_for_item(tcx, base).types().map(|t| esc(&t.to_string())).collect();
        let _ = write!(s, ",\"type_params\":[{}]", tps.join(","));
        let _ = write!(s, ",\"ret_ty\":{},\"ret_head\":{}", esc(&body.return_ty().to_string()), esc(&ty_head(tcx, body.return_ty())));
        let _ = write!(s, ",\"vis_pub\":{}", if matches!(kind, DefKind::Fn | DefKind::AssocFn) { tcx.visibility(did).is_public() } else { false });
        let attrs_derived = if matches!(kind, DefKind::AssocFn) { tcx.impl_of_assoc(did).map(|i| tcx.is_automatically_derived(i)).unwrap_or(false) } else { false };
        let _ = write!(s, ",\"derived\":{}", attrs_derived);
    }
    if matches!(kind, DefKind::AssocFn) {
        if let Some(imp) = tcx.impl_of_assoc(did) {
            if let Some(tr) = tcx.impl_opt_trait_ref(imp) {
                let tr = tr.instantiate_identity().skip_normalization();
                let _ = write!(s, ",\"impl_trait\":{},\"impl_self\":{}", esc(&tcx.def_path_str(tr.def_id)), esc(&ty_head(tcx, tr.self_ty())));
            } else {
                let st = tcx.type_of(imp).instantiate_identity().skip_normalization();
                let _ = write!(s, ",\"impl_self\":{}", esc(&ty_head(tcx, st)));
            }
        } else if let Some(tr) = tcx.trait_of_assoc(did) {
            let _ = write!(s, ",\"trait_default\":{}", esc(&tcx.def_path_str(tr)));
        }
        let _ = write!(s, ",\"method\":{}", esc(&tcx.item_name(did).to_string()));
    }
    // locals
    s.push_str(",\"locals\":[");
    let mut names: Vec<Option<String>> = vec![None; body.local_decls.len()];
    let mut upnames: Vec<(String, String)> = vec![];
    for v in &body.var_debug_info {
        if let VarDebugInfoContents::Place(p) = &v.value {
            if p.projection.is_empty() { names[p.local.as_usize()] = Some(v.name.to_string()); }
            else { upnames.push((v.name.to_string(), format!("{:?}", p))); }
        }
    }
    for (i, (l, d)) in body.local_decls.iter_enumerated().enumerate() {
        if i > 0 { s.push(','); }
        note_enum(d.ty);
        let _ = write!(s, "{{\"i\":{},\"ty\":{},\"head\":{},\"name\":{}}}", l.as_u32(), esc(&d.ty.to_string()), esc(&ty_head(tcx, d.ty)), match &names[i] { Some(n) => esc(n), None => "null".into() });
    }
    s.push_str("],\"upvar_names\":[");
    let v: Vec<String> = upnames.iter().map(|(n, p)| format!("[{},{}]", esc(n), esc(p))).collect();
    s.push_str(&v.join(","));
    s.push_str("],\"blocks\":[");
    for (bi, (bb, data)) in body.basic_blocks.iter_enumerated().enumerate() {
        if bi > 0 { s.push(','); }
        let _ = write!(s, "{{\"bb\":{},\"cleanup\":{},\"stmts\":[", bb.as_u32(), data.is_cleanup);
        let mut first = true;
        for st in &data.statements {
            if let StatementKind::Assign(b) = &st.kind {
                if !first { s.push(','); }
                first = false;
                let sline = sm.lookup_char_pos(st.source_info.span.lo()).line;
                let _ = write!(s, "{{\"lhs\":{},\"rv\":{},\"line\":{}}}", place_json(tcx, body, &b.0), rvalue_json(tcx, env, body, &b.1), sline);
            }
        }
        s.push_str("],\"term\":");
        let term = data.terminator();
        let line = sm.lookup_char_pos(term.source_info.span.lo()).line;
        match &term.kind {
            TerminatorKind::Goto { target } => { let _ = write!(s, "{{\"t\":\"goto\",\"target\":{}}}", target.as_u32()); }
            TerminatorKind::SwitchInt { discr, targets } => {
                let arms: Vec<String> = targets.iter().map(|(v, t)| format!("[{},{}]", esc(&v.to_string()), t.as_u32())).collect();
                let _ = write!(s, "{{\"t\":\"switch\",\"discr\":{},\"arms\":[{}],\"otherwise\":{}}}", op_json(tcx, env, body, discr), arms.join(","), targets.otherwise().as_u32());
            }
            TerminatorKind::Return => s.push_str("{\"t\":\"return\"}"),
            TerminatorKind::Unreachable => s.push_str("{\"t\":\"unreachable\"}"),
            TerminatorKind::UnwindResume => s.push_str("{\"t\":\"resume\"}"),
            TerminatorKind::UnwindTerminate(_) => s.push_str("{\"t\":\"terminate\"}"),
            TerminatorKind::Drop { place, target, unwind, .. } => {
                let t = place.ty(&body.local_decls, tcx).ty;
                let _ = write!(s, "{{\"t\":\"drop\",\"pl\":{},\"ty\":{},\"head\":{},\"target\":{},\"unwind\":{},\"line\":{}}}", place_json(tcx, body, place), esc(&t.to_string()), esc(&ty_head(tcx, t)), target.as_u32(), unwind_json(unwind), line);
            }
            TerminatorKind::Assert { cond, expected, msg, target, unwind } => {
                let kind = format!("{:?}", std::mem::discriminant(&**msg));
                let _ = kind;
                let _ = write!(s, "{{\"t\":\"assert\",\"cond\":{},\"expected\":{},\"msg\":{},\"target\":{},\"unwind\":{},\"line\":{}}}", op_json(tcx, env, body, cond), expected, esc(&format!("{:?}", msg)), target.as_u32(), unwind_json(unwind), line);
            }
            TerminatorKind::Call { func, args, destination, target, unwind, .. } => {
                s.push_str("{\"t\":\"call\"");
                match func {
                    Operand::Constant(c) => {
                        if let ty::FnDef(cd, cargs) = *c.const_.ty().kind() {
                            let _ = write!(s, ",\"callee\":{},\"callee_full\":{}", esc(&tcx.def_path_str(cd)), esc(&tcx.def_path_str_with_args(cd, cargs)));
                            // self type of trait method
                            if let Some(tr) = tcx.trait_of_assoc(cd) {
                                let st = cargs.type_at(0);
                                let _ = write!(s, ",\"trait\":{},\"self_head\":{},\"self_ty\":{}", esc(&tcx.def_path_str(tr)), esc(&ty_head(tcx, st)), esc(&st.to_string()));
                            }
                            let _ = write!(s, ",\"method\":{}", esc(&tcx.item_name(cd).to_string()));
                            let unsafe_ = tcx.fn_sig(cd).skip_binder().safety().is_unsafe();
                            let _ = write!(s, ",\"unsafe\":{}", unsafe_);
                            let targs: Vec<String> = cargs.types().map(|t| esc(&t.to_string())).collect();
                            let _ = write!(s, ",\"targs\":[{}]", targs.join(","));
                            match Instance::try_resolve(tcx, env, cd, cargs) {
                                Ok(Some(i)) => { let _ = write!(s, ",\"resolved\":{},\"local\":{}", esc(&tcx.def_path_str(i.def_id())), i.def_id().is_local()); }
                                _ => s.push_str(",\"resolved\":null"),
                            }
                        } else {
                            let _ = write!(s, ",\"callee\":null,\"fnptr\":{}", esc(&format!("{:?}", c)));
                        }
                    }
                    other => { let _ = write!(s, ",\"callee\":null,\"indirect\":{}", op_json(tcx, env, body, other)); }
                }
                let a: Vec<String> = args.iter().map(|a| op_json(tcx, env, body, &a.node)).collect();
                let _ = write!(s, ",\"args\":[{}],\"dest\":{},\"target\":{},\"unwind\":{},\"line\":{},\"exp\":{}}}", a.join(","), place_json(tcx, body, destination), bbn(target), unwind_json(unwind), line, term.source_info.span.from_expansion());
            }
            other => { let _ = write!(s, "{{\"t\":\"other\",\"s\":{}}}", esc(&format!("{:?}", other))); }
        }
        s.push('}');
    }
    s.push_str("]}");
    s
}

struct Cb;
impl rustc_driver::Callbacks for Cb {
    fn after_analysis<'tcx>(&mut self, _c: &rustc_interface::interface::Compiler, tcx: TyCtxt<'tcx>) -> Compilation {
        let crate_name = tcx.crate_name(rustc_span::def_id::LOCAL_CRATE).to_string();
        let want = std::env::var("ORXFACTS_CRATE").unwrap_or("orx_parallel".into());
        if crate_name != want { return Compilation::Continue; }
        let mut out = String::from("{\"crate\":");
        out.push_str(&esc(&crate_name));
        out.push_str(",\"bodies\":[");
        let mut first = true;
        for ldid in tcx.hir_body_owners() {
            let did = ldid.to_def_id();
            let kind = tcx.def_kind(did);
            if !matches!(kind, DefKind::Fn | DefKind::AssocFn | DefKind::Closure | DefKind::Const { .. } | DefKind::AssocConst { .. }) { continue; }
            if !first { out.push(','); }
            first = false;
            out.push_str(&body_json(tcx, did, kind));
            if matches!(kind, DefKind::Fn | DefKind::AssocFn | DefKind::Closure) {
                for (pi, pbody) in tcx.promoted_mir(did).iter_enumerated() {
                    out.push(',');
                    out.push_str(&body_json_of(tcx, did, kind, pbody, Some(pi.as_u32())));
                }
            }
        }
        out.push_str("],\"impls\":[");
        let mut first = true;
        for id in tcx.hir_free_items() {
            let did = id.owner_id.to_def_id();
            if let DefKind::Impl { of_trait } = tcx.def_kind(did) {
                if !first { out.push(','); }
                first = false;
                let self_ty = tcx.type_of(did).instantiate_identity().skip_normalization();
                let tr = if of_trait { tcx.impl_opt_trait_ref(did).map(|t| tcx.def_path_str(t.instantiate_identity().skip_normalization().def_id)) } else { None };
                let methods: Vec<String> = tcx.associated_items(did).in_definition_order().filter(|a| a.is_fn()).map(|a| esc(&tcx.def_path_str(a.def_id))).collect();
                let _ = write!(out, "{{\"self_ty\":{},\"self_head\":{},\"trait\":{},\"derived\":{},\"methods\":[{}]}}", esc(&self_ty.to_string()), esc(&ty_head(tcx, self_ty)), match tr { Some(t) => esc(&t), None => "null".into() }, tcx.is_automatically_derived(did), methods.join(","));
            }
        }
        out.push_str("],\"adts\":[");
        let mut first = true;
        for id in tcx.hir_free_items() {
            let did = id.owner_id.to_def_id();
            if matches!(tcx.def_kind(did), DefKind::Struct | DefKind::Enum) {
                if !first { out.push(','); }
                first = false;
                let adt = tcx.adt_def(did);
                let discrs: Vec<String> = if adt.is_enum() { adt.discriminants(tcx).map(|(_, d)| d.val.to_string()).collect() } else { vec!["0".to_string()] };
                let vs: Vec<String> = adt.variants().iter().zip(discrs.iter()).map(|(v, dv)| {
                    let fs: Vec<String> = v.fields.iter().map(|f| format!("{{\"name\":{},\"ty\":{}}}", esc(&f.name.to_string()), esc(&tcx.type_of(f.did).instantiate_identity().skip_normalization().to_string()))).collect();
                    format!("{{\"name\":{},\"discr\":{},\"fields\":[{}]}}", esc(&v.name.to_string()), esc(dv), fs.join(","))
                }).collect();
                let _ = write!(out, "{{\"path\":{},\"enum\":{},\"variants\":[{}]}}", esc(&tcx.def_path_str(did)), adt.is_enum(), vs.join(","));
            }
        }
        let seen: Vec<DefId> = SEEN_ENUMS.with(|s| s.borrow().clone());
        for did in seen {
            let adt = tcx.adt_def(did);
            let discrs: Vec<String> = adt.discriminants(tcx).map(|(_, d)| d.val.to_string()).collect();
            let vs: Vec<String> = adt.variants().iter().zip(discrs.iter()).map(|(v, dv)| {
                let fs: Vec<String> = v.fields.iter().map(|f| format!("{{\"name\":{},\"ty\":\"\"}}", esc(&f.name.to_string()))).collect();
                format!("{{\"name\":{},\"discr\":{},\"fields\":[{}]}}", esc(&v.name.to_string()), esc(dv), fs.join(","))
            }).collect();
            if !first { out.push(','); }
            first = false;
            let _ = write!(out, "{{\"path\":{},\"enum\":true,\"ext\":true,\"variants\":[{}]}}", esc(&tcx.def_path_str(did)), vs.join(","));
        }
        out.push_str("],\"opts\":{");
        let _ = write!(out, "\"debug_assertions\":{},\"overflow_checks\":{},\"panic\":{}", tcx.sess.opts.debug_assertions, tcx.sess.overflow_checks(), esc(&format!("{:?}", tcx.sess.panic_strategy())));
        out.push_str("}}");
        let path = std::env::var("ORXFACTS_OUT").expect("ORXFACTS_OUT");
        std::fs::write(path, out).unwrap();
        Compilation::Continue
    }
}

fn main() {
    let mut args: Vec<String> = std::env::args().collect();
    args.remove(1);
    rustc_driver::run_compiler(&args, &mut Cb);
}
