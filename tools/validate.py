#!/usr/bin/env python3-vt
import json, sys, os, glob, jsonschema
V = os.path.dirname(os.path.dirname(os.path.abspath(__file__)))
ms = json.load(open('/root/.vp/MANIFEST.schema.json')); es = json.load(open('/root/.vp/EVIDENCE.schema.json'))
m = json.load(open(V + '/MANIFEST.json')); jsonschema.validate(m, ms); print('MANIFEST ok:', len(m['checks']), 'checks')
for c in m['checks']:
    p = os.path.join(V, c['evidence_file'])
    if os.path.exists(p):
        e = json.load(open(p)); jsonschema.validate(e, es); print(' evidence ok', c['property_id'], e['tier'], e['coverage']['evaluations'], e['coverage']['distinct_nontrivial'], e['violations'])
    else:
        print(' evidence MISSING', c['property_id'])
