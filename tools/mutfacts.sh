#!/bin/bash
# dev helper: apply a patch to a scratch copy of /repo and dump its facts to $2
T=$(mktemp -d); rsync -a --exclude target --exclude .git /repo/ $T/repo/ && (cd $T/repo && patch -p1 -s < $1) && python3 /verif/tools/dump_facts.py $T/repo $2; rm -rf $T
