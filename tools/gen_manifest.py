#!/usr/bin/env python3
"""regenerate MANIFEST.json from sa/properties.py (run after adding rules)"""
import sys, os, json
sys.path.insert(0, os.path.dirname(os.path.dirname(os.path.abspath(__file__))))
from sa.properties import PROPERTIES, load_rules
from sa.engine import RULES, RULE_DOC
load_rules()

LEVEL_TEXT = {
 'C12': 'Complete static decision (modulo rustc and the analysis itself): a data-flow fact about a Copy struct, proved by structural induction over the API with every obligation discharged by origin propagation on a loop-free body.',
 'C16': 'Complete static decision by a sound over-approximation: call-graph reachability from every lazy-by-contract API to anything that runs user code or consumes input; the eight eager sites are recorded known findings.',
}
DEFAULT_LEVEL = ('Static necessary conditions: each rule decides a structural clause of the property whose violation breaks the behaviour for some input/schedule, on every instance in the current MIR (never a sample). '
                 'The quantification over schedules/inputs is discharged compositionally through the stated dependency contracts; the behaviour as such is not executed or claimed.')
TECH = {
 'C01': 'origin-term dataflow over MIR: merge-key / slot provenance, append-only buffers, k-way-merge def-use facts, dominance of capacity reservation; per-path upper-bound analysis of the chunk-size resolution; receiver types of the source constructors; case re-execution of every pull-driven kernel loop, filtering adaptor and search closure with the user predicate / has_value fixed (accepted elements feed the result on every path, rejected ones on none: must-pass-through on the pruned CFG); must-pass-through of element carriers (runner result, iterator parameters) to a consuming call; deny-list of reordering / truncating std calls in the API layer; def-use of every stage closure into the returned computation or the kernel call; truth-table re-execution of composed predicates (conjunction of their parts); unordered materialisation deny rule in transformations; who-does-element-work rule on the parallel kernel entries (no pull and no stage-closure call outside the tasks)',
 'C02': 'seeded origin propagation (finite domain of orderings x option tags) of the find reduction; index provenance; CFG reachability after a match; case re-execution of every search closure / hand-written first-match loop (summarised as the find_map it spells) with the user predicate fixed: accepts exactly what the filter accepts; def-use of the predicate and filter closures into the kernel call; return-place assignments on the CFG with the exhaustion edges cut (a no-match answer only after an observed dry pull); truth-table re-execution of composed predicates; path conditions of literal-None answers inside search closures (only behind a user test or a search outcome)',
 'C03': 'origin propagation with phi recurrences (accumulator threading); truth table of maybe_reduce by seeded propagation; case re-execution of every pull-driven kernel loop, filtering adaptor and search closure with the user predicate / has_value fixed (accepted elements feed the result on every path, rejected ones on none: must-pass-through on the pruned CFG); must-pass-through of element carriers (runner result, iterator parameters) to a consuming call; deny-list of reordering / truncating std calls in the API layer; def-use of every stage closure into the returned computation or the kernel call; who-passes-what on the reduce terminals (the operator parameter reaches the kernel unchanged, not a closure built around it); truth-table re-execution of composed predicates; who-does-element-work rule on the parallel kernel entries (no pull and no stage-closure call outside the tasks)',
 'C04': 'origin propagation with phi recurrences; operator shape of the cross-thread sum; case re-execution of every pull-driven kernel loop, filtering adaptor and search closure with the user predicate / has_value fixed (accepted elements feed the result on every path, rejected ones on none: must-pass-through on the pruned CFG); must-pass-through of element carriers (runner result, iterator parameters) to a consuming call; deny-list of reordering / truncating std calls in the API layer; def-use of every stage closure into the returned computation or the kernel call; truth-table re-execution of composed predicates; who-does-element-work rule on the parallel kernel entries (no pull and no stage-closure call outside the tasks)',
 'C05': 'signature facts of closure bounds; per-iteration call multiplicity on the CFG; drop-terminator inventory in must-visit tasks; case re-execution of every pull-driven kernel loop, filtering adaptor and search closure with the user predicate / has_value fixed (accepted elements feed the result on every path, rejected ones on none: must-pass-through on the pruned CFG); must-pass-through of element carriers (runner result, iterator parameters) to a consuming call; deny-list of reordering / truncating std calls in the API layer; def-use of every stage closure into the returned computation or the kernel call; who-may-receive rule for stage closures inside the kernels (iterator adaptors, Option / Result combinators, crate functions only); who-does-element-work rule on the parallel kernel entries (no pull and no stage-closure call outside the tasks)',
 'C06': 'drop-elaborated MIR: no reachable Drop terminator on the by-value target (drop-flag aware via sparse conditional propagation); callee deny-list on &mut targets; must-pass-through of the iterator parameter of seq_extend to an append; constructor-vs-conversion origin of crate-built bridge vectors sent through the concurrent reservation; structural lower bound of every reserved amount by the input length; stores through the &mut target parameter (no assignment replaces the contents)',
 'C07': 'origin of the appended fragments (run_map result, unmodified); append-only task buffers; case re-execution of every pull-driven kernel loop, filtering adaptor and search closure with the user predicate / has_value fixed (accepted elements feed the result on every path, rejected ones on none: must-pass-through on the pruned CFG); must-pass-through of element carriers (runner result, iterator parameters) to a consuming call; deny-list of reordering / truncating std calls in the API layer; def-use of every stage closure into the returned computation or the kernel call; who-does-element-work rule on the parallel kernel entries (no pull and no stage-closure call outside the tasks)',
 'C08': 'who-may-call over the resolved call graph; dominance of do_spawn true edge over in-loop spawns; path conditions of do_spawn; bounds on max_num_threads; dataflow of user closures into iterator terminals driven by the spawning thread; no stage-closure call on the spawning thread inside the parallel kernel entries',
 'C09': 'dominance of is_sequential dispatch on every route (call graph + CFG); callee classification of sequential kernels; selection tables of the min/max wrappers by case re-execution (tie rules); dominance of concurrent reservations by the non-sequential edge; the acceptance / feed / stage-closure rules of C01-C05 applied to the sequential kernels; case analysis of is_sequential for Max(1) / Max(k != 1) / Auto including PartialEq::ne; terminal must-route (no answer without visiting the elements); operator pass-through on the reduce terminals',
 'C10': 'must-pass-through (skip_to_end before any maybe-Some return) on the CFG with discriminant refinement; no pull reachable after a match; call-graph laziness of the transformations in front of the terminal; no draining iterator method on user-fed iterators inside composed closures; setter frame rule (a chunk-size setter keeps num_threads) for the sequential-mode clause; chunk-size upper bound per pull',
 'C11': 'end-to-end origin chain of the chunk size through six links by seeded origin propagation; who-may-pull sweep: no pull of the shared source outside the worker tasks',
 'C12': 'origin propagation on loop-free bodies, one obligation per API method (structural induction)',
 'C13': 'inventory of ownership primitives (who-may-call); post-dominance pairing of ptr::read with set_len(0); consumer check of into_inner; structural lower bound of every reserved amount (an under-reserved bag panics inside the leak-on-unwind region)',
 'C14': 'drop-flag-aware reachability of Drop terminators from the runner call\'s unwind edge; callee resolution inside the double-drop window; who-may-call for panic APIs; loop-exit dependence analysis (no loop whose every exit depends on state only other threads advance; no blocking primitive)',
 'C15': 'panic-site obligations (Assert terminators, expect/assert calls) of the configuration slice discharged by guards, constructor invariants and arithmetic lemmas over origin terms; interprocedural upper-bound analysis of every size handed to an allocating API and of the resolved chunk size per CFG path (known and unknown length); selection tables of reductions (operand-order dependence); the structural kernel rules of C01-C07 as necessary conditions of equal results; loop-variant check (finite iterator, strictly decreasing tested counter, or do_spawn-guarded spawn loop) for every loop of the configuration slice',
 'C16': 'call-graph reachability (class-hierarchy resolution, closure-invocation summaries) from transformations, setters and source constructors to sinks; mutable-borrow dataflow of received values at construction time',
}
PENDING = {
}

checks = []
na = []
for pid in sorted(PROPERTIES):
    p = PROPERTIES[pid]
    if not p['rules'] or pid in PENDING:
        na.append({'property_id': pid, 'reason': PENDING.get(pid, 'rules for this property are under construction in this commit (see DESIGN.md section 10); not claimed until they are armed')})
        continue
    checks.append({
        'property_id': pid,
        'quick_cmd': './check %s --tier quick' % pid,
        'thorough_cmd': './check %s --tier thorough' % pid,
        'evidence_file': 'evidence/%s.json' % pid,
        'replay_cmd_template': './check --explain {path}',
        'engine': 'orxfacts+sa',
        'level_claimed': {'category': 'other', 'text': LEVEL_TEXT.get(pid, DEFAULT_LEVEL) + ' Rules: ' + ', '.join(p['rules']) + '.', 'design_ref': 'DESIGN.md section 3 (%s)' % pid},
        'level_note': 'Trusted: ' + '; '.join(p['assumes']) + (' ; ' + '; '.join(p['extra_assumptions']) if p['extra_assumptions'] else '') + ' (spelled out in DESIGN.md 1.4 and in each evidence file). ' + p['explanation'].split('Not decided:')[-1].strip().join(['Not decided: ', '']) if 'Not decided:' in p['explanation'] else 'Trusted: ' + '; '.join(p['assumes']),
        'technique': 'static analysis: ' + TECH[pid],
    })
m = {
 'version': 1,
 'setup_cmd': 'cd driver && CARGO_NET_OFFLINE=true cargo build --release --offline',
 'hooks': {'guard': 'orx_parallel_verif', 'enable': 'none: static analysis needs no instrumentation of /repo; no hook commits exist',
           'baseline_off_cmd': 'cd /repo && cargo test --workspace --no-fail-fast --offline', 'source_commits': [], 'add_only': True},
 'engines': [
   {'name': 'orxfacts', 'path': 'driver/', 'serves_properties': sorted(PROPERTIES), 'kind_free_text': 'rustc_private driver (RUSTC_WORKSPACE_WRAPPER under cargo +nightly check) dumping type-checked, drop-elaborated MIR with resolved callees as JSON'},
   {'name': 'sa', 'path': 'sa/', 'serves_properties': sorted(PROPERTIES), 'kind_free_text': 'Python static analyses over the MIR facts: CFG/dominance, resolved call graph with class-hierarchy expansion, sparse-conditional origin-propagation (opa), rules per property'},
 ],
 'checks': checks,
 'not_applicable': na,
 'notes': 'All checks are static: nothing from /repo is executed. Every run re-extracts MIR from /repo\'s working tree in a fresh target dir. Genuine defects repaired in /repo: six fix: commits (D1 C06, D2 C14, D3 C15, D5 C09, D6 C15, D11 C09); recorded known findings D4, D7-D10, D12 in known_findings.json. See DESIGN.md section 7.',
}
json.dump(m, open(os.path.join(os.path.dirname(os.path.dirname(os.path.abspath(__file__))), 'MANIFEST.json'), 'w'), indent=1)
print('claimed', [c['property_id'] for c in checks], 'n/a', [x['property_id'] for x in na])
