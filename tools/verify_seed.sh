#!/bin/bash
# verify a sub-agent's deliverable independently: usage verify_seed.sh <ID> <outdir> (outdir has patch.diff and demo.rs)
# 1. clean tree + demo  -> demo passes     2. patched tree -> whole suite passes except the demo, demo fails
ID=$1; OUT=$2; WT=/tmp/verify-wt-$ID
set -u
cd /repo && git worktree add -q --force $WT HEAD 2>/dev/null || { echo "worktree exists"; }
cd $WT && git checkout -q -- . && git clean -fdq tests >/dev/null 2>&1
demo=tests/demo_$(echo $ID | tr 'A-Z' 'a-z').rs
cp $OUT/demo.rs $demo
export CARGO_NET_OFFLINE=true
echo "== clean tree: demo"
cargo test --offline --test demo_$(echo $ID | tr 'A-Z' 'a-z') 2>&1 | grep -E "^test result|panicked|error" | head -5
echo "== apply patch"
git apply $OUT/patch.diff && echo applied
echo "== patched tree: full suite"
cargo test --offline --no-fail-fast 2>&1 | grep -E "^test result|Running|FAILED|failed" | awk '/Running/{cur=$0} /test result/{print cur " => " $0}' | sed 's/Running [a-z\/]*//' | cut -c1-160
echo "== done"
git checkout -q -- . ; rm -f $demo
cd /repo && git worktree remove --force $WT
