import sys
pid = sys.argv[1]
prop = open('/tmp/prop-%s.txt' % pid).read()
print(f"""You are helping to evaluate how well a set of correctness checks protects a Rust library. Your job is to play the role of a developer who introduces a subtle regression.

The library is `orx-parallel` (a parallel-iterator library: map/filter/flat_map/filter_map pipelines with terminals such as collect, reduce, count, find, run on scoped threads that pull chunks from a concurrent iterator). You have your own private git worktree of it at /tmp/wt-{pid} (work ONLY inside that directory; never touch /repo or /verif, and do not read anything under /verif). The machine is offline: use `cargo ... --offline` only. The existing test suite is run with `cargo test --offline` from /tmp/wt-{pid} (about 1-2 minutes the first time).

Here is one semantic property the library is supposed to satisfy:

---
{prop}---

TASK: produce ONE source change to the library (files under /tmp/wt-{pid}/src only) that BREAKS this property while
  (a) the crate still compiles without new warnings-as-errors,
  (b) the complete existing test suite (`cargo test --offline`, all integration tests and doc tests) still passes with your change, and
  (c) the breakage is realistic and subtle: the kind of slip a maintainer could make in a refactor or "optimisation". It must need something specific to manifest - a particular interleaving, an unusual input or parameter combination (e.g. a specific ChunkSize / NumThreads / input length / source kind), a multi-step sequence of operations, or two cooperating edits that each look fine alone - NOT something that ordinary use would expose at once. Do not just delete a feature, add an obviously silly special case like `if x == 12345`, or insert sleeps/randomness into the library.

Start by reading the relevant source (src/core/*.rs, src/par/*.rs, src/par_iter.rs, src/core/runner.rs, src/core/runner_settings/*) to find where this property is implemented, then pick a change.

DELIVERABLES - write them into the directory /tmp/wt-{pid}/_out/ (create it):
  1. `patch.diff`: the output of `git diff` for your change to src/ (only library source; no test files in it).
  2. A demonstration: a NEW integration test file `demo.rs` (copy it to /tmp/wt-{pid}/_out/demo.rs; to run it place it at /tmp/wt-{pid}/tests/demo_{pid.lower()}.rs) containing one or more #[test] functions that FAIL with your change applied and PASS on the unmodified library. If the failure is schedule-dependent, make the test deterministic enough to fail reliably (e.g. closures that block/sleep inside the TEST code, barriers, many repetitions, drop-counting or call-counting types, thread-id recording) - the test code may do anything; only the library change must be free of artificial hooks. A small program instead of a test is fine too (e.g. under examples/), as long as the commands to run it are given.
  3. `README.md`: (i) what you changed and why it breaks the property, (ii) exactly what is needed for the breakage to manifest, (iii) the exact commands you ran and their observed results: the full `cargo test --offline` summary with the change (must be all green except your demo), your demo failing with the change, and your demo passing after reverting the change with `git diff -- src > /tmp/wt-{pid}/_out/patch.diff; git checkout -- src` (re-apply it with `git apply _out/patch.diff`). NEVER use `git stash`: the stash is shared with other worktrees of this repository and other people are working in them.

Verify all three claims yourself by actually running the commands before you finish. When you are done, leave the worktree with your change APPLIED to src/ and the demo test file present under tests/. Your final message should be a short summary: files changed, what manifests the bug, and the test results you observed.""")
