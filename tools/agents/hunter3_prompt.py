import sys
pid = sys.argv[1]
prop = open('/tmp/prop-%s.txt' % pid).read()
print(f"""You are testing a Rust library for genuine defects.

The library is `orx-parallel` (a parallel-iterator library: map/filter/flat_map/filter_map pipelines with terminals such as collect, reduce, count, find, run on scoped threads that pull chunks from a concurrent iterator). You have your own private git worktree of it at /tmp/h9-{pid} (work ONLY inside that directory; never touch /repo or /verif, and do not read anything under /verif). The machine is offline: use `cargo ... --offline` only (the first `cargo test --offline` build takes 1-3 minutes; the machine is shared and may be loaded).

Here is one semantic property the library is supposed to satisfy:

---
{prop}---


ALREADY KNOWN - do not report these again (an earlier search found them; look for DIFFERENT violations):
  - repaired in this tree: collect_into(Vec/FixedVec) losing the target for unknown-length sources; a partially written bag dropped while unwinding; ChunkSize::Min overflow; max_by/max_by_key keeping the first instead of the last of equal maxima; ChunkSize::Exact not clamped by the input length; SplitVec collect_into reserving concurrent capacity in sequential mode.
  - known and recorded: eight transformations that are eager (filter/filter_map/flat_map types whose map/flat_map/filter_map call collect_vec at build time); with Max(n), n >= 2, the reduce operator also runs on the calling thread (n + 1 threads); sum() of an empty f32/f64 input returns +0.0 where Iterator::sum returns -0.0; ChunkSize values are not bounded for sources of unknown length (a huge Exact/Min allocates a huge buffer); min/max/min_by/max_by(_key) pick different elements among ties depending on params (operand order); a concurrent iterator that was already advanced before into_par()/par() gives shifted indices or "out of capacity"; collect_into a non-empty SplitVec from a map-only pipeline over a source of unknown length panics in the dependency (capacity 2^32 requested on top of the existing fragments); ParFlatMapFilter::map is eager and numbers the materialised elements afresh.
  - known limits inside the dependencies, not findings of this library: zero-sized output types through SplitVec; SplitVec targets built by From<Vec> of more than 131068 elements or with linear growth tripping table bounds in orx-split-vec; sources of >= 2^63 elements or ranges ending near usize::MAX; a panic inside the next() of a user-supplied source iterator leaving ConIterOfIter locked; unbounded inner iterators of flat_map in a find pipeline; closures being cloned per element.

TASK: find out whether the UNMODIFIED library already violates this property for some input, parameter setting, pipeline shape, source kind, element type, or thread interleaving. Do NOT change anything under src/. Read the implementation carefully (src/core/*.rs, src/par/*.rs, src/par_iter.rs, src/core/runner.rs, src/core/runner_settings/*, src/par/collect_into/*, src/into/*, and where it matters the dependencies under ~/.cargo/registry/src/*/orx-concurrent-iter-*, orx-concurrent-bag-*, orx-concurrent-ordered-bag-*, orx-split-vec-*, orx-fixed-vec-*) and look for corner cases the existing tests do not reach: boundary values of the parameters (0, 1, usize::MAX, values around the input length or the number of threads), empty and one-element inputs, sources of unknown length, elements with destructors or interior state, ties and duplicates, closures that panic, rarely used terminals and transformations, unusual but legal combinations of calls, each of the eight iterator types (par_empty, par_map, par_fil, par_map_fil, par_filtermap, par_filtermap_fil, par_flatmap, par_flatmap_fil), every collect target (Vec, SplitVec, FixedVec; empty and non-empty), and every provided method of the Par trait. Stay strictly within what the property statement and its quantifier cover (read them literally); if a candidate depends on an interpretation, say so.

For each candidate violation, write a small integration test under /tmp/h9-{pid}/tests/ (new files only, e.g. tests/hunt_{pid.lower()}_1.rs) that FAILS on the unmodified library because of the violation and would pass on a correct library, and run it (`cargo test --offline --test hunt_{pid.lower()}_1`). Make schedule-dependent failures deterministic with test-side blocking/barriers/repetition if needed. Keep each test under about a minute.

DELIVERABLES in /tmp/h9-{pid}/_out/ (create it):
  - `REPORT.md`: for every confirmed violation: the exact call sequence, the observed and the expected result, the root cause with file:line in the library (or in a dependency), and how sure you are that it is covered by the property as stated. Also list the things you tried that turned out to be correct behaviour (briefly), so that the search is not repeated.
  - the test files you wrote (copy them into _out/ as well).
If you find nothing after a thorough search, say so plainly in REPORT.md with the list of what you tried. Do not invent a violation: every claim must be backed by a test you actually ran, with its output quoted.

NEVER use `git stash`. Your final message: a short summary of confirmed violations (or none), with the failing call sequence for each.""")
