import sys
pid = sys.argv[1]
prop = open('/tmp/prop-%s.txt' % pid).read()
used = {
 'C01': ['narrowing the merge keys to u32', 'VecDeque::par() iterating only the first of the two ring-buffer slices', 'rewriting min_chunk_size so that ChunkSize::Min on an empty input resolves to chunk size 0 and panics'],
 'C02': ['a shared AtomicBool early-exit flag combined with take_while in the chunk-size-1 find path', 'first() on an unfiltered flat_map answering from the first source element only', 'recovering the index after the search from the requested (not the pulled) chunk length'],
 'C03': ['conflating "chunk had no survivors" with "source exhausted" in the chunked reduce loop of the filter_map kernel', 'moving the filter of the flat-map reduce kernel from the flattened stream to the first element of each inner iterator', 'checked_mul with a catch-all arm leaving an overflowing Min chunk unclamped (elements delivered several times)'],
 'C04': ['dropping the filter from the tail count of the chunk-size-1 count path of the filter_map kernel', 'answering count() with the initial length of the source for map-only pipelines', 'leaving the chunked count loop when has_more() reports No (too small exact size_hint)'],
 'C05': ['swapping / duplicating operands of a composed filter closure', 'composing filter_map after filter with then_some(f(x)) so the later stage runs for rejected elements', 'a map-only count kernel using chunk.map(&map).len()'],
 'C06': ['reserving only the additional length in SplitVec::map_into', 'swapping target and bridge vector before appending in the unknown-length Vec collect_into', 'FixedVec::seq_extend pushing onto the FixedVec itself (cannot grow)'],
 'C07': ['treating HasMore::Maybe like No in the pull loop of the collect_x tasks', 'a guard that calls skip_to_end() before spawning when the calling thread is already panicking', 'truncating the per-thread vectors at the first empty one in a map-only collect_x'],
 'C08': ['a materialize() helper at the eager flat_map sites that forwards chunk_size but not num_threads', 'a new kernel call site for unknown-length Vec targets without the is_sequential dispatch', 'an eager spawn loop for early-return terminals that stops at max instead of max - 1'],
 'C09': ['running the chunked per-thread reduce task inline in the sequential branch', 'rebuilding the stage after an eager boundary through into_par().chunk_size(..) and losing num_threads', 'max() delegating to max_by(Ord::cmp) with a different tie rule'],
 'C10': ['computing the chunk size of late workers from the remaining input length', 'raising skip_to_end in the filter_map find kernel only when has_more() is Yes(_)', 'any/all implemented as map(p).find(id), which materialises eagerly on flat_map+filter pipelines'],
 'C11': ['a flattened match in next_chunk_size_known_len that lets Exact(c>=2) fall into the growth arm', 'a buffered_chunk_size() helper that degrades the pull size to 1 when fewer than c elements remain', 'running the eagerly collected first stage with chunk_size(ChunkSize::Auto)'],
 'C12': ['clamping Max(n) to the intermediate length at the eager transformations', 'a num_threads(1) setter that rebuilds Params from Default and resets the chunk size', 'inherent ParEmpty::cloned()/copied() that rebuild through into_par() and drop the params'],
 'C13': ['a single-worker fast path in the heap-sort merge that returns before set_len(0)', 'moving the previous contents of a collect_into target out with ptr::read and dropping the target on the overflow path', 'an unwind guard that owns the buffered chunk iterator and forgets it on disarm'],
 'C14': ['a PartialBag drop guard in map_col that adds the offset twice', 'a spawner-side wait loop for worker progress that never ends when all workers panicked', 'fusing the user filter into the source iterator of a ConIterOfIter (panic inside the serialised section hangs the call)'],
 'C15': ['not clamping Max(t) by the input length plus rounding the fair share down (chunk size 0)', 'allocating per-thread buffers with Vec::with_capacity(chunk_size)', 'spawning all workers with a fixed 256 KiB stack'],
 'C16': ['making ParFlatMap::flat_map collect the upstream eagerly', 'wrapping the source of Iterator::par() in Peekable and peeking at build time', 'rebuilding the eager boundary through collect_vec().into_par().flat_map(..) and dropping the parameters'],
}
u = '\n'.join('    - ' + x for x in used[pid])
print(f"""You are helping to evaluate how well a set of correctness checks protects a Rust library. Your job is to play the role of a developer who introduces a subtle regression.

The library is `orx-parallel` (a parallel-iterator library: map/filter/flat_map/filter_map pipelines with terminals such as collect, reduce, count, find, run on scoped threads that pull chunks from a concurrent iterator). You have your own private git worktree of it at /tmp/w5-{pid} (work ONLY inside that directory; never touch /repo or /verif, and do not read anything under /verif). The machine is offline: use `cargo ... --offline` only. The existing test suite is run with `cargo test --offline --no-fail-fast` from /tmp/w5-{pid} (about 1-3 minutes the first time; the machine is shared and may be loaded).

Here is one semantic property the library is supposed to satisfy:

---
{prop}---

TASK: produce ONE source change to the library (files under /tmp/w5-{pid}/src only) that BREAKS this property while
  (a) the crate still compiles without warnings,
  (b) the complete existing test suite (all integration tests and doc tests) still passes with your change, and
  (c) the breakage is realistic and subtle: the kind of slip a maintainer could make in a refactor, a performance tweak or a bug fix for something else. It must need something specific to manifest - a particular interleaving, an unusual input or parameter combination, a multi-step sequence of operations, or two cooperating edits in different places that each look fine alone - NOT something that ordinary use would expose at once. Do not just delete a feature, add an obviously silly special case like `if x == 12345`, or insert sleeps/randomness into the library.

IMPORTANT - this is a fifth round. Other developers already used the following ideas for this property; do NOT repeat them or close variants. Pick a DIFFERENT region of the code and a DIFFERENT mechanism. Good hunting grounds that were hardly touched so far: the provided trait methods in src/par_iter.rs (min/max/sum/fold/for_each/any/all/first/last-style helpers and their composition), the less common iterator types in src/par/*.rs (par_empty, par_map, par_filtermap, par_flatmap and their `_fil` variants - each has its own impl of every terminal), the `into`/source layer in src/into/*.rs, src/core/utils.rs and src/core/default_fns.rs, the fold/reduce identity handling, the interplay of two settings (num_threads with chunk_size, Min vs Exact), the growth logic of chunk sizes in src/core/runner.rs, integer-width or off-by-one slips at boundaries (length 0/1, chunk == length, exactly max threads), and changes that consist of two cooperating edits in different files that each look fine alone.
  already used:
{u}

Start by reading the relevant source to find the places where this property is implemented, then pick a change.

DELIVERABLES - write them into the directory /tmp/w5-{pid}/_out/ (create it):
  1. `patch.diff`: the output of `git diff -- src` for your change (only library source; no test files in it).
  2. `demo.rs`: a NEW integration test file (to run it place it at /tmp/w5-{pid}/tests/demo_{pid.lower()}.rs) containing one or more #[test] functions that FAIL with your change applied and PASS on the unmodified library. If the failure is schedule-dependent, make the test deterministic enough to fail reliably (closures that block inside the TEST code, barriers, many repetitions, drop-counting or call-counting types, thread-id recording) - the test code may do anything; only the library change must be free of artificial hooks. Keep the demo's run time under about one minute.
  3. `README.md`: (i) what you changed and why it breaks the property, (ii) exactly what is needed for the breakage to manifest, (iii) the exact commands you ran and their observed results: the full `cargo test --offline --no-fail-fast` summary with the change (all green except your demo), your demo failing with the change, and your demo passing after reverting the change with `git diff -- src > _out/patch.diff; git checkout -- src` (re-apply with `git apply _out/patch.diff`).

NEVER use `git stash` (the stash is shared with other worktrees of this repository that other people are using). Verify all three claims yourself by actually running the commands before you finish. When you are done, leave the worktree with your change APPLIED to src/ and the demo test file present under tests/. Your final message should be a short summary: files changed, what manifests the bug, and the test results you observed.""")
