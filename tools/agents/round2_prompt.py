import sys
pid = sys.argv[1]
prop = open('/tmp/prop-%s.txt' % pid).read()
used = {
 'C01': 'narrowing the merge keys to u32; a "skip the merge when already ordered" fast path',
 'C02': 'a shared AtomicBool early-exit flag combined with take_while in the chunk-size-1 find path',
 'C03': 'conflating "chunk had no survivors" with "source exhausted" in the chunked reduce loop of the filter_map kernel',
 'C04': 'rewriting the chunk-size-1 count path of the filter_map kernel with iterator adaptors and dropping the filter from the tail count',
 'C05': 'swapping the operands of `filter1(x) && filter(x)` in a composed filter closure',
 'C06': 'reserving only the additional length (not existing + additional) with reserve_maximum_concurrent_capacity in SplitVec::map_into',
 'C07': 'guarding the pull loop of the collect_x tasks with `while let HasMore::Yes(_) = iter.has_more()` so that Maybe is treated like No',
 'C08': 'a materialize() helper at the eager flat_map sites that forwards chunk_size but not num_threads',
 'C09': 'running the chunked per-thread reduce task inline in the sequential branch when a chunk size was set explicitly',
 'C10': 'computing the chunk size of late-spawned workers from the remaining input length ("guided scheduling")',
 'C11': 'a flattened match in next_chunk_size_known_len that only keeps Exact(1) fixed and lets Exact(c>=2) fall into the growth arm',
 'C12': 'clamping Max(n) to the length of the intermediate vector at the eagerly materialising transformations',
 'C13': 'a single-worker fast path in heap_sort_into_pinned_vec that reads values out by raw pointer and returns before set_len(0)',
 'C14': 'a PartialBag drop guard in map_col that records the first failed position but adds the offset twice',
 'C15': 'not clamping Max(t) by the input length together with rounding the fair share down in min_chunk_size (chunk size 0)',
 'C16': 'making ParFlatMap::flat_map collect the upstream eagerly',
}
print(f"""You are helping to evaluate how well a set of correctness checks protects a Rust library. Your job is to play the role of a developer who introduces a subtle regression.

The library is `orx-parallel` (a parallel-iterator library: map/filter/flat_map/filter_map pipelines with terminals such as collect, reduce, count, find, run on scoped threads that pull chunks from a concurrent iterator). You have your own private git worktree of it at /tmp/w2-{pid} (work ONLY inside that directory; never touch /repo or /verif, and do not read anything under /verif). The machine is offline: use `cargo ... --offline` only. The existing test suite is run with `cargo test --offline --no-fail-fast` from /tmp/w2-{pid} (about 1-3 minutes the first time; the machine is shared and may be loaded).

Here is one semantic property the library is supposed to satisfy:

---
{prop}---

TASK: produce ONE source change to the library (files under /tmp/w2-{pid}/src only) that BREAKS this property while
  (a) the crate still compiles without warnings,
  (b) the complete existing test suite (all integration tests and doc tests) still passes with your change, and
  (c) the breakage is realistic and subtle: the kind of slip a maintainer could make in a refactor, a performance tweak or a bug fix for something else. It must need something specific to manifest - a particular interleaving, an unusual input or parameter combination, a multi-step sequence of operations, or two cooperating edits in different places that each look fine alone - NOT something that ordinary use would expose at once. Do not just delete a feature, add an obviously silly special case like `if x == 12345`, or insert sleeps/randomness into the library.

IMPORTANT - this is a second round. Another developer already used the following idea for this property; do NOT repeat it or a close variant, and prefer a different region of the code and a different mechanism (for example a different kernel family, a different terminal, the provided trait methods in src/par_iter.rs, the spawning logic in src/core/runner.rs, the parameter resolution in src/core/runner_settings/, the collect_into implementations, or the composed closures in src/par/*.rs):
  already used: {used[pid]}

Start by reading the relevant source (src/core/*.rs, src/par/*.rs, src/par_iter.rs, src/core/runner.rs, src/core/runner_settings/*, src/par/collect_into/*) to find the places where this property is implemented, then pick a change.

DELIVERABLES - write them into the directory /tmp/w2-{pid}/_out/ (create it):
  1. `patch.diff`: the output of `git diff -- src` for your change (only library source; no test files in it).
  2. `demo.rs`: a NEW integration test file (to run it place it at /tmp/w2-{pid}/tests/demo_{pid.lower()}.rs) containing one or more #[test] functions that FAIL with your change applied and PASS on the unmodified library. If the failure is schedule-dependent, make the test deterministic enough to fail reliably (closures that block inside the TEST code, barriers, many repetitions, drop-counting or call-counting types, thread-id recording) - the test code may do anything; only the library change must be free of artificial hooks. Keep the demo's run time under about one minute.
  3. `README.md`: (i) what you changed and why it breaks the property, (ii) exactly what is needed for the breakage to manifest, (iii) the exact commands you ran and their observed results: the full `cargo test --offline --no-fail-fast` summary with the change (all green except your demo), your demo failing with the change, and your demo passing after reverting the change with `git diff -- src > _out/patch.diff; git checkout -- src` (re-apply with `git apply _out/patch.diff`).

NEVER use `git stash` (the stash is shared with other worktrees of this repository that other people are using). Verify all three claims yourself by actually running the commands before you finish. When you are done, leave the worktree with your change APPLIED to src/ and the demo test file present under tests/. Your final message should be a short summary: files changed, what manifests the bug, and the test results you observed.""")
