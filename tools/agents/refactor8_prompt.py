import sys
name, files, style = sys.argv[1], sys.argv[2], sys.argv[3]
print(f"""You are a maintainer of the Rust library `orx-parallel` (a parallel-iterator library: map/filter/flat_map/filter_map pipelines with terminals such as collect, reduce, count, find, run on scoped threads that pull chunks from a concurrent iterator). You have your own private git worktree at /tmp/rf-{name} (work ONLY inside that directory; never touch /repo or /verif, and do not read anything under /verif). Everything is offline: always pass `--offline` to cargo.

TASK: do a BEHAVIOUR-PRESERVING refactoring of these source files: {files}

Style of this round: {style}

Make it a real, invasive clean-up of the kind that shows up in ordinary maintenance, NOT a cosmetic rename. The observable behaviour must be exactly the same for every input, every parameter setting and every schedule: same results, same order, same number of calls of every user closure on the same elements, same laziness (nothing runs before the terminal call), same threads (what ran on the calling thread still does), same pulls from the concurrent iterator (same chunk sizes, same calls), same reservations, same early exits, same panics. Do not fix bugs you think you see; do not change public signatures or documentation examples.

Then verify: `cargo build --offline` must give no warnings and `cargo test --offline --no-fail-fast` must pass completely (about 1-3 minutes; the machine is shared and may be loaded).

DELIVERABLES in /tmp/rf-{name}/_out/ (create it): `patch.diff` = output of `git diff -- src` (use `git add -N` for new files first); `README.md` = a bullet list of the refactorings you applied and why each preserves behaviour, plus the test summary you observed. NEVER use `git stash`. Leave the worktree with the refactoring applied. Your final message: a short summary of what you refactored and the test result.""")
