#!/usr/bin/env python3
"""which properties' rules report a given patch?  usage: tools/eval_seed.py <patch> [PID ...]"""
import sys, os, json
V = os.path.dirname(os.path.dirname(os.path.abspath(__file__)))
sys.path.insert(0, V)
from sa.runner import scratch_copy
from sa.facts import run_driver, Facts, CompileError
from sa.engine import Ctx, run_rules, RULES
from sa.properties import PROPERTIES, load_rules
from sa import report
import subprocess, shutil
load_rules()
patch = os.path.abspath(sys.argv[1])
pids = sys.argv[2:] or sorted(PROPERTIES)
tmp, dst = scratch_copy('/repo')
try:
    r = subprocess.run(['patch', '-p1', '--no-backup-if-mismatch', '-s', '-f', '-i', patch], cwd=dst, stdout=subprocess.PIPE, stderr=subprocess.STDOUT, text=True)
    if r.returncode != 0:
        print('PATCH DOES NOT APPLY', r.stdout[-500:]); sys.exit(3)
    try:
        F = Facts(run_driver(dst, 'orx_parallel'))
    except CompileError as e:
        print('DOES NOT COMPILE', str(e)[-800:]); sys.exit(3)
    ctx = Ctx(F, os.environ.get('TIER', 'quick'))
    rules = []
    for p in pids:
        for rr in PROPERTIES[p]['rules']:
            if rr not in rules: rules.append(rr)
    known = {k['key'] for k in report.load_known()['findings']}
    outs = run_rules(ctx, rules)
    hits = {}
    for o in outs:
        for f in o.findings:
            if f.key in known: continue
            hits.setdefault(o.rule, []).append(f)
    for rule, fs in hits.items():
        props = [p for p in sorted(PROPERTIES) if rule in PROPERTIES[p]['rules']]
        for f in fs[:4]:
            print('%-14s %s | %s | %s | %s' % (rule, ','.join(props), f.kind, f.where, f.msg[:220]))
    if not hits: print('SILENT: no rule reports this patch')
finally:
    shutil.rmtree(tmp, ignore_errors=True)
