#!/usr/bin/env python3
"""Systematic mutation of /repo's source with generic operators, to look for violations the rules do NOT report.

  tools/selfmut.py gen  <out.json> [file-glob ...]     enumerate mutants (file, line, operator, old line, new line)
  tools/selfmut.py run  <in.json> <results.json> [-j N] [--from K --to L]
        per mutant: scratch copy of /repo, apply, extract facts (compile), run all rules -> 'nocompile' | 'reported' | 'silent'
  tools/selfmut.py test <results.json> <out.json> [-j N]
        the silent ones: run the repository's test suite on them -> 'killed-by-tests' | 'survives-tests'

A dev tool: nothing registered in MANIFEST.json depends on it.  Survivors of both are either equivalent mutants or gaps of the
checker; they are triaged by hand (DESIGN 11.8)."""
import sys, os, re, json, glob, subprocess, shutil, tempfile, concurrent.futures as cf
V = os.path.dirname(os.path.dirname(os.path.abspath(__file__)))
sys.path.insert(0, V)
REPO = '/repo'
DEFAULT_GLOBS = ['src/core/*.rs', 'src/core/runner_settings/*.rs', 'src/par/*.rs', 'src/par/collect_into/*.rs', 'src/par_iter.rs', 'src/params.rs',
                 'src/into/*.rs', 'src/num_threads.rs', 'src/chunk_size.rs']

REL = [(' < ', ' <= '), (' <= ', ' < '), (' > ', ' >= '), (' >= ', ' > '), (' == ', ' != '), (' != ', ' == '), (' < ', ' > '), (' > ', ' < ')]
ARI = [(' + ', ' - '), (' - ', ' + '), (' * ', ' + '), (' / ', ' * '), (' += ', ' -= '), (' >>= ', ' <<= '), (' << ', ' >> ')]
BOO = [(' && ', ' || '), (' || ', ' && ')]
METH = [('.min(', '.max('), ('.max(', '.min('), ('.is_some()', '.is_none()'), ('.is_none()', '.is_some()'), ('.unwrap_or(0)', '.unwrap_or(1)'),
        ('Ordering::Less', 'Ordering::Greater'), ('Ordering::Greater', 'Ordering::Less'), ('.saturating_mul(', '.saturating_add('),
        ('.ids_and_values()', '.ids_and_values().skip(1)'), ('.values()', '.values().skip(1)'), ('.enumerate()', '.enumerate().skip(1)'),
        ('.next_chunk_x(', '.next_chunk_x(1 + '), ('.next_chunk(', '.next_chunk(1 + '), ('.buffered_iter(', '.buffered_iter(1 + '), ('.buffered_iter_x(', '.buffered_iter_x(1 + '),
        ('begin_idx + ', 'begin_idx * '), ('.find(', '.filter('), ('.flatten()', '.flatten().take(1)'), ('.rev()', ''), ('.cloned()', '.cloned().take(3)'),
        ('.reduce(', '.take(2).reduce('), ('.count()', '.skip(1).count()'), ('.collect()', '.take(5).collect()'), ('.extend(', '.extend(std::iter::empty().chain('),
        ('.len()', '.len() + 1'), ('self.len()', '0'), ('.push(', '.insert(0, '), ('.filter(', '.skip_while('), ('.map(', '.inspect(|_| ()).map(')]
ARMS = [(re.compile(r'^(\s*)true => '), r'\1false => ', 'arm'), (re.compile(r'^(\s*)false => '), r'\1true => ', 'arm'),
        (re.compile(r'^(\s*)None => '), None, 'none-arm'), (re.compile(r'^(\s*)1 => '), r'\g<1>2 => ', 'arm1'), (re.compile(r'^(\s*)0 => '), r'\g<1>1 => ', 'arm0')]
CONST = [(re.compile(r'(?<![\w.])0(?![\w.x])'), '1'), (re.compile(r'(?<![\w.])1(?![\w.x])'), '2'), (re.compile(r'(?<![\w.])1(?![\w.x])'), '0'),
         (re.compile(r'\btrue\b'), 'false'), (re.compile(r'\bfalse\b'), 'true'), (re.compile(r'(?<![\w.])32(?![\w.])'), '2'),
         (re.compile(r'\bAuto\b'), 'Min(std::num::NonZeroUsize::new(1).unwrap())')]
SKIP_LINE = re.compile(r'^\s*(//|///|#\[|use |pub use |mod |pub mod |where\b|impl\b|pub trait|trait\b|type |pub type |fn |pub fn |pub\(crate\) fn |\)|\}|\{)')


def in_code(lines):
    """line indices that are inside a function body (brace depth below an fn), not docs / signatures / where-clauses"""
    ok = []
    depth = 0
    fn_depths = []
    in_sig = False
    in_tests = False
    for i, ln in enumerate(lines):
        s = ln.strip()
        if s.startswith('#[cfg(test)]'):
            in_tests = True
        if re.match(r'^\s*(pub(\([a-z]+\))? )?(unsafe )?fn \w+', ln):
            in_sig = True
        opens, closes = ln.count('{'), ln.count('}')
        if in_sig and '{' in ln and not s.startswith('//'):
            in_sig = False
            fn_depths.append(depth)
            depth += opens - closes
            continue
        if in_sig and s.endswith(';'):
            in_sig = False
        if fn_depths and not in_sig and not in_tests and not s.startswith('//') and s:
            ok.append(i)
        depth += opens - closes
        while fn_depths and depth <= fn_depths[-1]:
            fn_depths.pop()
    return ok


BENIGN_SUBS = [
    (re.compile(r'\.map\((map|fmap|flat_map|filter_map)\)'), r'.map(|x| \1(x))', 'eta-map'),
    (re.compile(r'\.map\(&(map|fmap|flat_map|filter_map)\)'), r'.map(|x| \1(x))', 'eta-map-ref'),
    (re.compile(r'\.filter\((filter)\)'), r'.filter(|x| \1(x))', 'eta-filter'),
    (re.compile(r'\.filter\(&(filter)\)'), r'.filter(|x| \1(x))', 'eta-filter-ref'),
    (re.compile(r'\.flat_map\((map|fmap|flat_map)\)'), r'.flat_map(|x| \1(x))', 'eta-flat_map'),
    (re.compile(r'\.flat_map\(&(map|fmap|flat_map)\)'), r'.flat_map(|x| \1(x))', 'eta-flat_map-ref'),
    (re.compile(r'\.reduce\((reduce)\)'), r'.reduce(|a, b| \1(a, b))', 'eta-reduce'),
    (re.compile(r'^(\s*)(\w+) \+= (.*);$'), r'\1\2 = \2 + \3;', 'plus-assign'),
    (re.compile(r'\.unwrap_or\(0\)'), '.unwrap_or_default()', 'unwrap_or_default'),
    (re.compile(r'(\w+) < (\w+)\.(\w+)'), r'\2.\3 > \1', 'flip-lt'),
    (re.compile(r'(\w[\w.]*) == (\w[\w.()]*)(?=[ ;{)])'), r'\2 == \1', 'flip-eq'),
    (re.compile(r'^(\s*)for (.*) in (.*[\w)]) \{$'), r'\1for \2 in (\3).into_iter() {', 'for-into_iter'),
    (re.compile(r'^(\s*)while let Some\((\w+)\) = (.*) \{$'), r'\1while let Some(\2) = { let next = \3; next } {', 'while-let-block'),
    (re.compile(r'^(\s*)if (.*\)) \{$'), r'\1if { let cond = \2; cond } {', 'if-block'),
    (re.compile(r'\.is_some\(\)'), '.is_none() == false', 'is_some-spelled'),
    (re.compile(r'^(\s*)(\w+)\.push\((.*)\);$'), r'\1{ let item = \3; \2.push(item); }', 'push-temp'),
    (re.compile(r'^(\s*)let (\w+) = (.*);$'), r'\1let \2 = { \3 };', 'let-block'),
    (re.compile(r'^(\s*)return (.*);$'), r'\1{ let value = \2; return value; }', 'return-temp'),
    (re.compile(r'\b(a|x) \+ (b|y|1)\b'), r'\2 + \1', 'commute-add'),
    (re.compile(r'true => (.*),$'), None, 'none'),
]


def gen_benign(globs):
    muts = []
    files = []
    for g in globs:
        files += sorted(glob.glob(os.path.join(REPO, g)))
    for path in files:
        rel = os.path.relpath(path, REPO)
        lines = open(path).read().split('\n')
        for i in in_code(lines):
            ln = lines[i]
            if SKIP_LINE.match(ln):
                continue
            for rx, rep, nm in BENIGN_SUBS:
                if rep is None:
                    continue
                new, k = rx.subn(rep, ln, count=1)
                if k and new != ln:
                    muts.append({'file': rel, 'line': i + 1, 'op': 'benign:' + nm, 'old': ln, 'new': new})
    return muts


def gen(globs):
    muts = []
    files = []
    for g in globs:
        files += sorted(glob.glob(os.path.join(REPO, g)))
    for path in files:
        rel = os.path.relpath(path, REPO)
        lines = open(path).read().split('\n')
        for i in in_code(lines):
            ln = lines[i]
            if SKIP_LINE.match(ln) or 'debug_assert' in ln or ln.strip().startswith('assert'):
                continue
            cands = []
            for old, new in REL + ARI + BOO + METH:
                # generics: " < " with spaces is an operator in rustfmt'ed code
                start = 0
                k = 0
                while True:
                    j = ln.find(old, start)
                    if j < 0:
                        break
                    cands.append(('%s->%s#%d' % (old.strip(), new.strip(), k), ln[:j] + new + ln[j + len(old):]))
                    start = j + len(old)
                    k += 1
            for rx, rep, nm in ARMS:
                if rx.match(ln) and rep is not None:
                    cands.append((nm, rx.sub(rep, ln, 1)))
            for rx, rep in CONST:
                for k, mm in enumerate(rx.finditer(ln)):
                    if k > 2:
                        break
                    cands.append(('const:%s->%s#%d' % (mm.group(0), rep[:6], k), ln[:mm.start()] + rep + ln[mm.end():]))
            s = ln.strip()
            # statement deletion: a call / compound assignment statement on one line
            if s.endswith(';') and not s.startswith(('let ', 'return', 'break', 'continue')) and ('(' in s or '+=' in s or '= ' in s) and s.count('(') == s.count(')'):
                cands.append(('delete-stmt', re.match(r'^\s*', ln).group(0) + '{ }'))
            if s.startswith('return ') and s.endswith(';'):
                pass
            if re.match(r'^\s*if .* \{$', ln) and ' let ' not in ln:
                cond = re.match(r'^(\s*if )(.*)( \{)$', ln)
                cands.append(('if-not', cond.group(1) + '!(' + cond.group(2) + ')' + cond.group(3)))
            if re.match(r'^\s*while .* \{$', ln) and ' let ' not in ln:
                cond = re.match(r'^(\s*while )(.*)( \{)$', ln)
                cands.append(('while-not', cond.group(1) + '!(' + cond.group(2) + ')' + cond.group(3)))
            # --- second generation operators
            for k, mm in enumerate(re.finditer(r'(?<![\w)\]])!(?=[\w(])', ln)):          # `!x` -> `x`
                if not ln[mm.end():].startswith('='):
                    cands.append(('bang-removed#%d' % k, ln[:mm.start()] + ln[mm.end():]))
            for k, mm in enumerate(re.finditer(r'(\w[\w.&*()]*) (&&|\|\|) (\w[\w.&*()]*)', ln)):    # `a && b` -> `a` / `b`
                cands.append(('drop-right-operand#%d' % k, ln[:mm.start()] + mm.group(1) + ln[mm.end():]))
                cands.append(('drop-left-operand#%d' % k, ln[:mm.start()] + mm.group(3) + ln[mm.end():]))
            for k, mm in enumerate(re.finditer(r'\(([&*]?[\w.]+), ([&*]?[\w.]+)((?:, [&*]?[\w.]+)*)\)', ln)):   # swap the first two simple arguments
                if mm.group(1) != mm.group(2):
                    cands.append(('swap-args#%d' % k, ln[:mm.start()] + '(' + mm.group(2) + ', ' + mm.group(1) + mm.group(3) + ')' + ln[mm.end():]))
            for k, mm in enumerate(re.finditer(r', ([&*]?[\w.]+), ([&*]?[\w.]+)\)', ln)):                  # swap the last two simple arguments
                if mm.group(1) != mm.group(2):
                    cands.append(('swap-last-args#%d' % k, ln[:mm.start()] + ', ' + mm.group(2) + ', ' + mm.group(1) + ')' + ln[mm.end():]))
            for k, mm in enumerate(re.finditer(r'\bself\.params\b(?!\()', ln)):
                cands.append(('params-default#%d' % k, ln[:mm.start()] + 'crate::Params::default()' + ln[mm.end():]))
            for k, mm in enumerate(re.finditer(r'(?<=[(, ])params(?=[,)])', ln)):
                cands.append(('params-arg-default#%d' % k, ln[:mm.start()] + 'crate::Params::default()' + ln[mm.end():]))
            for k, mm in enumerate(re.finditer(r'\.0\b(?!\.)', ln)):
                cands.append(('field0->1#%d' % k, ln[:mm.start()] + '.1' + ln[mm.end():]))
            for k, mm in enumerate(re.finditer(r'\.1\b(?!\.)', ln)):
                cands.append(('field1->0#%d' % k, ln[:mm.start()] + '.0' + ln[mm.end():]))
            for old_, new_ in (('Some(', 'None.or(Some('), ('.clone()', ''), ('.into_seq_iter()', '.into_seq_iter().skip(1)'), ('.skip_to_end()', '.has_more()'),
                               ('chunk_size(', 'chunk_size(1 + '), ('num_threads(', 'num_threads(1 + '), ('.unwrap_or_else(identity)', '.unwrap_or_else(|| identity())'),
                               ('ParTask::EarlyReturn', 'ParTask::Collect'), ('ParTask::Collect', 'ParTask::EarlyReturn'), ('ParTask::Reduce', 'ParTask::Collect'),
                               ('=> x,', '=> y,'), ('=> y,', '=> x,'), ('{ b } else { a }', '{ a } else { b }'), ('.collect_vec()', '.collect_vec().into_iter().rev().collect::<Vec<_>>()'),
                               ('.iter_len()', '.iter_len().map(|n| n / 2)'), ('.try_get_len()', '.try_get_len().map(|n| n + 1)'), ('.reserve(', '.reserve(0 * '),
                               ('move |x| ', 'move |x| { let _ = &x; } ; move |x| '), ('no_filter', 'no_filter_never')):
                j = ln.find(old_)
                if j >= 0:
                    cands.append(('%s->%s' % (old_, new_[:18]), ln[:j] + new_ + ln[j + len(old_):]))
            seen = set()
            for op, new in cands:
                if new == ln or new in seen:
                    continue
                seen.add(new)
                muts.append({'file': rel, 'line': i + 1, 'op': op, 'old': ln, 'new': new})
    return muts


def scratch():
    tmp = tempfile.mkdtemp(prefix='selfmut-')
    dst = os.path.join(tmp, 'repo')
    subprocess.run(['rsync', '-a', '--exclude', 'target', '--exclude', '.git', REPO + '/', dst + '/'], check=True)
    return tmp, dst


def apply(dst, m):
    p = os.path.join(dst, m['file'])
    lines = open(p).read().split('\n')
    if lines[m['line'] - 1] != m['old']:
        return False
    lines[m['line'] - 1] = m['new']
    open(p, 'w').write('\n'.join(lines))
    return True


def run_one(m):
    from sa.facts import run_driver, Facts, CompileError
    from sa.engine import Ctx, run_rules
    from sa.properties import PROPERTIES, load_rules
    from sa import report
    load_rules()
    tmp, dst = scratch()
    try:
        if not apply(dst, m):
            return dict(m, status='stale')
        try:
            F = Facts(run_driver(dst, 'orx_parallel'))
        except CompileError:
            return dict(m, status='nocompile')
        except Exception as e:
            return dict(m, status='extract-error', err=str(e)[-200:])
        ctx = Ctx(F, 'quick')
        rules = []
        for p in sorted(PROPERTIES):
            for rr in PROPERTIES[p]['rules']:
                if rr not in rules:
                    rules.append(rr)
        known = {k['key'] for k in report.load_known()['findings']}
        try:
            outs = run_rules(ctx, rules)
        except Exception as e:
            return dict(m, status='reported', by=['CRASH:' + type(e).__name__], note=str(e)[-200:])
        hits = sorted({o.rule for o in outs for f in o.findings if f.key not in known})
        return dict(m, status='reported' if hits else 'silent', by=hits)
    finally:
        shutil.rmtree(tmp, ignore_errors=True)


def test_one(m):
    tmp, dst = scratch()
    try:
        if not apply(dst, m):
            return dict(m, tests='stale')
        env = dict(os.environ, CARGO_NET_OFFLINE='true', CARGO_TARGET_DIR=os.path.join(tmp, 'target'))
        try:
            r = subprocess.run(['cargo', 'test', '--offline', '--no-fail-fast', '--tests', '-q'], cwd=dst, env=env, stdout=subprocess.PIPE, stderr=subprocess.STDOUT, text=True, timeout=900)
        except subprocess.TimeoutExpired:
            return dict(m, tests='killed-by-tests', how='timeout')
        failed = re.findall(r'test result: FAILED', r.stdout)
        if r.returncode != 0:
            return dict(m, tests='killed-by-tests', how='%d failing targets' % len(failed))
        return dict(m, tests='survives-tests')
    finally:
        shutil.rmtree(tmp, ignore_errors=True)


def main():
    cmd = sys.argv[1]
    if cmd == 'gen-benign':
        muts = gen_benign(sys.argv[3:] or DEFAULT_GLOBS)
        json.dump(muts, open(sys.argv[2], 'w'), indent=0)
        print(len(muts), 'benign mutants')
        return
    if cmd == 'gen':
        muts = gen(sys.argv[3:] or DEFAULT_GLOBS)
        json.dump(muts, open(sys.argv[2], 'w'), indent=0)
        print(len(muts), 'mutants')
        return
    args = sys.argv[2:]
    j = 8
    lo, hi = 0, None
    if '-j' in args:
        j = int(args[args.index('-j') + 1])
    if '--from' in args:
        lo = int(args[args.index('--from') + 1])
    if '--to' in args:
        hi = int(args[args.index('--to') + 1])
    items = json.load(open(args[0]))
    if cmd == 'run':
        items = items[lo:hi]
        fn = run_one
    else:
        items = [m for m in items if m.get('status') == 'silent'][lo:hi]
        fn = test_one
    res = []
    with cf.ProcessPoolExecutor(max_workers=j) as ex:
        for k, r in enumerate(ex.map(fn, items, chunksize=1)):
            res.append(r)
            if k % 25 == 0:
                print(k, '/', len(items), flush=True)
                json.dump(res, open(args[1], 'w'), indent=0)
    json.dump(res, open(args[1], 'w'), indent=0)
    from collections import Counter
    print(Counter(r.get('tests') or r.get('status') for r in res))


if __name__ == '__main__':
    main()
