#!/usr/bin/env python3
"""regenerate DESIGN.md section 11.9 (rule inventory) from sa/properties.py"""
import sys, os
V = os.path.dirname(os.path.dirname(os.path.abspath(__file__)))
sys.path.insert(0, V)
from sa.properties import PROPERTIES, load_rules
from sa.engine import RULE_DOC
load_rules()
lines = ["### 11.9 Rule inventory as built (generated from `sa/properties.py`)\n", "",
         "Every armed rule with its one-line statement, and the properties whose check runs it. A rule in several lists is a necessary",
         "condition of each of them; a finding is reported under every property that lists the rule.\n", "",
         "| rule | decides | properties |", "|---|---|---|"]
allr = []
for pid in sorted(PROPERTIES):
    for r in PROPERTIES[pid]['rules']:
        if r not in allr:
            allr.append(r)
for r in sorted(allr):
    props = [p for p in sorted(PROPERTIES) if r in PROPERTIES[p]['rules']]
    doc = (RULE_DOC.get(r) or '').replace('|', '\\|')
    lines.append('| %s | %s | %s |' % (r, doc, ' '.join(props)))
lines.append('')
txt = '\n'.join(lines) + '\n'
p = os.path.join(V, 'DESIGN.md')
s = open(p).read()
i = s.index('### 11.9 Rule inventory')
j = s.index('### 11.6 Repairs made in /repo')
open(p, 'w').write(s[:i] + txt + s[j:])
print(len(allr), 'rules')
