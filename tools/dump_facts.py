#!/usr/bin/env python3
"""dev helper: extract facts of /repo (or another dir) to a json file"""
import sys, json, os
sys.path.insert(0, os.path.dirname(os.path.dirname(os.path.abspath(__file__))))
from sa.facts import run_driver
d = run_driver(sys.argv[1] if len(sys.argv) > 1 else '/repo', sys.argv[3] if len(sys.argv) > 3 else 'orx_parallel', release='--release' in sys.argv)
json.dump(d, open(sys.argv[2] if len(sys.argv) > 2 else '/tmp/facts.json', 'w'))
print(len(d['bodies']), 'bodies', round(d['_wall_s'], 1), 's')
