#!/usr/bin/env python3
"""recompute meta.detected_by / detected_rules of every seeded/<name>/ from the current rules"""
import sys, os, json, subprocess, shutil
V = os.path.dirname(os.path.dirname(os.path.abspath(__file__)))
sys.path.insert(0, V)
from sa.runner import scratch_copy
from sa.facts import run_driver, Facts, CompileError
from sa.engine import Ctx, run_rules, RULES
from sa.properties import PROPERTIES, load_rules
from sa import report
from concurrent.futures import ThreadPoolExecutor
load_rules()
known = {k['key'] for k in report.load_known()['findings']}
names = sys.argv[1:] or sorted(n for n in os.listdir(os.path.join(V, 'seeded')) if os.path.exists(os.path.join(V, 'seeded', n, 'meta.json')))

def work(name):
    d = os.path.join(V, 'seeded', name)
    patch = os.path.join(d, 'patch.diff')
    tmp, dst = scratch_copy('/repo')
    try:
        r = subprocess.run(['patch', '-p1', '--no-backup-if-mismatch', '-s', '-f', '-i', patch], cwd=dst, stdout=subprocess.PIPE, stderr=subprocess.STDOUT, text=True)
        if r.returncode != 0:
            return name, None, 'patch does not apply'
        F = Facts(run_driver(dst, 'orx_parallel'))
        ctx = Ctx(F, 'quick')
        outs = run_rules(ctx, sorted(RULES))
        rules = sorted({o.rule for o in outs for f in o.findings if f.key not in known})
        props = [p for p in sorted(PROPERTIES) if any(rr in PROPERTIES[p]['rules'] for rr in rules)]
        return name, props, rules
    finally:
        shutil.rmtree(tmp, ignore_errors=True)

with ThreadPoolExecutor(max_workers=6) as ex:
    for name, props, rules in ex.map(work, names):
        mp = os.path.join(V, 'seeded', name, 'meta.json')
        meta = json.load(open(mp))
        if props is None:
            print(name, rules); continue
        meta['detected_by'] = props
        meta['detected_rules'] = rules
        meta['own_property_detects'] = meta['property'] in props
        json.dump(meta, open(mp, 'w'), indent=1)
        print('%-6s own=%s props=%s rules=%s' % (name, meta['own_property_detects'], ','.join(props), ','.join(rules)))
