#!/bin/bash
# dev helper: run every claimed check (quick by default) in parallel and validate evidence
cd "$(dirname "$0")/.."
TIER=${1:-quick}
ids=$(python3 -c "import json; print(' '.join(c['property_id'] for c in json.load(open('MANIFEST.json'))['checks']))")
rc=0
for id in $ids; do ( ./check $id --tier $TIER > /tmp/check_$id.log 2>&1; echo "$id exit=$? $(grep -c '^VIOLATION' /tmp/check_$id.log) violations $(grep -c '^KNOWN-FINDING' /tmp/check_$id.log) known  $(head -1 /tmp/check_$id.log | sed 's/.*wall=//')" ) & done
wait
python3-vt tools/validate.py | grep -v "evidence ok" 
