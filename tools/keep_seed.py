#!/usr/bin/env python3
"""store a verified sub-agent change under /verif/seeded/<name>/ : keep_seed.py <name> <outdir> <property> <detected_by comma list> <needs...>"""
import sys, os, json, shutil, re
V = os.path.dirname(os.path.dirname(os.path.abspath(__file__)))
name, out, prop, det = sys.argv[1:5]
needs = ' '.join(sys.argv[5:])
d = os.path.join(V, 'seeded', name)
os.makedirs(d, exist_ok=True)
shutil.copy(os.path.join(out, 'patch.diff'), os.path.join(d, 'patch.diff'))
shutil.copy(os.path.join(out, 'demo.rs'), os.path.join(d, 'demo.rs'))
if os.path.exists(os.path.join(out, 'README.md')):
    shutil.copy(os.path.join(out, 'README.md'), os.path.join(d, 'AGENT_README.md'))
log = os.environ.get('VERIFY_LOG') or '/tmp/verify-%s.log' % name.split('-')[0]
ran = []
if os.path.exists(log):
    txt = open(log).read()
    clean = re.search(r'== clean tree: demo\n(?:.*\n)*?(test result: .*)', txt)
    demo = re.search(r'demo_\w+-\w+\) => (test result: .*)', txt)
    others = re.findall(r'\) => test result: (\w+)\. (\d+) passed; (\d+) failed', txt)
    ran = ['tools/verify_seed.sh %s <outdir>  (independent scratch worktree of /repo HEAD)' % name.split('-')[0],
           'clean tree + demo: %s' % (clean.group(1) if clean else '?'),
           'patched tree demo: %s' % (demo.group(1) if demo else '?'),
           'patched tree, existing suite: %d passed, %d failed (demo excluded)' % (sum(int(p) for s, p, f in others) - (int(re.search(r'(\d+) passed', demo.group(1)).group(1)) if demo else 0), sum(int(f) for s, p, f in others) - (int(re.search(r'(\d+) failed', demo.group(1)).group(1)) if demo else 0))]
meta = {'property': prop, 'detected_by': [x for x in det.split(',') if x], 'needs_to_manifest': needs, 'source': 'independent sub-agent given only the property text and a private worktree',
        'what_was_run': ran}
json.dump(meta, open(os.path.join(d, 'meta.json'), 'w'), indent=1)
print(json.dumps(meta, indent=1))
