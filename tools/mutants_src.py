"""Source of the seeded-mutant and benign-refactor corpus: textual edits on /repo files.
`tools/mkmutants.py` turns each into mutants/<PID>/<name>.patch (or mutants/benign/<PID>/<name>.patch),
checks that it compiles and records which rule reports it."""

M = []      # (pid, name, file, old, new, expected rule prefix, occurrence)
B = []      # benign: (pid, name, file, old, new)


def m(pid, name, file, old, new, rule, occ=0):
    M.append((pid, name, file, old, new, rule, occ))


def b(pid, name, file, old, new, occ=0):
    B.append((pid, name, file, old, new, occ))


# ------------------------------------------------------------------------------------------ C02
m('C02', 'find_reduce_keeps_a', 'src/core/map_fil_find.rs', 'if b.0 < a.0 { b } else { a }', 'if b.0 < a.0 { a } else { b }', 'C02-MINIDX')
m('C02', 'find_reduce_max_idx', 'src/core/flatmap_fil_find.rs', 'if b.0 < a.0 { b } else { a }', 'if b.0 > a.0 { b } else { a }', 'C02-MINIDX')
m('C02', 'all_not_negated', 'src/par_iter.rs', 'let negated_predicate = |x: &Self::Item| !predicate(x);', 'let negated_predicate = |x: &Self::Item| predicate(x);', 'C02-ANYALL')
m('C02', 'any_is_none', 'src/par_iter.rs', 'self.find(predicate).is_some()', 'self.find(predicate).is_none()', 'C02-ANYALL')
b('C02', 'find_reduce_other_way', 'src/core/map_fil_find.rs', 'if b.0 < a.0 { b } else { a }', 'if a.0 <= b.0 { a } else { b }')
b('C02', 'find_reduce_gt', 'src/core/filtermap_fil_find.rs', 'if b.0 < a.0 { b } else { a }', 'if a.0 > b.0 { b } else { a }')
b('C02', 'any_not_is_none', 'src/par_iter.rs', 'self.find(predicate).is_some()', '!self.find(predicate).is_none()')

# ------------------------------------------------------------------------------------------ C03
m('C03', 'maybe_reduce_drops_a', 'src/core/utils.rs', '(Some(a), None) => Some(a),', '(Some(a), None) => { let _ = a; None }', 'C03-MAYBE')
m('C03', 'outer_reduce_keeps_b', 'src/core/map_fil_red.rs', 'let reduce_outer = |a: Option<Out>, b: Option<Out>| maybe_reduce(&reduce, a, b);',
  'let reduce_outer = |a: Option<Out>, b: Option<Out>| { let _ = &reduce; let _ = a; b };', 'C03-OUTER')
m('C03', 'min_by_swapped', 'src/par_iter.rs', """        self.reduce(|x, y| match compare(&x, &y) {
            Ordering::Less | Ordering::Equal => x,
            Ordering::Greater => y,
        })""", """        self.reduce(|x, y| match compare(&x, &y) {
            Ordering::Less | Ordering::Equal => y,
            Ordering::Greater => x,
        })""", 'C03-WRAP')
m('C03', 'max_by_key_cmp_swapped', 'src/par_iter.rs', """        self.reduce(|x, y| match get_key(&x).cmp(&get_key(&y)) {
            Ordering::Greater | Ordering::Equal => x,
            Ordering::Less => y,
        })""", """        self.reduce(|x, y| match get_key(&y).cmp(&get_key(&x)) {
            Ordering::Greater | Ordering::Equal => x,
            Ordering::Less => y,
        })""", 'C03-WRAP')
m('C03', 'fold_ignores_reduce', 'src/par_iter.rs', 'self.reduce(fold).unwrap_or_else(identity)', '{ let _ = self.reduce(fold); identity() }', 'C03-WRAP')

# ------------------------------------------------------------------------------------------ C04
m('C04', 'count_sum_keeps_a', 'src/core/map_fil_cnt.rs', 'let reduce = |a, b| a + b;', 'let reduce = |a: usize, b: usize| a.max(b);', 'C04-SUM')
m('C04', 'count_default_one', 'src/core/flatmap_fil_cnt.rs', 'count.unwrap_or(0)', 'count.unwrap_or(1)', 'C04-SUM')
m('C04', 'for_each_twice', 'src/par_iter.rs', 'let map = |item: Self::Item| f(item);\n        _ = self.map(map).count();',
  'let map = |item: Self::Item| f(item);\n        _ = self.map(map).first();', 'C04-FOREACH')

# ------------------------------------------------------------------------------------------ C06
m('C06', 'vec_map_into_drops_self', 'src/par/collect_into/vec.rs', 'split.extend(self);\n', '', 'C06-RECV')
m('C06', 'vec_seq_extend_clears', 'src/par/collect_into/vec.rs', '        self.extend(iter);\n        self', '        self.clear();\n        self.extend(iter);\n        self', 'C06-MUT')
m('C06', 'fixed_map_filter_fresh', 'src/par/collect_into/fixed_vec.rs', 'let vec = self.into_inner().map_filter_into(par);', 'let vec = Vec::new().map_filter_into(par);', 'C06-RECV')

# ------------------------------------------------------------------------------------------ C08
m('C08', 'do_spawn_off_by_one', 'src/core/runner.rs', """    pub fn do_spawn(&self, num_spawned: usize, has_more: HasMore) -> bool {
        match num_spawned {
            x if x >= self.max_num_threads - 1 => false,""", """    pub fn do_spawn(&self, num_spawned: usize, has_more: HasMore) -> bool {
        match num_spawned {
            x if x >= self.max_num_threads => false,""", 'C08-GUARD')
m('C08', 'no_seq_dispatch_red', 'src/core/flatmap_fil_red.rs', """    match params.is_sequential() {
        true => seq_fmap_fil_red(iter, fmap, filter, reduce),
        false => par_fmap_fil_red(params, iter, fmap, filter, reduce),
    }""", """    let _ = seq_fmap_fil_red::<I, OutIter, Out, Map, Fil, Red>;
    par_fmap_fil_red(params, iter, fmap, filter, reduce)""", 'S1')
m('C08', 'max_threads_ignores_n', 'src/core/runner_settings/num_threads.rs', """        Ok(available_threads) => input_len
            .unwrap_or(usize::MAX)
            .min(num_threads)
            .min(available_threads.into()),""", """        Ok(available_threads) => input_len
            .unwrap_or(usize::MAX)
            .min(num_threads.max(2))
            .min(available_threads.into()),""", 'C08-MAX')
m('C08', 'seq_test_default_params', 'src/core/map_fil_cnt.rs', 'match params.is_sequential() {', 'match Params::default().is_sequential() {', 'S1')
m('C08', 'is_sequential_auto', 'src/params.rs', '        self.num_threads == NumThreads::sequential()', '        self.num_threads == NumThreads::Auto', 'S6')
b('C08', 'do_spawn_plus_one', 'src/core/runner.rs', """    pub fn do_spawn(&self, num_spawned: usize, has_more: HasMore) -> bool {
        match num_spawned {
            x if x >= self.max_num_threads - 1 => false,""", """    pub fn do_spawn(&self, num_spawned: usize, has_more: HasMore) -> bool {
        match num_spawned {
            x if x + 1 >= self.max_num_threads => false,""")

# ------------------------------------------------------------------------------------------ C09
m('C09', 'seq_red_rev', 'src/core/map_fil_red.rs', 'iter.into_seq_iter().map(map).filter(filter).reduce(reduce)', 'iter.into_seq_iter().map(map).filter(filter).collect::<Vec<_>>().into_iter().rev().reduce(reduce)', 'C09-SEQSHAPE')
m('C09', 'seq_red_swapped_operator', 'src/core/map_fil_red.rs', 'iter.into_seq_iter().map(map).filter(filter).reduce(reduce)', 'iter.into_seq_iter().map(map).filter(filter).reduce(|a, b| reduce(b, a))', 'C09-SEQSHAPE')
m('C09', 'no_seq_dispatch_find', 'src/core/map_fil_find.rs', """    match params.is_sequential() {
        true => seq_map_fil_find(iter, map, filter),
        false => par_map_fil_find(params, iter, map, filter),
    }""", """    let _ = seq_map_fil_find::<I, Out, Map, Fil>;
    par_map_fil_find(params, iter, map, filter)""", 'S1')

# ------------------------------------------------------------------------------------------ C10
m('C10', 'no_skip_to_end_chunk', 'src/core/map_fil_find.rs', """                if result.is_some() {
                    iter.skip_to_end();
                    return result;
                }""", """                if result.is_some() {
                    return result;
                }""", 'C10-SIGNAL')
m('C10', 'no_skip_to_end_single', 'src/core/flatmap_fil_find.rs', """            if result.is_some() {
                iter.skip_to_end();
            }

            result""", """            result""", 'C10-SIGNAL')
m('C10', 'continue_after_match', 'src/core/filtermap_fil_find.rs', """            let mut buffered = iter.buffered_iter(c);
            while let Some(chunk) = buffered.next() {
                let result = chunk
                    .values
                    .enumerate()
                    .map(|x| (x.0, filter_map(x.1)))
                    .find_map(|x| match x.1.has_value() {
                        false => None,
                        true => {
                            let value = x.1.value();
                            match filter(&value) {
                                false => None,
                                true => Some((chunk.begin_idx + x.0, value)),
                            }
                        }
                    });

                if result.is_some() {
                    iter.skip_to_end();
                    return result;
                }
            }
            None""", """            let mut found = None;
            let mut buffered = iter.buffered_iter(c);
            while let Some(chunk) = buffered.next() {
                let result = chunk
                    .values
                    .enumerate()
                    .map(|x| (x.0, filter_map(x.1)))
                    .find_map(|x| match x.1.has_value() {
                        false => None,
                        true => {
                            let value = x.1.value();
                            match filter(&value) {
                                false => None,
                                true => Some((chunk.begin_idx + x.0, value)),
                            }
                        }
                    });

                if result.is_some() && found.is_none() {
                    iter.skip_to_end();
                    found = result;
                }
            }
            found""", 'C10-NOPULL')
m('C10', 'seq_find_collects', 'src/core/flatmap_fil_find.rs', 'iter.into_seq_iter().flat_map(map).find(filter)', 'iter.into_seq_iter().flat_map(map).filter(filter).collect::<Vec<_>>().into_iter().next()', 'C10-LAZYSEQ')
m('C10', 'do_spawn_ignores_has_more', 'src/core/runner.rs', '_ => !matches!(has_more, HasMore::No),', '_ => { let _ = has_more; true }', 'C10-STOPSPAWN')

# ------------------------------------------------------------------------------------------ C11
m('C11', 'exact_treated_as_min', 'src/core/runner.rs', """                ResolvedChunkSize::Exact(x) => Some(x),
                ResolvedChunkSize::Min(x) => {""", """                ResolvedChunkSize::Exact(x) | ResolvedChunkSize::Min(x) => {""", 'C11-RUNNER')
m('C11', 'calc_exact_as_min', 'src/core/runner_settings/chunk_size.rs', 'ChunkSize::Exact(x) => ResolvedChunkSize::Exact(x.into()),', 'ChunkSize::Exact(x) => ResolvedChunkSize::Min(x.into()),', 'C11-RESOLVE')
m('C11', 'task_doubles_chunk', 'src/core/map_fil_red.rs', 'while let Some(chunk) = iter.next_chunk_x(c) {', 'while let Some(chunk) = iter.next_chunk_x(c * 2) {', 'C11-PULL')
m('C11', 'closure_constant_chunk', 'src/core/map_fil_cnt.rs', 'let task = |c| task(&iter, &map, &filter, c);', 'let task = |c: usize| task(&iter, &map, &filter, c.max(64));', 'C11-TASKARG')
m('C11', 'trailing_spawn_inner', 'src/core/runner.rs', """            handles.push(s.spawn(move || thread_task(chunk)));
            num_spawned += 1;

            let mut vec = vec![];""", """            let chunk = chunk + 1;
            handles.push(s.spawn(move || thread_task(chunk)));
            num_spawned += 1;

            let mut vec = vec![];""", 'C11-SPAWN')

# ------------------------------------------------------------------------------------------ C12
m('C12', 'eager_site_default_params', 'src/par/par_map_fil.rs', """        let params = self.params;
        let vec = self.collect_vec();
        let iter = vec.into_con_iter();
        ParFlatMap::new(iter, params, flat_map)""", """        let vec = self.collect_vec();
        let iter = vec.into_con_iter();
        ParFlatMap::new(iter, Params::default(), flat_map)""", 'S3')
m('C12', 'setter_clobbers_other', 'src/params.rs', """            num_threads: num_threads.into(),
            chunk_size: self.chunk_size,""", """            num_threads: num_threads.into(),
            chunk_size: ChunkSize::default(),""", 'S7')
m('C12', 'from_zero_is_one', 'src/chunk_size.rs', '0 => Self::Auto,', '0 => Self::Exact(NonZeroUsize::new(1).expect("one")),', 'C12-FROM')
m('C12', 'new_ignores_params', 'src/par/par_filtermap.rs', """        Self {
            iter,
            params,
            filter_map,""", """        let _ = params;
        Self {
            iter,
            params: Params::default(),
            filter_map,""", 'C12-STORE')
m('C12', 'params_observer_default', 'src/par/par_flatmap.rs', """    fn params(&self) -> Params {
        self.params
    }""", """    fn params(&self) -> Params {
        let _ = self.params;
        Params::default()
    }""", 'C12-OBSERVE')
m('C12', 'num_threads_default_is_one', 'src/num_threads.rs', """    fn default() -> Self {
        Self::Auto
    }""", """    fn default() -> Self {
        Self::sequential()
    }""", 'C12-BASE')

# ------------------------------------------------------------------------------------------ C13
m('C13', 'unwrap_with_gaps', 'src/core/map_col.rs', 'unsafe { collected.into_inner().unwrap_only_if_counts_match() }\n        }', 'unsafe { collected.into_inner().unwrap() }\n        }', 'C13-UNWRAP')
m('C13', 'forget_vectors', 'src/core/map_fil_col.rs', """    for vec in vectors.iter_mut() {
        unsafe { vec.set_len(0) };
    }
}

pub(crate) fn heap_sort_into_pinned_vec""", """    std::mem::forget(vectors);
}

pub(crate) fn heap_sort_into_pinned_vec""", 'C13-LEAK')
m('C13', 'raw_read_in_task', 'src/core/map_fil_col_x.rs', 'collected.extend(chunk.map(&map).filter(&filter));', 'collected.extend(chunk.map(&map).filter(&filter));\n                if let Some(x) = collected.last() { let _dup = unsafe { std::ptr::read(x) }; std::mem::forget(_dup); }', 'C13-INVENTORY')

# ------------------------------------------------------------------------------------------ C14
m('C14', 'manually_drop_removed', 'src/core/map_col.rs', """            let collected = std::mem::ManuallyDrop::new(collected);
            let task = |c| task(&iter, &map, &collected, offset, c);
            let _num_spawned = Runner::run(params, ParTask::Collect, &iter, &task);
            let collected = std::mem::ManuallyDrop::into_inner(collected);
""", """            let task = |c| task(&iter, &map, &collected, offset, c);
            let _num_spawned = Runner::run(params, ParTask::Collect, &iter, &task);
""", 'C14-PARTIAL')
m('C14', 'join_result_ignored', 'src/core/runner.rs', """                .map(|x| x.join().expect("Failed to join thread"))""", """                .filter_map(|x| x.join().ok())""", 'S2')
m('C14', 'catch_unwind_in_task', 'src/core/map_fil_cnt.rs', '1 => iter.values().map(&map).filter(&filter).count(),', '1 => std::panic::catch_unwind(std::panic::AssertUnwindSafe(|| iter.values().map(&map).filter(&filter).count())).unwrap_or(0),', 'C14-PROPAGATE')

# ------------------------------------------------------------------------------------------ C16
m('C16', 'eager_map_in_map', 'src/par/par_map.rs', """        ParMapFilter::new(self.iter, self.params, self.map, filter)""", """        if let Some(x) = self.iter.next() {
            let y = (self.map)(x);
            let _ = filter(&y);
        }
        ParMapFilter::new(self.iter, self.params, self.map, filter)""", 'C16')
m('C16', 'setter_runs_count', 'src/par/par_flatmap_fil.rs', """    fn num_threads(mut self, num_threads: impl Into<crate::NumThreads>) -> Self {
        self.params = self.params.with_num_threads(num_threads);
        self
    }""", """    fn num_threads(mut self, num_threads: impl Into<crate::NumThreads>) -> Self {
        self.params = self.params.with_num_threads(num_threads);
        let probe = self.iter.try_get_len();
        if probe == Some(0) {
            let _ = self.iter.next();
        }
        self
    }""", 'C16')
