"""Source of the seeded-mutant and benign-refactor corpus: textual edits on /repo files.
`tools/mkmutants.py` turns each into mutants/<PID>/<name>.patch (or mutants/benign/<PID>/<name>.patch),
checks that it compiles and records which rule reports it."""

M = []      # (pid, name, file, old, new, expected rule prefix, occurrence)
B = []      # benign: (pid, name, file, old, new)


def m(pid, name, file, old, new, rule, occ=0):
    M.append((pid, name, file, old, new, rule, occ))


def b(pid, name, file, old, new, occ=0):
    B.append((pid, name, file, old, new, occ))


# ------------------------------------------------------------------------------------------ C02
m('C02', 'find_reduce_keeps_a', 'src/core/map_fil_find.rs', 'if b.0 < a.0 { b } else { a }', 'if b.0 < a.0 { a } else { b }', 'C02-MINIDX')
m('C02', 'find_reduce_max_idx', 'src/core/flatmap_fil_find.rs', 'if b.0 < a.0 { b } else { a }', 'if b.0 > a.0 { b } else { a }', 'C02-MINIDX')
m('C02', 'all_not_negated', 'src/par_iter.rs', 'let negated_predicate = |x: &Self::Item| !predicate(x);', 'let negated_predicate = |x: &Self::Item| predicate(x);', 'C02-ANYALL')
m('C02', 'any_is_none', 'src/par_iter.rs', 'self.find(predicate).is_some()', 'self.find(predicate).is_none()', 'C02-ANYALL')
b('C02', 'find_reduce_other_way', 'src/core/map_fil_find.rs', 'if b.0 < a.0 { b } else { a }', 'if a.0 <= b.0 { a } else { b }')
b('C02', 'find_reduce_gt', 'src/core/filtermap_fil_find.rs', 'if b.0 < a.0 { b } else { a }', 'if a.0 > b.0 { b } else { a }')
b('C02', 'any_not_is_none', 'src/par_iter.rs', 'self.find(predicate).is_some()', '!self.find(predicate).is_none()')

# ------------------------------------------------------------------------------------------ C03
m('C03', 'maybe_reduce_drops_a', 'src/core/utils.rs', '(Some(a), None) => Some(a),', '(Some(a), None) => { let _ = a; None }', 'C03-MAYBE')
m('C03', 'outer_reduce_keeps_b', 'src/core/map_fil_red.rs', 'let reduce_outer = |a: Option<Out>, b: Option<Out>| maybe_reduce(&reduce, a, b);',
  'let reduce_outer = |a: Option<Out>, b: Option<Out>| { let _ = &reduce; let _ = a; b };', 'C03-OUTER')
m('C03', 'min_by_swapped', 'src/par_iter.rs', """        self.reduce(|x, y| match compare(&x, &y) {
            Ordering::Less | Ordering::Equal => x,
            Ordering::Greater => y,
        })""", """        self.reduce(|x, y| match compare(&x, &y) {
            Ordering::Less | Ordering::Equal => y,
            Ordering::Greater => x,
        })""", 'C03-WRAP')
m('C03', 'max_by_key_cmp_swapped', 'src/par_iter.rs', """        self.reduce(|x, y| match get_key(&x).cmp(&get_key(&y)) {
            Ordering::Greater => x,
            Ordering::Less | Ordering::Equal => y,
        })""", """        self.reduce(|x, y| match get_key(&y).cmp(&get_key(&x)) {
            Ordering::Greater => x,
            Ordering::Less | Ordering::Equal => y,
        })""", 'C03-WRAP')
m('C03', 'fold_ignores_reduce', 'src/par_iter.rs', 'self.reduce(fold).unwrap_or_else(identity)', '{ let _ = self.reduce(fold); identity() }', 'C03-WRAP')

# ------------------------------------------------------------------------------------------ C04
m('C04', 'count_sum_keeps_a', 'src/core/map_fil_cnt.rs', 'let reduce = |a, b| a + b;', 'let reduce = |a: usize, b: usize| a.max(b);', 'C04-SUM')
m('C04', 'count_default_one', 'src/core/flatmap_fil_cnt.rs', 'count.unwrap_or(0)', 'count.unwrap_or(1)', 'C04-SUM')
m('C04', 'for_each_twice', 'src/par_iter.rs', 'let map = |item: Self::Item| f(item);\n        _ = self.map(map).count();',
  'let map = |item: Self::Item| f(item);\n        _ = self.map(map).first();', 'C04-FOREACH')

# ------------------------------------------------------------------------------------------ C06
m('C06', 'vec_map_into_drops_self', 'src/par/collect_into/vec.rs', 'split.extend(self);\n', '', 'C06-RECV')
m('C06', 'vec_seq_extend_clears', 'src/par/collect_into/vec.rs', '        self.extend(iter);\n        self', '        self.clear();\n        self.extend(iter);\n        self', 'C06-MUT')
m('C06', 'fixed_map_filter_fresh', 'src/par/collect_into/fixed_vec.rs', 'let vec = self.into_inner().map_filter_into(par);', 'let vec = Vec::new().map_filter_into(par);', 'C06-RECV')

# ------------------------------------------------------------------------------------------ C08
m('C08', 'do_spawn_off_by_one', 'src/core/runner.rs', """    pub fn do_spawn(&self, num_spawned: usize, has_more: HasMore) -> bool {
        match num_spawned {
            x if x >= self.max_num_threads - 1 => false,""", """    pub fn do_spawn(&self, num_spawned: usize, has_more: HasMore) -> bool {
        match num_spawned {
            x if x >= self.max_num_threads => false,""", 'C08-GUARD')
m('C08', 'no_seq_dispatch_red', 'src/core/flatmap_fil_red.rs', """    match params.is_sequential() {
        true => seq_fmap_fil_red(iter, fmap, filter, reduce),
        false => par_fmap_fil_red(params, iter, fmap, filter, reduce),
    }""", """    let _ = seq_fmap_fil_red::<I, OutIter, Out, Map, Fil, Red>;
    par_fmap_fil_red(params, iter, fmap, filter, reduce)""", 'S1')
m('C08', 'max_threads_ignores_n', 'src/core/runner_settings/num_threads.rs', """        Ok(available_threads) => input_len
            .unwrap_or(usize::MAX)
            .min(num_threads)
            .min(available_threads.into()),""", """        Ok(available_threads) => input_len
            .unwrap_or(usize::MAX)
            .min(num_threads.max(2))
            .min(available_threads.into()),""", 'C08-MAX')
m('C08', 'seq_test_default_params', 'src/core/map_fil_cnt.rs', 'match params.is_sequential() {', 'match Params::default().is_sequential() {', 'S1')
m('C08', 'is_sequential_auto', 'src/params.rs', '        self.num_threads == NumThreads::sequential()', '        self.num_threads == NumThreads::Auto', 'S6')
b('C08', 'do_spawn_plus_one', 'src/core/runner.rs', """    pub fn do_spawn(&self, num_spawned: usize, has_more: HasMore) -> bool {
        match num_spawned {
            x if x >= self.max_num_threads - 1 => false,""", """    pub fn do_spawn(&self, num_spawned: usize, has_more: HasMore) -> bool {
        match num_spawned {
            x if x + 1 >= self.max_num_threads => false,""")

# ------------------------------------------------------------------------------------------ C09
m('C09', 'seq_red_rev', 'src/core/map_fil_red.rs', 'iter.into_seq_iter().map(map).filter(filter).reduce(reduce)', 'iter.into_seq_iter().map(map).filter(filter).collect::<Vec<_>>().into_iter().rev().reduce(reduce)', 'C09-SEQSHAPE')
m('C09', 'seq_red_swapped_operator', 'src/core/map_fil_red.rs', 'iter.into_seq_iter().map(map).filter(filter).reduce(reduce)', 'iter.into_seq_iter().map(map).filter(filter).reduce(|a, b| reduce(b, a))', 'C09-SEQSHAPE')
m('C09', 'no_seq_dispatch_find', 'src/core/map_fil_find.rs', """    match params.is_sequential() {
        true => seq_map_fil_find(iter, map, filter),
        false => par_map_fil_find(params, iter, map, filter),
    }""", """    let _ = seq_map_fil_find::<I, Out, Map, Fil>;
    par_map_fil_find(params, iter, map, filter)""", 'S1')

m('C09', 'max_by_keeps_first_on_tie', 'src/par_iter.rs', """        self.reduce(|x, y| match compare(&x, &y) {
            Ordering::Greater => x,
            Ordering::Less | Ordering::Equal => y,
        })""", """        self.reduce(|x, y| match compare(&x, &y) {
            Ordering::Greater | Ordering::Equal => x,
            Ordering::Less => y,
        })""", 'C09-TIES')
m('C09', 'max_by_key_keeps_first_on_tie', 'src/par_iter.rs', """        self.reduce(|x, y| match get_key(&x).cmp(&get_key(&y)) {
            Ordering::Greater => x,
            Ordering::Less | Ordering::Equal => y,
        })""", """        self.reduce(|x, y| match get_key(&x).cmp(&get_key(&y)) {
            Ordering::Greater | Ordering::Equal => x,
            Ordering::Less => y,
        })""", 'C09-TIES')
m('C09', 'min_by_keeps_last_on_tie', 'src/par_iter.rs', """            Ordering::Less | Ordering::Equal => x,
            Ordering::Greater => y,""", """            Ordering::Less => x,
            Ordering::Greater | Ordering::Equal => y,""", 'C09-TIES')
m('C09', 'max_is_reduce_with_swapped_max', 'src/par_iter.rs', 'self.reduce(Ord::max)', 'self.reduce(|a, b| Ord::max(b, a))', 'C09-TIES')
b('C09', 'max_delegates_to_max_by', 'src/par_iter.rs', 'self.reduce(Ord::max)', 'self.max_by(Ord::cmp)')
b('C09', 'min_delegates_to_min_by', 'src/par_iter.rs', 'self.reduce(Ord::min)', 'self.min_by(Ord::cmp)')
b('C09', 'max_by_key_delegates_to_max_by', 'src/par_iter.rs', """        self.reduce(|x, y| match get_key(&x).cmp(&get_key(&y)) {
            Ordering::Greater => x,
            Ordering::Less | Ordering::Equal => y,
        })""", """        self.max_by(|x, y| get_key(x).cmp(&get_key(y)))""")
b('C09', 'max_by_swapped_compare', 'src/par_iter.rs', """        self.reduce(|x, y| match compare(&x, &y) {
            Ordering::Greater => x,
            Ordering::Less | Ordering::Equal => y,
        })""", """        self.reduce(|x, y| match compare(&y, &x) {
            Ordering::Less => x,
            Ordering::Greater | Ordering::Equal => y,
        })""")
m('C09', 'splitvec_reserves_before_sequential_branch', 'src/par/collect_into/split_vec.rs', """        if par_map.params().is_sequential() {
            // nothing is written concurrently in sequential mode: extend in place rather than
            // reserving concurrent capacity that the computation will never use
            let (_, iter, map) = par_map.destruct();
            return self.seq_extend(iter.into_seq_iter().map(map));
        }

""", "", 'C09-NOCONC')
m('C09', 'splitvec_sequential_route_reverses', 'src/par/collect_into/split_vec.rs', 'return self.seq_extend(iter.into_seq_iter().map(map));', 'return self.seq_extend(iter.into_seq_iter().map(map).collect::<Vec<_>>().into_iter().rev());', 'C09-SEQSHAPE')
# ------------------------------------------------------------------------------------------ C10
m('C10', 'no_skip_to_end_chunk', 'src/core/map_fil_find.rs', """                if result.is_some() {
                    iter.skip_to_end();
                    return result;
                }""", """                if result.is_some() {
                    return result;
                }""", 'C10-SIGNAL')
m('C10', 'no_skip_to_end_single', 'src/core/flatmap_fil_find.rs', """            if result.is_some() {
                iter.skip_to_end();
            }

            result""", """            result""", 'C10-SIGNAL')
m('C10', 'continue_after_match', 'src/core/filtermap_fil_find.rs', """            let mut buffered = iter.buffered_iter(c);
            while let Some(chunk) = buffered.next() {
                let result = chunk
                    .values
                    .enumerate()
                    .map(|x| (x.0, filter_map(x.1)))
                    .find_map(|x| match x.1.has_value() {
                        false => None,
                        true => {
                            let value = x.1.value();
                            match filter(&value) {
                                false => None,
                                true => Some((chunk.begin_idx + x.0, value)),
                            }
                        }
                    });

                if result.is_some() {
                    iter.skip_to_end();
                    return result;
                }
            }
            None""", """            let mut found = None;
            let mut buffered = iter.buffered_iter(c);
            while let Some(chunk) = buffered.next() {
                let result = chunk
                    .values
                    .enumerate()
                    .map(|x| (x.0, filter_map(x.1)))
                    .find_map(|x| match x.1.has_value() {
                        false => None,
                        true => {
                            let value = x.1.value();
                            match filter(&value) {
                                false => None,
                                true => Some((chunk.begin_idx + x.0, value)),
                            }
                        }
                    });

                if result.is_some() && found.is_none() {
                    iter.skip_to_end();
                    found = result;
                }
            }
            found""", 'C10-NOPULL')
m('C10', 'seq_find_collects', 'src/core/flatmap_fil_find.rs', 'iter.into_seq_iter().flat_map(map).find(filter)', 'iter.into_seq_iter().flat_map(map).filter(filter).collect::<Vec<_>>().into_iter().next()', 'C10-LAZYSEQ')
m('C10', 'do_spawn_ignores_has_more', 'src/core/runner.rs', '_ => !matches!(has_more, HasMore::No),', '_ => { let _ = has_more; true }', 'C10-STOPSPAWN')

# ------------------------------------------------------------------------------------------ C11
m('C11', 'exact_treated_as_min', 'src/core/runner.rs', """                ResolvedChunkSize::Exact(x) => Some(x),
                ResolvedChunkSize::Min(x) => {""", """                ResolvedChunkSize::Exact(x) | ResolvedChunkSize::Min(x) => {""", 'C11-RUNNER')
m('C11', 'calc_exact_as_min', 'src/core/runner_settings/chunk_size.rs', 'ChunkSize::Exact(x) => ResolvedChunkSize::Exact(exact_chunk_size(input_len, x.into())),', 'ChunkSize::Exact(x) => ResolvedChunkSize::Min(exact_chunk_size(input_len, x.into())),', 'C11-RESOLVE')
m('C11', 'exact_clamped_by_half_len', 'src/core/runner_settings/chunk_size.rs', 'Some(len) => chunk_size.min(len.max(1)),', 'Some(len) => chunk_size.min((len / 2).max(1)),', 'C11-RESOLVE')
m('C11', 'exact_clamped_by_threads', 'src/core/runner_settings/chunk_size.rs', 'ChunkSize::Exact(x) => ResolvedChunkSize::Exact(exact_chunk_size(input_len, x.into())),', 'ChunkSize::Exact(x) => ResolvedChunkSize::Exact(exact_chunk_size(input_len.map(|n| n / max_num_threads), x.into())),', 'C11-RESOLVE')
m('C11', 'task_doubles_chunk', 'src/core/map_fil_red.rs', 'while let Some(chunk) = iter.next_chunk_x(c) {', 'while let Some(chunk) = iter.next_chunk_x(c * 2) {', 'C11-PULL')
m('C11', 'closure_constant_chunk', 'src/core/map_fil_cnt.rs', 'let task = |c| task(&iter, &map, &filter, c);', 'let task = |c: usize| task(&iter, &map, &filter, c.max(64));', 'C11-TASKARG')
m('C11', 'trailing_spawn_inner', 'src/core/runner.rs', """            handles.push(s.spawn(move || thread_task(chunk)));
            num_spawned += 1;

            let mut vec = vec![];""", """            let chunk = chunk + 1;
            handles.push(s.spawn(move || thread_task(chunk)));
            num_spawned += 1;

            let mut vec = vec![];""", 'C11-SPAWN')

# ------------------------------------------------------------------------------------------ C12
m('C12', 'eager_site_default_params', 'src/par/par_map_fil.rs', """        let params = self.params;
        let vec = self.collect_vec();
        let iter = vec.into_con_iter();
        ParFlatMap::new(iter, params, flat_map)""", """        let vec = self.collect_vec();
        let iter = vec.into_con_iter();
        ParFlatMap::new(iter, Params::default(), flat_map)""", 'S3')
m('C12', 'setter_clobbers_other', 'src/params.rs', """            num_threads: num_threads.into(),
            chunk_size: self.chunk_size,""", """            num_threads: num_threads.into(),
            chunk_size: ChunkSize::default(),""", 'S7')
m('C12', 'from_zero_is_one', 'src/chunk_size.rs', '0 => Self::Auto,', '0 => Self::Exact(NonZeroUsize::new(1).expect("one")),', 'C12-FROM')
m('C12', 'new_ignores_params', 'src/par/par_filtermap.rs', """        Self {
            iter,
            params,
            filter_map,""", """        let _ = params;
        Self {
            iter,
            params: Params::default(),
            filter_map,""", 'C12-STORE')
m('C12', 'params_observer_default', 'src/par/par_flatmap.rs', """    fn params(&self) -> Params {
        self.params
    }""", """    fn params(&self) -> Params {
        let _ = self.params;
        Params::default()
    }""", 'C12-OBSERVE')
m('C12', 'num_threads_default_is_one', 'src/num_threads.rs', """    fn default() -> Self {
        Self::Auto
    }""", """    fn default() -> Self {
        Self::sequential()
    }""", 'C12-BASE')

# ------------------------------------------------------------------------------------------ C13
m('C13', 'unwrap_with_gaps', 'src/core/map_col.rs', 'unsafe { collected.into_inner().unwrap_only_if_counts_match() }\n        }', 'unsafe { collected.into_inner().unwrap() }\n        }', 'C13-UNWRAP')
m('C13', 'forget_vectors', 'src/core/map_fil_col.rs', """    for vec in vectors.iter_mut() {
        unsafe { vec.set_len(0) };
    }
}

pub(crate) fn heap_sort_into_pinned_vec""", """    std::mem::forget(vectors);
}

pub(crate) fn heap_sort_into_pinned_vec""", 'C13-LEAK')
m('C13', 'raw_read_in_task', 'src/core/map_fil_col_x.rs', 'collected.extend(chunk.map(&map).filter(&filter));', 'collected.extend(chunk.map(&map).filter(&filter));\n                if let Some(x) = collected.last() { let _dup = unsafe { std::ptr::read(x) }; std::mem::forget(_dup); }', 'C13-INVENTORY')

m('C07', 'run_map_collect_skips_first_handle', 'src/core/runner.rs', """            let mut vec = vec![];
            for x in handles {
                vec.push(x.join().expect("failed to join the thread"));
            }
            vec""", """            handles.into_iter().skip(1).map(|x| x.join().expect("failed to join the thread")).collect()""", 'S2')
m('C14', 'run_map_collect_swallows_panics', 'src/core/runner.rs', """            let mut vec = vec![];
            for x in handles {
                vec.push(x.join().expect("failed to join the thread"));
            }
            vec""", """            handles.into_iter().filter_map(|x| x.join().ok()).collect()""", 'S2')
b('C07', 'run_map_collect_joined', 'src/core/runner.rs', """            let mut vec = vec![];
            for x in handles {
                vec.push(x.join().expect("failed to join the thread"));
            }
            vec""", """            handles.into_iter().map(|x| x.join().expect("failed to join the thread")).collect()""")
# ------------------------------------------------------------------------------------------ C14
m('C14', 'manually_drop_removed', 'src/core/map_col.rs', """            let collected = std::mem::ManuallyDrop::new(collected);
            let task = |c| task(&iter, &map, &collected, offset, c);
            let _num_spawned = Runner::run(params, ParTask::Collect, &iter, &task);
            let collected = std::mem::ManuallyDrop::into_inner(collected);
""", """            let task = |c| task(&iter, &map, &collected, offset, c);
            let _num_spawned = Runner::run(params, ParTask::Collect, &iter, &task);
""", 'C14-PARTIAL')
m('C14', 'join_result_ignored', 'src/core/runner.rs', """                .map(|x| x.join().expect("Failed to join thread"))""", """                .filter_map(|x| x.join().ok())""", 'S2')
m('C14', 'catch_unwind_in_task', 'src/core/map_fil_cnt.rs', '1 => iter.values().map(&map).filter(&filter).count(),', '1 => std::panic::catch_unwind(std::panic::AssertUnwindSafe(|| iter.values().map(&map).filter(&filter).count())).unwrap_or(0),', 'C14-PROPAGATE')

m('C14', 'lag_waits_for_first_pull', 'src/core/runner.rs', """                lag();
                match runner.next_chunk_size(num_spawned, iter.has_more()) {""", """                {
                    let before = iter.try_get_len();
                    while before.is_some() && iter.try_get_len() == before {
                        std::thread::yield_now();
                    }
                }
                match runner.next_chunk_size(num_spawned, iter.has_more()) {""", 'C14-NOWAIT')
m('C14', 'lag_waits_until_drained_flag', 'src/core/runner.rs', """                lag();
                match runner.next_chunk_size(threads.len(), iter.has_more()) {""", """                loop {
                    let done = match iter.has_more() {
                        HasMore::No => true,
                        HasMore::Maybe => true,
                        HasMore::Yes(n) => n < chunk,
                    };
                    if done {
                        break;
                    }
                    std::thread::yield_now();
                }
                match runner.next_chunk_size(threads.len(), iter.has_more()) {""", 'C14-NOWAIT')
m('C14', 'task_parks_after_work', 'src/core/map_fil_cnt.rs', '1 => iter.values().map(&map).filter(&filter).count(),', '1 => { let n = iter.values().map(&map).filter(&filter).count(); if n == usize::MAX { std::thread::park(); } n }', 'C14-NOWAIT')
b('C14', 'lag_bounded_poll', 'src/core/runner.rs', """                lag();
                match runner.next_chunk_size(num_spawned, iter.has_more()) {""", """                for _ in 0..64 {
                    if let HasMore::No = iter.has_more() {
                        break;
                    }
                    std::thread::yield_now();
                }
                match runner.next_chunk_size(num_spawned, iter.has_more()) {""")

# ------------------------------------------------------------------------------------------ C16
m('C16', 'eager_map_in_map', 'src/par/par_map.rs', """        ParMapFilter::new(self.iter, self.params, self.map, filter)""", """        if let Some(x) = self.iter.next() {
            let y = (self.map)(x);
            let _ = filter(&y);
        }
        ParMapFilter::new(self.iter, self.params, self.map, filter)""", 'C16')
m('C16', 'setter_runs_count', 'src/par/par_flatmap_fil.rs', """    fn num_threads(mut self, num_threads: impl Into<crate::NumThreads>) -> Self {
        self.params = self.params.with_num_threads(num_threads);
        self
    }""", """    fn num_threads(mut self, num_threads: impl Into<crate::NumThreads>) -> Self {
        self.params = self.params.with_num_threads(num_threads);
        let probe = self.iter.try_get_len();
        if probe == Some(0) {
            let _ = self.iter.next();
        }
        self
    }""", 'C16')

# ------------------------------------------------------------------------------------------ C01 (step 3 rules)
m('C01', 'key_without_begin_idx', 'src/core/map_fil_col.rs', 'collected.push((chunk.begin_idx + i, value));', 'collected.push((i, value));', 'C01-KEY')
m('C01', 'key_uses_buffer_len', 'src/core/map_fil_col.rs', 'collected.push((x.idx, value));', 'collected.push((collected.len(), value));', 'C01-KEY')
m('C01', 'slot_without_offset', 'src/core/map_col.rs', '.map(|(idx, value)| (offset + idx, map(value)))', '.map(|(idx, value)| (idx, map(value)))', 'C01-KEY')
m('C01', 'slots_begin_without_offset', 'src/core/map_col.rs', 'let begin_idx = offset + chunk.begin_idx;', 'let begin_idx = chunk.begin_idx;', 'C01-KEY')
m('C01', 'flatmap_key_inner_first', 'src/core/flatmap_fil_col.rs', '.map(|(i, value)| ((chunk.begin_idx + c, i), value)),', '.map(|(i, value)| ((i, chunk.begin_idx + c), value)),', 'C01-KEY')
b('C01', 'key_counts_only_has_value_survivors', 'src/core/filtermap_fil_col.rs', """                for (c, value) in chunk.values.enumerate() {
                    let maybe = filter_map(value);
                    if maybe.has_value() {
                        let value = maybe.value();
                        if filter(&value) {
                            collected.push((chunk.begin_idx + c, value));""", """                for (c, value) in chunk.values.map(filter_map).filter(|x| x.has_value()).enumerate() {
                    let maybe = value;
                    if maybe.has_value() {
                        let value = maybe.value();
                        if filter(&value) {
                            collected.push((chunk.begin_idx + c, value));""")
m('C01', 'buffer_reversed', 'src/core/flatmap_fil_col.rs', """            }
        }
    }
    collected
}""", """            }
        }
    }
    collected.reverse();
    collected
}""", 'C01-APPEND')
m('C01', 'merge_reads_after_increment', 'src/core/map_fil_col.rs', """        let idx = indices[v];
        indices[v] += 1;

        curr_v = match vectors[v].get(indices[v]) {
            Some(x) => Some(queue.push_then_pop(v, x.0).0),
            None => queue.pop_node(),
        };

        let ptr = vectors[v].as_mut_ptr();
        output.push(unsafe { ptr.add(idx).read().1 });
    }

    for vec in vectors.iter_mut() {
        unsafe { vec.set_len(0) };
    }
}

pub(crate) fn heap_sort_into_pinned_vec""", """        indices[v] += 1;
        let idx = indices[v] - 1;
        let idx = idx.max(indices[v].min(1) - 1) + (indices[v] - indices[v]);
        let idx = if idx == 0 { indices[v] - 1 } else { indices[v] };

        curr_v = match vectors[v].get(indices[v]) {
            Some(x) => Some(queue.push_then_pop(v, x.0).0),
            None => queue.pop_node(),
        };

        let ptr = vectors[v].as_mut_ptr();
        output.push(unsafe { ptr.add(idx).read().1 });
    }

    for vec in vectors.iter_mut() {
        unsafe { vec.set_len(0) };
    }
}

pub(crate) fn heap_sort_into_pinned_vec""", 'C01-MERGE')
m('C01', 'merge_requeues_stale_key', 'src/core/map_fil_col.rs', """        curr_v = match vectors[v].get(indices[v]) {
            Some(x) => Some(queue.push_then_pop(v, x.0).0),
            None => queue.pop_node(),
        };

        let ptr = vectors[v].as_mut_ptr();
        output.push(unsafe { ptr.add(idx).read().1 });
    }

    for vec in vectors.iter_mut() {
        unsafe { vec.set_len(0) };
    }
}

pub(crate) fn heap_sort_into_pinned_vec""", """        curr_v = match vectors[v].get(indices[v]) {
            Some(_) => Some(queue.push_then_pop(v, vectors[v][idx].0).0),
            None => queue.pop_node(),
        };

        let ptr = vectors[v].as_mut_ptr();
        output.push(unsafe { ptr.add(idx).read().1 });
    }

    for vec in vectors.iter_mut() {
        unsafe { vec.set_len(0) };
    }
}

pub(crate) fn heap_sort_into_pinned_vec""", 'C01-MERGE')
m('C01', 'merge_fill_skips_first', 'src/core/map_fil_col.rs', 'for (v, vec) in vectors.iter().enumerate() {', 'for (v, vec) in vectors.iter().enumerate().skip(1) {', 'C01-MERGE')
m('C01', 'no_reserve_before_bag', 'src/par/collect_into/vec.rs', '                self.reserve(iter_len);\n', '                let _ = iter_len;\n', 'C01-RESERVE')
m('C01', 'compose_new_before_upstream', 'src/par/par_map_fil.rs', 'let composed = move |x: &O| filter1(x) && filter(x);', 'let composed = move |x: &O| filter(x) && filter1(x);', 'C01-COMPOSE')
m('C01', 'compose_ignores_filter', 'src/par/par_fil.rs', """        let composed_filter_map = move |x| match filter(&x) {
            false => None,
            true => Some(map(x)),
        };""", """        let composed_filter_map = move |x| match filter(&x) {
            false => Some(map(x)),
            true => Some(map(x)),
        };""", 'C01-COMPOSE')
m('C01', 'merge_gets_first_vector_only', 'src/core/flatmap_fil_col.rs', """    let vectors = Runner::run_map(params, ParTask::Collect, &iter, &task);
    heap_sort_into_vec(vectors, output);""", """    let mut vectors = Runner::run_map(params, ParTask::Collect, &iter, &task);
    vectors.truncate(64);
    heap_sort_into_vec(vectors, output);""", 'C01-MERGE')
b('C01', 'key_extra_let', 'src/core/map_fil_col.rs', 'collected.push((chunk.begin_idx + i, value));', 'let begin = chunk.begin_idx;\n                    let key = begin + i;\n                    collected.push((key, value));')
b('C01', 'key_single_component_flatmap', 'src/core/map_fil_col.rs', 'collected.push((x.idx, value));', 'let position = x.idx;\n                    collected.push((position, value));')

# ------------------------------------------------------------------------------------------ C02 (step 3)
m('C02', 'index_after_filter', 'src/core/map_fil_find.rs', """                let result = chunk
                    .values
                    .enumerate()
                    .map(|x| (x.0, map(x.1)))
                    .find(|x| filter(&x.1))
                    .map(|x| (chunk.begin_idx + x.0, x.1));""", """                let result = chunk
                    .values
                    .map(map)
                    .filter(|x| filter(x))
                    .enumerate()
                    .next()
                    .map(|x| (chunk.begin_idx + x.0, x.1));""", 'C02-IDX')
m('C02', 'index_without_begin', 'src/core/filtermap_fil_find.rs', 'true => Some((chunk.begin_idx + x.0, value)),', 'true => Some((x.0, value)),', 'C02-IDX')
m('C02', 'find_with_index_or', 'src/par/par_fil.rs', 'let composed = move |x: &I::Item| filter(x) && predicate(x);', 'let composed = move |x: &I::Item| predicate(x) && filter(x);', 'C01-COMPOSE')
m('C02', 'task_returns_last', 'src/core/flatmap_fil_find.rs', """            let result = iter
                .ids_and_values()
                .flat_map(|x| fmap(x.1).into_iter().find(filter).map(|y| (x.0, y)))
                .next();""", """            let result = iter
                .ids_and_values()
                .flat_map(|x| fmap(x.1).into_iter().find(filter).map(|y| (x.0, y)))
                .last();""", 'C02-FIRST')

# ------------------------------------------------------------------------------------------ C03 / C04 (step 3)
m('C03', 'acc_overwritten', 'src/core/map_fil_red.rs', 'acc = maybe_reduce(reduce, acc, x);', 'acc = maybe_reduce(reduce, None, x);', 'C03-THREAD')
m('C03', 'chunk_reduce_takes_two', 'src/core/flatmap_fil_red.rs', 'let x = chunk.flat_map(fmap).filter(filter).reduce(reduce);', 'let x = chunk.flat_map(fmap).filter(filter).take(2).reduce(reduce);', 'C03-THREAD')
m('C03', 'last_handle_not_reduced', 'src/core/runner.rs', """            let result = threads
                .into_iter()
                .map(|x| x.join().expect("Failed to join thread"))
                .reduce(reduce);""", """            let result = threads
                .into_iter()
                .skip(1)
                .map(|x| x.join().expect("Failed to join thread"))
                .reduce(reduce);""", 'S2')
m('C04', 'count_acc_reset', 'src/core/map_fil_cnt.rs', 'count += chunk.map(&map).filter(&filter).count();', 'count = chunk.map(&map).filter(&filter).count();', 'C04-THREAD')
m('C04', 'count_uses_len', 'src/core/flatmap_fil_cnt.rs', 'count += chunk.flat_map(&map).filter(&filter).count();', 'count += chunk.flat_map(&map).filter(&filter).size_hint().0;', 'C04-THREAD')
m('C04', 'count_every_survivor_of_filtermap', 'src/core/filtermap_fil_cnt.rs', """                            if maybe.has_value() {
                                let x = maybe.value();
                                if filter(&x) {
                                    acc += 1;
                                }
                            }""", """                            if maybe.has_value() {
                                let x = maybe.value();
                                let _ = filter(&x);
                                acc += 1;
                            }""", 'C05-FEED')
m('C04', 'run_map_last_handle_dropped', 'src/core/runner.rs', """            handles.push(s.spawn(move || thread_task(chunk)));
            num_spawned += 1;

            let mut vec = vec![];""", """            s.spawn(move || thread_task(chunk));
            num_spawned += 1;

            let mut vec = vec![];""", 'S2')

# ------------------------------------------------------------------------------------------ C05 (step 3)
m('C05', 'filter_evaluated_twice', 'src/par/par_map_fil.rs', 'let composed = move |x: &O| filter1(x) && filter(x);', 'let composed = move |x: &O| filter1(x) && filter(x) && filter1(x);', 'C05-ONCE')
m('C05', 'task_returns_after_first_chunk', 'src/core/map_fil_col_x.rs', """            while let Some(chunk) = iter.next_chunk_x(c) {
                collected.extend(chunk.map(&map).filter(&filter));
            }""", """            if let Some(chunk) = iter.next_chunk_x(c) {
                collected.extend(chunk.map(&map).filter(&filter));
            }""", 'C05-VISIT')
m('C05', 'survivor_dropped_on_odd_index', 'src/core/map_fil_col.rs', """                if filter(&value) {
                    collected.push((x.idx, value));
                };""", """                if filter(&value) {
                    if x.idx != usize::MAX - 1 {
                        collected.push((x.idx, value));
                    }
                };""", 'C05-VISIT')


# ------------------------------------------------------------------------------------------ C06 / C07 / C08 / C09 (step 3)
m('C06', 'offset_zero', 'src/core/map_col.rs', 'let offset = collected.len();', 'let offset = collected.len() - collected.len();', 'C06-OFFSET')
m('C07', 'fragments_truncated', 'src/core/map_fil_col_x.rs', """    let vectors = Runner::run_map(params, ParTask::Collect, &iter, &task);
    output.append(vectors);""", """    let mut vectors = Runner::run_map(params, ParTask::Collect, &iter, &task);
    vectors.pop();
    output.append(vectors);""", 'C07-FRAG')
m('C07', 'col_x_task_dedups', 'src/core/flatmap_fil_col_x.rs', """                collected.extend(chunk.flat_map(&flat_map).filter(&filter));
            }
            collected""", """                collected.extend(chunk.flat_map(&flat_map).filter(&filter));
            }
            collected.truncate(collected.len().min(usize::MAX / 2));
            collected""", 'C01-APPEND')
m('C07', 'col_x_task_skips_first', 'src/core/filtermap_fil_col_x.rs', """                    chunk
                        .map(&filter_map)
                        .filter(|x| x.has_value())
                        .map(|x| x.value())
                        .filter(&filter),""", """                    chunk
                        .map(&filter_map)
                        .filter(|x| x.has_value())
                        .map(|x| x.value())
                        .filter(&filter)
                        .step_by(1),""", 'C07-TASK')
m('C08', 'spawn_counter_not_incremented', 'src/core/runner.rs', """                        true => {
                            s.spawn(move || thread_task(chunk));
                            num_spawned += 1;
                        }""", """                        true => {
                            s.spawn(move || thread_task(chunk));
                        }""", 'C08-SPAWN')
m('C08', 'spawn_unguarded_in_loop', 'src/core/runner.rs', """                lag();
                match runner.next_chunk_size(threads.len(), iter.has_more()) {
                    None => break 'lag_period,
                    Some(c) => chunk = c,
                }""", """                lag();
                match runner.next_chunk_size(threads.len(), iter.has_more()) {
                    None => break 'lag_period,
                    Some(c) => {
                        chunk = c;
                        threads.push(s.spawn(move || thread_task(chunk)));
                    }
                }""", 'C08-SPAWN')
m('C09', 'empty_collect_reversed', 'src/par/par_empty.rs', """    fn collect_vec(self) -> Vec<Self::Item> {
        self.iter.into_seq_iter().collect()
    }""", """    fn collect_vec(self) -> Vec<Self::Item> {
        let mut v: Vec<Self::Item> = self.iter.into_seq_iter().collect();
        v.rotate_left(0);
        v.into_iter().rev().rev().collect()
    }""", 'C09-EMPTY')

# ------------------------------------------------------------------------------------------ C13 / C14 (step 3)
m('C13', 'set_len_skips_first', 'src/core/map_fil_col.rs', """    for vec in vectors.iter_mut() {
        unsafe { vec.set_len(0) };
    }
}

pub(crate) fn heap_sort_into_pinned_vec""", """    for vec in vectors.iter_mut().skip(1) {
        unsafe { vec.set_len(0) };
    }
}

pub(crate) fn heap_sort_into_pinned_vec""", 'C13-PAIR')
m('C13', 'set_len_one', 'src/core/map_fil_col.rs', """    for vec in vectors.iter_mut() {
        unsafe { vec.set_len(0) };
    }
}

pub fn par_map_fil_col_vec""", """    for vec in vectors.iter_mut() {
        unsafe { vec.set_len(vec.len().min(1)) };
    }
}

pub fn par_map_fil_col_vec""", 'C13-PAIR')
m('C14', 'user_filter_in_merge_window', 'src/core/map_fil_col.rs', """pub fn par_map_fil_col_vec<I, Out, Map, Fil>(
    params: Params,
    iter: I,
    map: Map,
    filter: Fil,
    output: &mut Vec<Out>,
) where
    I: ConcurrentIter,
    Out: Send + Sync,
    Map: Fn(I::Item) -> Out + Send + Sync,
    Fil: Fn(&Out) -> bool + Send + Sync,
{
    let task = |c| task(&iter, &map, &filter, c);
    let vectors = Runner::run_map(params, ParTask::Collect, &iter, &task);
    heap_sort_into_vec(vectors, output);""", """pub fn par_map_fil_col_vec<I, Out, Map, Fil>(
    params: Params,
    iter: I,
    map: Map,
    filter: Fil,
    output: &mut Vec<Out>,
) where
    I: ConcurrentIter,
    Out: Send + Sync,
    Map: Fn(I::Item) -> Out + Send + Sync,
    Fil: Fn(&Out) -> bool + Send + Sync,
{
    let task = |c| task(&iter, &map, &filter, c);
    let mut vectors = Runner::run_map(params, ParTask::Collect, &iter, &task);
    for vec in vectors.iter_mut() {
        let ptr = vec.as_mut_ptr();
        for i in 0..vec.len() {
            let item = unsafe { ptr.add(i).read() };
            if filter(&item.1) {
                output.push(item.1);
            }
        }
        unsafe { vec.set_len(0) };
    }""", 'C14-WINDOW')

# ------------------------------------------------------------------------------------------ C15
m('C15', 'workers_get_small_fixed_stack', 'src/core/runner.rs', """                            s.spawn(move || thread_task(chunk));
                            num_spawned += 1;""", """                            std::thread::Builder::new().stack_size(128 * 1024).spawn_scoped(s, move || thread_task(chunk)).expect("failed to spawn thread");
                            num_spawned += 1;""", 'C15-STACK')
b('C15', 'workers_spawned_through_named_builder', 'src/core/runner.rs', """                            s.spawn(move || thread_task(chunk));
                            num_spawned += 1;""", """                            std::thread::Builder::new().name("orx-parallel worker".to_string()).spawn_scoped(s, move || thread_task(chunk)).expect("failed to spawn thread");
                            num_spawned += 1;""")
m('C15', 'exact_chunk_not_clamped_by_len', 'src/core/runner_settings/chunk_size.rs', 'Some(len) => chunk_size.min(len.max(1)),', 'Some(_len) => chunk_size,', 'C15-CHUNKCAP')
m('C15', 'min_chunk_checked_mul_catch_all', 'src/core/runner_settings/chunk_size.rs', """            let one_round_len = max_num_threads.saturating_mul(chunk_size);
            match one_round_len.cmp(&len) {
                Ordering::Greater => div_ceil(len, max_num_threads),
                _ => chunk_size,
            }""", """            match max_num_threads.checked_mul(chunk_size) {
                Some(one_round_len) if one_round_len.cmp(&len) == Ordering::Greater => div_ceil(len, max_num_threads),
                _ => chunk_size,
            }""", 'C15-CHUNKCAP')
m('C11', 'runner_resolves_with_foreign_len', 'src/core/runner.rs', 'let runner = Self::new(params, task_type, iter.try_get_len());', 'let runner = Self::new(params, task_type, iter.try_get_len().map(|n| n / 2));', 'C11-RESOLVE')
b('C15', 'exact_clamp_if_else', 'src/core/runner_settings/chunk_size.rs', 'Some(len) => chunk_size.min(len.max(1)),', 'Some(len) => std::cmp::min(chunk_size, std::cmp::max(len, 1)),')
m('C15', 'task_buffer_sized_by_chunk', 'src/core/map_fil_col_x.rs', """            let mut collected = vec![];
            while let Some(chunk) = iter.next_chunk_x(c) {""", """            let mut collected = Vec::with_capacity(c);
            while let Some(chunk) = iter.next_chunk_x(c) {""", 'C15-ALLOC')
m('C15', 'task_reserves_chunk_each_pull', 'src/core/flatmap_fil_col_x.rs', """            let mut collected = vec![];""", """            let mut collected = vec![];
            collected.reserve(c);""", 'C15-ALLOC')
m('C15', 'handles_sized_by_chunk_times_threads', 'src/core/runner.rs', 'let mut threads = Vec::with_capacity(runner.max_num_threads);', 'let mut threads = Vec::with_capacity(runner.max_num_threads.saturating_mul(runner.chunk_size.inner()));', 'C15-ALLOC')
b('C15', 'task_buffer_sized_by_min_of_chunk_and_len', 'src/core/map_fil_col_x.rs', """            let mut collected = vec![];
            while let Some(chunk) = iter.next_chunk_x(c) {""", """            let mut collected = Vec::with_capacity(c.min(iter.try_get_len().unwrap_or(1024)));
            while let Some(chunk) = iter.next_chunk_x(c) {""")
m('C15', 'no_clamp_to_one', 'src/core/runner.rs', 'let max_num_threads = num_threads::calc_num_threads(input_len, params.num_threads).max(1);', 'let max_num_threads = num_threads::calc_num_threads(input_len, params.num_threads);', 'C15')
m('C15', 'min_chunk_zero_len_arm_removed', 'src/core/runner_settings/chunk_size.rs', """        None => chunk_size,
        Some(0) => 1,
        Some(len) => {""", """        None => chunk_size,
        Some(len) => {""", 'C15')
m('C15', 'min_chunk_unsaturated_product', 'src/core/runner_settings/chunk_size.rs', 'let one_round_len = max_num_threads.saturating_mul(chunk_size);', 'let one_round_len = max_num_threads * chunk_size;', 'C15-OBLIG')
m('C15', 'auto_chunk_halves_past_one', 'src/core/runner_settings/chunk_size.rs', """            // absolute breaking condition
            if chunk_size == 1 {
                break;
            }""", """            // absolute breaking condition
            if chunk_size == 0 {
                break;
            }""", 'C15')
m('C15', 'growth_divides_by_spawned_unguarded', 'src/core/runner.rs', """                    let chunk_size = match num_spawned_threads {
                        0 => x,
                        _ => {""", """                    let chunk_size = match num_spawned_threads {
                        usize::MAX => x,
                        _ => {""", 'C15-OBLIG')
m('C15', 'from_usize_unchecked_nonzero', 'src/num_threads.rs', """        match value {
            0 => Self::Auto,
            _ => Self::Max(NonZeroUsize::new(value).expect("must be positive")),
        }""", """        match value {
            1 => Self::Auto,
            _ => Self::Max(NonZeroUsize::new(value).expect("must be positive")),
        }""", 'C15-OBLIG')
b('C15', 'div_ceil_std', 'src/core/runner_settings/utils.rs', """    let x = number / divider;
    let remainder = number - x * divider;
    x + if remainder > 0 { 1 } else { 0 }""", """    let x = number / divider;
    let remainder = number - x * divider;
    if remainder > 0 { x + 1 } else { x }""")

# ------------------------------------------------------------------------------------------ more benign refactors (robustness)
b('C01', 'task_loop_as_extend', 'src/core/map_fil_col.rs', """                for (i, value) in chunk.values.map(map).filter(filter).enumerate() {
                    collected.push((chunk.begin_idx + i, value));
                }""", """                let begin = chunk.begin_idx;
                collected.extend(
                    chunk
                        .values
                        .map(map)
                        .filter(filter)
                        .enumerate()
                        .map(|(i, value)| (begin + i, value)),
                );""")
b('C01', 'merge_increment_via_idx', 'src/core/map_fil_col.rs', """        let idx = indices[v];
        indices[v] += 1;

        curr_v = match vectors[v].get(indices[v]) {
            Some(x) => Some(queue.push_then_pop(v, x.0).0),
            None => queue.pop_node(),
        };

        let ptr = vectors[v].as_mut_ptr();
        output.push(unsafe { ptr.add(idx).read().1 });
    }

    for vec in vectors.iter_mut() {
        unsafe { vec.set_len(0) };
    }
}

pub(crate) fn heap_sort_into_pinned_vec""", """        let idx = indices[v];
        indices[v] = idx + 1;

        curr_v = match vectors[v].get(indices[v]) {
            Some(x) => Some(queue.push_then_pop(v, x.0).0),
            None => queue.pop_node(),
        };

        let ptr = vectors[v].as_mut_ptr();
        output.push(unsafe { ptr.add(idx).read().1 });
    }

    for vec in vectors.iter_mut() {
        unsafe { vec.set_len(0) };
    }
}

pub(crate) fn heap_sort_into_pinned_vec""")
b('C03', 'red_loop_match', 'src/core/map_fil_red.rs', """            while let Some(chunk) = iter.next_chunk_x(c) {
                let x = chunk.map(map).filter(filter).reduce(reduce);
                acc = maybe_reduce(reduce, acc, x);
            }
            acc""", """            loop {
                match iter.next_chunk_x(c) {
                    Some(chunk) => {
                        let x = chunk.map(map).filter(filter).reduce(reduce);
                        acc = maybe_reduce(reduce, acc, x);
                    }
                    None => break,
                }
            }
            acc""")
b('C03', 'maybe_reduce_if_let', 'src/core/utils.rs', """    match (a, b) {
        (None, None) => None,
        (None, Some(b)) => Some(b),
        (Some(a), None) => Some(a),
        (Some(a), Some(b)) => Some(reduce(a, b)),
    }""", """    match a {
        None => b,
        Some(a) => match b {
            None => Some(a),
            Some(b) => Some(reduce(a, b)),
        },
    }""")
b('C04', 'count_let_binding', 'src/core/map_fil_cnt.rs', """                count += chunk.map(&map).filter(&filter).count();""", """                let n = chunk.map(&map).filter(&filter).count();
                count = count + n;""")
b('C08', 'increment_before_spawn', 'src/core/runner.rs', """                        true => {
                            s.spawn(move || thread_task(chunk));
                            num_spawned += 1;
                        }""", """                        true => {
                            num_spawned += 1;
                            s.spawn(move || thread_task(chunk));
                        }""")
b('C08', 'do_spawn_if_else', 'src/core/runner.rs', """        match num_spawned {
            x if x >= self.max_num_threads - 1 => false,
            _ => !matches!(has_more, HasMore::No),
        }
    }

    pub fn next_chunk_size""", """        if num_spawned + 1 >= self.max_num_threads {
            return false;
        }
        match has_more {
            HasMore::No => false,
            _ => true,
        }
    }

    pub fn next_chunk_size""")
b('C10', 'find_if_let', 'src/core/map_fil_find.rs', """                if result.is_some() {
                    iter.skip_to_end();
                    return result;
                }""", """                if let Some(found) = result {
                    iter.skip_to_end();
                    return Some(found);
                }""")
b('C11', 'task_chunk_renamed_copy', 'src/core/flatmap_fil_cnt.rs', """        c => {
            let mut count = 0;
            while let Some(chunk) = iter.next_chunk_x(c) {""", """        _ => {
            let size = chunk_size;
            let mut count = 0;
            while let Some(chunk) = iter.next_chunk_x(size) {""")
b('C12', 'setter_struct_literal', 'src/par/par_map.rs', """    fn num_threads(mut self, num_threads: impl Into<crate::NumThreads>) -> Self {
        self.params = self.params.with_num_threads(num_threads);
        self
    }""", """    fn num_threads(self, num_threads: impl Into<crate::NumThreads>) -> Self {
        let params = self.params.with_num_threads(num_threads);
        Self { params, ..self }
    }""")
b('C12', 'transformation_uses_destruct_let', 'src/par/par_empty.rs', """        ParMap::new(self.iter, self.params, map)""", """        let Self { iter, params } = self;
        ParMap::new(iter, params, map)""")
b('C13', 'set_len_for_index_loop', 'src/core/map_fil_col.rs', """    for vec in vectors.iter_mut() {
        unsafe { vec.set_len(0) };
    }
}

pub fn par_map_fil_col_vec""", """    vectors.iter_mut().for_each(|vec| unsafe { vec.set_len(0) });
}

pub fn par_map_fil_col_vec""")
b('C15', 'clamp_with_if', 'src/core/runner.rs', """        let max_num_threads = num_threads::calc_num_threads(input_len, params.num_threads).max(1);""", """        let max_num_threads = match num_threads::calc_num_threads(input_len, params.num_threads) {
            0 => 1,
            n => n,
        };""")
b('C16', 'transformation_extra_let', 'src/par/par_map.rs', """        ParMapFilter::new(self.iter, self.params, self.map, filter)""", """        let (params, iter, map) = self.destruct();
        let next = ParMapFilter::new(iter, params, map, filter);
        next""")

# ------------------------------------------------------------------------------------------ round 6 generalisations
m('C05', 'run_map_trailing_spawn_guarded_by_do_spawn', 'src/core/runner.rs', """            handles.push(s.spawn(move || thread_task(chunk)));
            num_spawned += 1;

            let mut vec = vec![];""", """            if runner.do_spawn(num_spawned, iter.has_more()) {
                handles.push(s.spawn(move || thread_task(chunk)));
                num_spawned += 1;
            }

            let mut vec = vec![];""", 'C05-WORKER')
m('C03', 'reduce_trailing_spawn_only_if_long', 'src/core/runner.rs', """            threads.push(s.spawn(move || thread_task(chunk)));

            let num_threads = threads.len();""", """            if iter.try_get_len().map(|n| n > chunk).unwrap_or(true) {
                threads.push(s.spawn(move || thread_task(chunk)));
            }

            let num_threads = threads.len();""", 'C05-WORKER')
b('C05', 'run_trailing_spawn_unless_exhausted_and_started', 'src/core/runner.rs', """            s.spawn(move || thread_task(chunk));
            num_spawned += 1;
        });""", """            if num_spawned == 0 || !matches!(iter.has_more(), HasMore::No) {
                s.spawn(move || thread_task(chunk));
                num_spawned += 1;
            }
        });""")
m('C10', 'flatmap_flat_map_collects_inner', 'src/par/par_flatmap.rs', """            let values = flat_map1(x);
            values.into_iter().flat_map(flat_map.clone())""", """            let values = flat_map1(x);
            values.into_iter().flat_map(flat_map.clone()).collect::<Vec<_>>()""", 'C10-LAZYINNER')
m('C05', 'find_merge_rechecks_filter', 'src/core/map_fil_find.rs', """        |a: Option<(usize, _)>, b| maybe_reduce(|a, b| if b.0 < a.0 { b } else { a }, a, b);""",
  """        |a: Option<(usize, Out)>, b: Option<(usize, Out)>| maybe_reduce(|a: (usize, Out), b: (usize, Out)| if b.0 < a.0 && filter(&b.1) { b } else { a }, a, b);""", 'C05-MERGE')
m('C06', 'vec_bridge_from_data', 'src/par/collect_into/vec.rs', """                let mut split = SplitVec::with_doubling_growth_and_fragments_capacity(32);
                split.extend(self);
                split.map_into(par_map).to_vec()""", """                let split: SplitVec<O> = self.into();
                split.map_into(par_map).to_vec()""", 'C06-BRIDGE')
m('C11', 'kernel_peeks_first_element', 'src/core/map_fil_cnt.rs', """    let task = |c| task(&iter, &map, &filter, c);
    let reduce = |a, b| a + b;
    let (_num_spawned, count) = Runner::reduce(params, ParTask::Collect, &iter, &task, reduce);

    count.unwrap_or(0)""", """    let head = iter.next().map(&map).filter(&filter).map(|_| 1).unwrap_or(0);
    let task = |c| task(&iter, &map, &filter, c);
    let reduce = |a, b| a + b;
    let (_num_spawned, count) = Runner::reduce(params, ParTask::Collect, &iter, &task, reduce);

    head + count.unwrap_or(0)""", 'C11-PULL')
m('C02', 'find_predicate_narrowed', 'src/core/map_fil_find.rs', """.find(|x| filter(&x.1))
                    .map(""", """.find(|x| filter(&x.1) && x.0 % 2 == 0)
                    .map(""", 'C02-ACCEPT')
m('C09', 'seq_find_step_accepts_rejected', 'src/core/map_fil_find.rs', """        .find_map(|x| match filter(&x.1) {
            false => None,
            true => Some(x),
        })""", """        .find_map(|x| match filter(&x.1) || x.0 == 0 {
            false => None,
            true => Some(x),
        })""", 'C02-ACCEPT')
m('C09', 'seq_filtermap_find_ignores_filter_for_first', 'src/core/filtermap_fil_find.rs', """                match filter(&value) {
                    false => None,
                    true => Some((x.0, value)),
                }
            }
        })
}""", """                match filter(&value) || x.0 == 0 {
                    false => None,
                    true => Some((x.0, value)),
                }
            }
        })
}""", 'C02-ACCEPT')
b('C02', 'find_predicate_by_name', 'src/core/map_fil_find.rs', """.find(|x| filter(&x.1))
                    .map(""", """.find(|x| { let accepted = filter(&x.1); accepted })
                    .map(""")
m('C03', 'reduce_task_filter_narrowed', 'src/core/map_fil_red.rs', "let x = chunk.map(map).filter(filter).reduce(reduce);",
  "let x = chunk.map(map).enumerate().filter(|x| filter(&x.1) && x.0 != 7).map(|x| x.1).reduce(reduce);", 'C05-ACCEPT')
m('C07', 'col_x_task_filter_widened', 'src/core/map_fil_col_x.rs', "collected.extend(chunk.map(&map).filter(&filter));",
  "collected.extend(chunk.map(&map).enumerate().filter(|x| filter(&x.1) || x.0 == 3).map(|x| x.1));", 'C05-ACCEPT')
b('C07', 'col_x_task_filter_through_closure', 'src/core/map_fil_col_x.rs', "collected.extend(chunk.map(&map).filter(&filter));",
  "collected.extend(chunk.map(&map).filter(|x| { let keep = filter(x); keep }));")

# ------------------------------------------------------------------------------------------ survivors of the systematic self-mutation sweep (tools/selfmut.py)
m('C01', 'filtermap_col_task_push_deleted', 'src/core/filtermap_fil_col.rs', "                        collected.push((x.idx, value));", "                        { }", 'C05-FEED')
m('C03', 'filtermap_red_task_filter_negated', 'src/core/filtermap_fil_red.rs', "                    if filter(&x) {", "                    if !(filter(&x)) {", 'C05-FEED')
m('C03', 'red_task_accumulate_deleted', 'src/core/map_fil_red.rs', "                acc = maybe_reduce(reduce, acc, x);", "                { }", 'C05-FEED')
m('C04', 'cnt_task_add_deleted', 'src/core/map_fil_cnt.rs', "                count += chunk.map(&map).filter(&filter).count();", "                { }", 'C05-FEED')
m('C09', 'seq_col_push_deleted', 'src/core/map_fil_col.rs', """    for x in iter.map(map).filter(filter) {
        output.push(x);
    }
}

pub fn seq_map_fil_col_pinned_vec""", """    for x in iter.map(map).filter(filter) {
        { }
    }
}

pub fn seq_map_fil_col_pinned_vec""", 'C05-FEED')
m('C01', 'flatmap_col_task_skip_while', 'src/core/flatmap_fil_col.rs', """                        .into_iter()
                        .filter(filter)
                        .enumerate()
                        .map(|(i, value)| ((x.idx, i), value)),""", """                        .into_iter()
                        .skip_while(filter)
                        .enumerate()
                        .map(|(i, value)| ((x.idx, i), value)),""", 'C05-FEED')
m('C01', 'merge_call_deleted', 'src/core/map_fil_col.rs', """    heap_sort_into_vec(vectors, output);""", """    { }""", 'C05-CONSUME')
m('C06', 'fixed_seq_extend_deleted', 'src/par/collect_into/fixed_vec.rs', """        vec.extend(iter);""", """        { }""", 'C05-CONSUME')
m('C09', 'seq_map_col_inserts_front', 'src/core/map_col.rs', """        output.push(x);
    }
    output""", """        output.insert(0, x);
    }
    output""", 'C06-MUT')
m('C06', 'split_seq_extend_inserts_front', 'src/par/collect_into/split_vec.rs', "            self.push(x)", "            self.insert(0, x)", 'C06-MUT')
m('C08', 'is_sequential_negated', 'src/params.rs', "        self.num_threads == NumThreads::sequential()\n", "        self.num_threads != NumThreads::sequential()\n", 'S6')
m('C01', 'merge_cursors_start_at_one', 'src/core/map_fil_col.rs', "    let mut indices = vec![0; vectors.len()];", "    let mut indices = vec![1; vectors.len()];", 'C01-MERGE')
m('C04', 'filtermap_cnt_first_survivor_forgotten', 'src/core/filtermap_fil_cnt.rs', "                        let mut acc = 1;", "                        let mut acc = 0;", 'C04-THREAD')
m('C01', 'unknown_len_reservation_tiny', 'src/par/collect_into/split_vec.rs', "None => self.reserve_maximum_concurrent_capacity(1 << 32),", "None => self.reserve_maximum_concurrent_capacity(1 << 2),", 'C01-RESERVE')
m('C15', 'auto_chunk_search_never_halves', 'src/core/runner_settings/chunk_size.rs', "            chunk_size >>= 1;", "            chunk_size >>= 0;", 'C15-TERMINATE')
m('C05', 'option_has_value_negated', 'src/par/fallible.rs', """    fn has_value(&self) -> bool {
        self.is_some()""", """    fn has_value(&self) -> bool {
        self.is_none()""", 'C05-FALLIBLE')
b('C02', 'find_result_inspected', 'src/core/map_fil_find.rs', "                    .map(|x| (chunk.begin_idx + x.0, x.1));", "                    .inspect(|_| ())\n                    .map(|x| (chunk.begin_idx + x.0, x.1));")
b('C04', 'cnt_chain_inspected', 'src/core/map_fil_cnt.rs', "                count += chunk.map(&map).filter(&filter).count();", "                count += chunk.inspect(|_| ()).map(&map).filter(&filter).count();")
m('C01', 'eager_intermediate_reversed', 'src/par/par_map_fil.rs', """        let vec = self.collect_vec();
        let iter = vec.into_con_iter();
        ParFlatMap::new(iter, params, flat_map)""", """        let vec = self.collect_vec().into_iter().rev().collect::<Vec<_>>();
        let iter = vec.into_con_iter();
        ParFlatMap::new(iter, params, flat_map)""", 'C01-NOSHUFFLE')
m('C01', 'terminal_result_reversed', 'src/par/par_fil.rs', "ParMapFilter::new(iter, params, map_self, filter).collect_vec()", "ParMapFilter::new(iter, params, map_self, filter).collect_vec().into_iter().rev().collect::<Vec<_>>()", 'C01-NOSHUFFLE')
m('C01', 'composed_filter_drops_upstream', 'src/par/par_map_fil.rs', "let composed = move |x: &O| filter1(x) && filter(x);", "let composed = move |x: &O| { let _ = &filter1; filter(x) };", 'C01-COMPOSE')
m('C01', 'composed_filter_forgets_upstream', 'src/par/par_map_fil.rs', "let composed = move |x: &O| filter1(x) && filter(x);", "let composed = move |x: &O| filter(x);", 'C01-KEEP')
m('C01', 'composed_filter_forgets_new', 'src/par/par_flatmap_fil.rs', "let composed = move |x: &O| filter1(x) && filter(x);", "let composed = move |x: &O| filter1(x);", 'C01-KEEP')
m('C02', 'find_forgets_predicate', 'src/par/par_map_fil.rs', "let composed = move |x: &O| filter(x) && predicate(x);", "let composed = move |x: &O| filter(x);", 'C01-KEEP')
m('C02', 'find_forgets_filter', 'src/par/par_filtermap_fil.rs', "let composed = move |x: &O| filter(x) && predicate(x);", "let composed = move |x: &O| predicate(x);", 'C01-KEEP')
m('C01', 'vec_reserves_nothing', 'src/par/collect_into/vec.rs', "                self.reserve(iter_len);", "                self.reserve(0 * iter_len);", 'C01-RESERVE')
m('C02', 'find_stops_when_iter_reports_nothing_left', 'src/core/map_fil_find.rs', """                    iter.skip_to_end();
                    return result;
                }
            }
            None""", """                    iter.skip_to_end();
                    return result;
                }
                if !matches!(iter.has_more(), orx_concurrent_iter::HasMore::Yes(_)) {
                    break;
                }
            }
            None""", 'C02-EXHAUST')
m('C02', 'find_gives_up_after_first_chunk', 'src/core/flatmap_fil_find.rs', """                    iter.skip_to_end();
                    return result;
                }
            }
""", """                    iter.skip_to_end();
                    return result;
                }
                break;
            }
""", 'C02-EXHAUST')
b('C02', 'find_exhaustion_via_loop_match', 'src/core/map_fil_find.rs', """            while let Some(chunk) = buffered.next() {
                let result = chunk
                    .values
                    .enumerate()
                    .map(|x| (x.0, map(x.1)))
                    .find(|x| filter(&x.1))
                    .map(|x| (chunk.begin_idx + x.0, x.1));

                if result.is_some() {
                    iter.skip_to_end();
                    return result;
                }
            }
            None""", """            loop {
                let chunk = match buffered.next() {
                    Some(chunk) => chunk,
                    None => return None,
                };
                let result = chunk
                    .values
                    .enumerate()
                    .map(|x| (x.0, map(x.1)))
                    .find(|x| filter(&x.1))
                    .map(|x| (chunk.begin_idx + x.0, x.1));

                if let Some(found) = result {
                    iter.skip_to_end();
                    return Some(found);
                }
            }""")
m('C06', 'collect_target_overwritten_by_single_worker_result', 'src/core/filtermap_fil_col.rs', """    heap_sort_into_vec(vectors, output);""", """    if vectors.len() == 1 {
        let mut vectors = vectors;
        *output = vectors.pop().expect("one").into_iter().map(|x| x.1).collect();
    } else {
        heap_sort_into_vec(vectors, output);
    }""", 'C06-MUT')
m('C01', 'eager_intermediate_unordered', 'src/par/par_filtermap_fil.rs', """        let vec = self.collect_vec();""", """        let vec: Vec<_> = self.collect_x().into_iter().collect();""", 'C01-NOSHUFFLE')
m('C13', 'split_reservation_ignores_existing_len', 'src/par/collect_into/split_vec.rs', "Some(len) => self.reserve_maximum_concurrent_capacity(self.len() + len),", "Some(len) => self.reserve_maximum_concurrent_capacity(len),", 'C01-RESERVE')
m('C04', 'composed_filter_keeps_upstream_rejects', 'src/par/par_filtermap_fil.rs', "let composed_filter = move |x: &O| filter1(x) && filter(x);", "let composed_filter = move |x: &O| match filter1(x) { false => true, true => filter(x) };", 'C01-CONJ')
m('C01', 'composed_filter_is_disjunction', 'src/par/par_map_fil.rs', "let composed = move |x: &O| filter1(x) && filter(x);", "let composed = move |x: &O| filter1(x) || filter(x);", 'C01-CONJ')
b('C01', 'composed_filter_as_if', 'src/par/par_map_fil.rs', "let composed = move |x: &O| filter1(x) && filter(x);", "let composed = move |x: &O| if filter1(x) { filter(x) } else { false };")
b('C01', 'composed_filter_as_match', 'src/par/par_flatmap_fil.rs', "let composed = move |x: &O| filter1(x) && filter(x);", "let composed = move |x: &O| match filter1(x) { true => filter(x), false => false };")
m('C05', 'collect_x_filters_by_retain', 'src/core/map_fil_col_x.rs', "collected.extend(chunk.map(&map).filter(&filter));", "collected.extend(chunk.map(&map));\n                collected.retain(filter);", 'C05-STAGEUSE')
m('C03', 'reduce_terminal_rebrackets_operator', 'src/par/par_map.rs', "        map_fil_red(params, iter, map, no_filter, reduce)", "        map_fil_red(params, iter, map, no_filter, move |a, b| reduce(b, a))", 'C03-OPARG')
b('C03', 'reduce_terminal_operator_by_name', 'src/par/par_map.rs', "        map_fil_red(params, iter, map, no_filter, reduce)", "        let operator = reduce;\n        map_fil_red(params, iter, map, no_filter, move |a, b| operator(a, b))")
m('C05', 'option_has_value_matches_none', 'src/par/fallible.rs', """    fn has_value(&self) -> bool {
        self.is_some()""", """    fn has_value(&self) -> bool {
        matches!(self, None)""", 'C05-FALLIBLE')
b('C05', 'option_has_value_matches_some', 'src/par/fallible.rs', """    fn has_value(&self) -> bool {
        self.is_some()""", """    fn has_value(&self) -> bool {
        matches!(self, Some(_))""")
m('C05', 'result_has_value_matches_err', 'src/par/fallible.rs', """    fn has_value(&self) -> bool {
        self.is_ok()""", """    fn has_value(&self) -> bool {
        matches!(self, Err(_))""", 'C05-FALLIBLE')
m('C02', 'flatmap_find_skips_by_size_hint', 'src/core/flatmap_fil_find.rs', """                        fmap(x.1)
                            .into_iter()
                            .find(filter)
                            .map(|y| (chunk.begin_idx + x.0, y))""", """                        let mut values = fmap(x.1).into_iter();
                        match values.size_hint().0 {
                            0 => None,
                            _ => values.find(filter).map(|y| (chunk.begin_idx + x.0, y)),
                        }""", 'C02-EXHAUST')
b('C02', 'flatmap_find_closure_as_match', 'src/core/flatmap_fil_find.rs', """                        fmap(x.1)
                            .into_iter()
                            .find(filter)
                            .map(|y| (chunk.begin_idx + x.0, y))""", """                        let found = fmap(x.1).into_iter().find(filter);
                        match found {
                            Some(y) => Some((chunk.begin_idx + x.0, y)),
                            None => None,
                        }""")
m('C07', 'collect_x_entry_probes_first_element', 'src/core/map_fil_col_x.rs', """    let task = |c| task(&iter, &map, &filter, c);
    let vectors = Runner::run_map(params, ParTask::Collect, &iter, &task);
    output.append(vectors);""", """    if iter.try_get_len().is_none() {
        match iter.next() {
            None => return,
            Some(first) => output.append(vec![vec![map(first)]]),
        }
    }
    let task = |c| task(&iter, &map, &filter, c);
    let vectors = Runner::run_map(params, ParTask::Collect, &iter, &task);
    output.append(vectors);""", 'C05-ENTRY')
m('C07', 'collect_x_task_buffered_pull', 'src/core/map_fil_col_x.rs', """            while let Some(chunk) = iter.next_chunk_x(c) {
                collected.extend(chunk.map(&map).filter(&filter));
            }""", """            let mut buffered = iter.buffered_iter_x(c);
            while let Some(chunk) = buffered.next_x() {
                collected.extend(chunk.map(&map).filter(&filter));
            }""", 'C07-BUFSITE')
m('C10', 'find_head_search_then_parallel', 'src/core/map_fil_find.rs', """        false => par_map_fil_find(params, iter, map, filter),""", """        false => {
            let head = iter.ids_and_values().take(8).map(|x| (x.0, map(x.1))).find(|x| filter(&x.1));
            head.or(par_map_fil_find(params, iter, map, filter))
        }""", 'C05-OUTSIDE')
m('C13', 'map_col_task_buffered_pull', 'src/core/map_col.rs', """            while let Some(chunk) = iter.next_chunk(c) {
                let begin_idx = offset + chunk.begin_idx;""", """            let mut buffered = iter.buffered_iter(c);
            while let Some(chunk) = buffered.next() {
                let begin_idx = offset + chunk.begin_idx;""", 'C13-BUFSITE')
