#!/usr/bin/env python3
"""dev helper: run a list of rules on a fact file and print findings"""
import sys, os
sys.path.insert(0, os.path.dirname(os.path.dirname(os.path.abspath(__file__))))
from sa.facts import load_facts
from sa.engine import Ctx, run_rules, RULES
from sa.properties import load_rules
load_rules()
facts = sys.argv[1]
rules = sys.argv[2:] or sorted(RULES)
ctx = Ctx(load_facts(facts), os.environ.get('TIER', 'quick'), fixture=bool(os.environ.get('FIXTURE')))
for o in run_rules(ctx, rules):
    print('%-16s inst=%-4d bad=%-3d findings=%-3d %.2fs %s' % (o.rule, len(o.instances), sum(1 for i in o.instances if not i['ok']), len(o.findings), o.wall_s, o.counts))
    for f in o.findings:
        print('    ', f.kind, f.key, '|', f.where, '|', f.msg[:200])
        if os.environ.get('DETAIL'): print('        ', f.detail)
