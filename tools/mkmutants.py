#!/usr/bin/env python3
"""(re)generate the patch corpus from tools/mutants_src.py and test every patch against the current rules.
usage: tools/mkmutants.py [--only PID[,PID]] [--name substr]"""
import sys, os, shutil, subprocess, tempfile, json
from concurrent.futures import ThreadPoolExecutor
V = os.path.dirname(os.path.dirname(os.path.abspath(__file__)))
sys.path.insert(0, V)
sys.path.insert(0, os.path.join(V, 'tools'))
import mutants_src
from sa.runner import run_mutant
from sa.properties import load_rules
load_rules()
REPO = '/repo'
only = None
namef = None
for i, a in enumerate(sys.argv):
    if a == '--only': only = sys.argv[i + 1].split(',')
    if a == '--name': namef = sys.argv[i + 1]

def make_patch(file, old, new, occ, out):
    src = open(os.path.join(REPO, file)).read()
    if src.count(old) < occ + 1:
        return 'old text not found (%d occurrences)' % src.count(old)
    idx = -1
    for _ in range(occ + 1):
        idx = src.index(old, idx + 1)
    dst = src[:idx] + new + src[idx + len(old):]
    tmp = tempfile.mkdtemp(prefix='mk-')
    try:
        a = os.path.join(tmp, 'a', file); b = os.path.join(tmp, 'b', file)
        os.makedirs(os.path.dirname(a)); os.makedirs(os.path.dirname(b))
        open(a, 'w').write(src); open(b, 'w').write(dst)
        r = subprocess.run(['diff', '-u', os.path.join('a', file), os.path.join('b', file)], cwd=tmp, stdout=subprocess.PIPE, text=True)
        os.makedirs(os.path.dirname(out), exist_ok=True)
        open(out, 'w').write(r.stdout)
    finally:
        shutil.rmtree(tmp)
    return None

jobs = []
for (pid, name, file, old, new, rule, occ) in mutants_src.M:
    if only and pid not in only: continue
    if namef and namef not in name: continue
    out = os.path.join(V, 'mutants', pid, name + '.patch')
    err = make_patch(file, old, new, occ, out)
    jobs.append(('seeded', pid, name, out, rule, err))
for (pid, name, file, old, new, occ) in mutants_src.B:
    if only and pid not in only: continue
    if namef and namef not in name: continue
    out = os.path.join(V, 'mutants', 'benign', pid, name + '.patch')
    err = make_patch(file, old, new, occ, out)
    jobs.append(('benign', pid, name, out, None, err))

def work(j):
    kind, pid, name, out, rule, err = j
    if err:
        return j, ('patch-error', [], err)
    return j, run_mutant(pid, REPO, out)

bad = 0
with ThreadPoolExecutor(max_workers=8) as ex:
    for j, (status, keys, note) in ex.map(work, jobs):
        kind, pid, name, out, rule, err = j
        ok = (kind == 'seeded' and status == 'reported' and any(k.startswith(rule) for k in keys)) or (kind == 'benign' and status == 'silent')
        if not ok: bad += 1
        print('%-4s %-7s %s/%-28s %-16s %s %s' % ('ok' if ok else 'BAD', kind, pid, name, status, [k[:70] for k in keys[:3]], note[-200:] if status in ('does-not-compile', 'patch-error', 'not-applicable') else ''))
print('bad:', bad)
