"""Rules decided by origin propagation on loop-free bodies (build step 2 of DESIGN section 10):
C12 (BASE, S7, FROM, S3, STORE, OBSERVE), C11 (RESOLVE, RUNNER, SPAWN, TASKARG, PULL), S5,
C02-MINIDX/ANYALL, C03-MAYBE/OUTER/WRAP, C04-SUM/FOREACH, C08-GUARD/MAX/SEQ/CALLER, C10-SIGNAL/NOPULL/STOPSPAWN."""
import itertools
from .engine import rule, RuleOut, key_of
from .facts import strip_generics, callee_of
from .lib import *
from .terms import *
from .terms import TOP
from .slots import PAR_TRAIT, IS_SEQ, SCOPE_SPAWN
from .rules_struct import COLLECT_INTO_CORE, FIND_FAMILY, early_exit_tasks, params_args
from . import lin

PARAMS = 'params::Params'
NUM_THREADS = 'num_threads::NumThreads'
CHUNK_SIZE = 'chunk_size::ChunkSize'
RESOLVED = 'chunk_size::ResolvedChunkSize'
RUNNER = 'core::runner::Runner'
OPTION = 'std::option::Option'


def P(n):
    return ('param', n)


def adt_of_local(body, l):
    h = body.locals[l]['head']
    while h.startswith('ref:'):
        h = h[4:]
    return h[4:] if h.startswith('adt:') else None


def params_origin_ok(ctx, body, term):
    """is `term` the Params this body received: a Params-typed parameter, or the `params` field of a parameter whose type
    is a struct with a `params: Params` field"""
    F = ctx.facts
    if term is None:
        return False
    if term[0] == 'param':
        for l in body.arg_locals():
            if (body.local_name(l) or '_%d' % l) == term[1] and body.locals[l]['ty'].endswith(PARAMS):
                return True
        return False
    if term[0] == 'field' and term[1][0] == 'param' and term[2] is None:
        for l in body.arg_locals():
            if (body.local_name(l) or '_%d' % l) == term[1][1]:
                adt = adt_of_local(body, l)
                if adt and adt in F.adts:
                    try:
                        return F.field_index(adt, 'params') == term[3]
                    except KeyError:
                        return False
    return False


def resolve_params_observer(ctx, body, term, depth=0):
    """`Par::params(x)` is the params field of x (every impl of params() returns self.params - decided by C12-OBSERVE):
    rewritten to the field of a parameter, or to the params component of a pipeline struct built in place"""
    if term is None or depth > 4 or term[0] != 'call' or not term_callee(term).endswith('::params') or len(term[2]) != 1:
        return term
    if not (term_callee(term).startswith(PAR_TRAIT + '::') or term_callee(term).startswith('par::')):
        return term
    x = term[2][0]
    while x is not None and x[0] in ('ref', 'mut') and isinstance(x[1], tuple):
        x = x[1]
    F = ctx.facts
    if x is not None and x[0] == 'param':
        for l in body.arg_locals():
            if (body.local_name(l) or '_%d' % l) == x[1]:
                adt = adt_of_local(body, l)
                if adt and adt in F.adts:
                    try:
                        return ('field', x, None, F.field_index(adt, 'params'))
                    except KeyError:
                        return term
    if x is not None and x[0] == 'variant' and x[1] in F.adts:
        try:
            return resolve_params_observer(ctx, body, x[3][F.field_index(x[1], 'params')], depth + 1)
        except (KeyError, IndexError):
            return term
    return term


def self_params_term(ctx, body):
    """the term `self.params` inside a method of a Par struct"""
    adt = None
    for l in body.arg_locals():
        if body.local_name(l) == 'self':
            adt = adt_of_local(body, l)
    if adt is None:
        return None
    return ('field', P('self'), None, ctx.facts.field_index(adt, 'params')), adt


# ======================================================================================= S5
@rule('S5', 'DEFAULT-FNS: map_self is the identity and no_filter is constantly true')
def s5(ctx):
    out = RuleOut('S5')
    F = ctx.facts
    n = 0
    for suffix, want in (('default_fns::map_self', 'identity'), ('default_fns::no_filter', 'true')):
        bs = F.by_suffix(suffix)
        for b in bs:
            n += 1
            r = ctx.run(b.name)
            a0 = P(b.local_name(1) or '_1')
            ok = (r.ret == a0) if want == 'identity' else (r.ret == ('const', 1))
            out.inst('S5/' + key_of(b), ok, t_str(r.ret), sample={'fn': key_of(b), 'ret': t_str(r.ret)})
            if not ok:
                out.fail('S5/' + key_of(b), '%s must be %s but returns %s: it stands for "no stage" in every terminal' % (key_of(b), want, t_str(r.ret)), b.where())
    out.floor('default_fns', n, 2 if not ctx.fixture else 0)
    # every use of the two as a stage: counted only
    uses = 0
    for b in F.fn_bodies():
        for st in (s for blk in b.blocks.values() for s in blk['stmts']):
            pass
        for _, t in b.calls():
            for a in t['args']:
                if a.get('k') == 'fn' and a['path'].endswith(('default_fns::map_self', 'default_fns::no_filter')):
                    uses += 1
    out.count('uses_as_stage', uses)
    return out


# ======================================================================================= C12
@rule('C12-BASE', 'defaults: a fresh computation carries Params{Auto, Auto}; every source builds it through that constructor')
def c12_base(ctx):
    out = RuleOut('C12-BASE')
    F = ctx.facts
    S = ctx.slots
    auto = ('variant', PARAMS, 0, (('variant', NUM_THREADS, F.variant_index(NUM_THREADS, 'Auto'), (), 'Auto'),
                                   ('variant', CHUNK_SIZE, F.variant_index(CHUNK_SIZE, 'Auto'), (), 'Auto')), 'Params')
    n = 0

    def defaults_resolved(t, depth=0):
        """replace argument-less calls of crate functions (`<NumThreads as Default>::default()`), which the inlining depth left
        as calls, by what they return"""
        if t is None or depth > 6:
            return t
        if t[0] == 'call' and not t[2] and t[1] in F.bodies and not ctx.cfg(F.bodies[t[1]]).loops():
            return defaults_resolved(ctx.run(t[1]).ret, depth + 1)
        if t[0] == 'call' and not t[2] and sg(t[1]).endswith('Default>::default'):
            for nm in F.bodies:
                if sg(nm) == sg(t[1]) or nm.endswith(t[1].split(' as ')[-1]) and nm.startswith('<' + t[1].split(' as ')[0].lstrip('<')):
                    return defaults_resolved(ctx.run(nm).ret, depth + 1)
        if t[0] == 'variant':
            return ('variant', t[1], t[2], tuple(defaults_resolved(x, depth + 1) for x in t[3]), t[4])
        return t

    for cn in S.constructors:
        b = F.bodies[cn]
        has_params_arg = any(b.locals[l]['ty'].endswith(PARAMS) for l in b.arg_locals())
        if has_params_arg:
            continue
        n += 1
        r = ctx.run(cn)
        adt = b.d['impl_self'][4:]
        idx = F.field_index(adt, 'params')
        got = r.ret[3][idx] if r.ret[0] == 'variant' and idx < len(r.ret[3]) else None
        got = defaults_resolved(got)
        ok = got == auto
        out.inst('C12-BASE/' + key_of(b), ok, t_str(got), sample={'ctor': key_of(b), 'params': t_str(got)})
        if not ok:
            out.fail('C12-BASE/' + key_of(b), '%s stores %s as params, expected Params{num_threads: Auto, chunk_size: Auto}' % (key_of(b), t_str(got)), b.where())
    out.floor('default_ctors', n, 1 if not ctx.fixture else 0)
    # sources: par()/into_par() return such a fresh computation, or a transformation applied to self (cloned/copied)
    m = 0
    for sn in S.sources:
        b = F.bodies[sn]
        r = ctx.run(sn)
        m += 1
        ok = False
        why = t_str(r.ret)[:160]
        for alt in alternatives(r.ret):
            if alt[0] == 'variant' and ('adt:' + alt[1]) in S.par_impl_types:
                idx = F.field_index(alt[1], 'params')
                ok = defaults_resolved(alt[3][idx]) == auto
            elif alt[0] == 'call' and term_callee(alt).startswith(PAR_TRAIT + '::') and alt[2] and alt[2][0] == P('self'):
                ok = True
            else:
                ok = False
            if not ok:
                break
        out.inst('C12-BASE/' + key_of(b), ok, why, sample={'source': key_of(b), 'ret': why})
        if not ok:
            out.fail('C12-BASE/' + key_of(b), '%s does not return a fresh computation with default params: %s' % (key_of(b), why), b.where())
    out.floor('sources', m, 29 if not ctx.fixture else 0)
    # NumThreads::default / ChunkSize::default
    for adt in (NUM_THREADS, CHUNK_SIZE):
        name = '<%s as std::default::Default>::default' % adt
        b = F.bodies.get(name)
        if b is None:
            out.fail('C12-BASE/default/%s' % adt, 'no Default impl found for %s' % adt, kind='anchor-missing')
            continue
        r = ctx.run(name)
        ok = r.ret[0] == 'variant' and r.ret[4] == 'Auto'
        out.inst('C12-BASE/default/%s' % adt, ok, t_str(r.ret), sample={'default': adt, 'value': t_str(r.ret)})
        if not ok:
            out.fail('C12-BASE/default/%s' % adt, '%s::default() is %s, expected Auto' % (adt, t_str(r.ret)), b.where())
    return out


def into_of(term, param):
    return term is not None and term[0] == 'call' and term_callee(term) in ('std::convert::Into::into', 'std::convert::From::from') \
        and len(term[2]) == 1 and term[2][0] == P(param)


@rule('S7', 'SETTERS: num_threads/chunk_size replace exactly one field of params and nothing else')
def s7(ctx):
    out = RuleOut('S7')
    F = ctx.facts
    S = ctx.slots
    # with_num_threads / with_chunk_size
    spec = {'with_num_threads': 0, 'with_chunk_size': 1}
    n = 0
    for m, fidx in spec.items():
        name = PARAMS + '::' + m
        b = F.bodies.get(name)
        if b is None:
            out.fail('S7/' + name, 'anchor missing: %s' % name, kind='anchor-missing')
            continue
        n += 1
        r = ctx.run(name)
        arg = b.local_name(2)
        ok = False
        if r.ret[0] == 'variant' and r.ret[1] == PARAMS and len(r.ret[3]) == 2:
            new, kept = r.ret[3][fidx], r.ret[3][1 - fidx]
            ok = into_of(new, arg) and kept == ('field', P('self'), None, 1 - fidx)
        out.inst('S7/' + name, ok, t_str(r.ret), sample={'fn': name, 'ret': t_str(r.ret)})
        if not ok:
            out.fail('S7/' + name, '%s = %s: must set field %d from its argument and keep the other field of self' % (name, t_str(r.ret), fidx), b.where())
    # the 16 trait setters
    k = 0
    for sn in S.setters:
        b = F.bodies[sn]
        m = b.d['method']
        sp = self_params_term(ctx, b)
        if sp is None:
            continue
        spt, adt = sp
        pidx = spt[3]
        fidx = 0 if m == 'num_threads' else 1
        arg = b.local_name(2)
        r = ctx.run(sn)
        k += 1
        want_new = None
        ok = False
        val = None
        ret = r.ret
        nfields = len(F.adts[adt]['variants'][0]['fields'])
        if ret[0] == 'upd' and ret[1] == P('self') and ret[2] == (None, pidx):
            val = ret[3]
        elif ret[0] == 'variant' and ret[1] == adt and len(ret[3]) == nfields:
            if all(ret[3][i] == ('field', P('self'), None, i) for i in range(nfields) if i != pidx):
                val = ret[3][pidx]
        if val is not None and val[0] == 'variant' and val[1] == PARAMS and len(val[3]) == 2:
            new, kept = val[3][fidx], val[3][1 - fidx]
            ok = into_of(new, arg) and kept == ('field', spt, None, 1 - fidx)
        out.inst('S7/' + key_of(b), ok, t_str(ret)[:200], sample={'setter': key_of(b), 'ret': t_str(ret)[:200]})
        if not ok:
            out.fail('S7/' + key_of(b), '%s returns %s: must return self with only params.%s replaced by its argument' % (key_of(b), t_str(ret)[:200], m), b.where())
    out.floor('with_fns', n, 2 if not ctx.fixture else 0)
    out.floor('setters', k, 16 if not ctx.fixture else 0)
    return out


def _variant_ctor(F, path):
    """('adt', idx, name) if `path` names an enum variant constructor of the crate"""
    if '::' not in path:
        return None
    adt, name = path.rsplit('::', 1)
    a = F.adts.get(adt)
    if a is None:
        return None
    for i, v in enumerate(a['variants']):
        if v['name'] == name:
            return (adt, i, name)
    return None


def eval_nonzero_case(ctx, t, v, zero, depth=0):
    """value of term t in the case `v == 0` (zero=True) or `v != 0`, interpreting NonZero::new / Option combinators"""
    F = ctx.facts
    if t is None or depth > 20:
        return t
    k = t[0]
    ev = lambda x: eval_nonzero_case(ctx, x, v, zero, depth + 1)
    if k == 'set':
        return mk_set([ev(x) for x in t[1]], 32)
    if k == 'call':
        c = term_callee(t)
        a = [ev(x) for x in t[2]]
        if c == 'std::num::NonZero::new' and len(a) == 1 and a[0] == v:
            return none() if zero else some(v)
        if c in ('std::option::Option::expect', 'std::option::Option::unwrap', 'std::option::Option::unwrap_unchecked') and a and a[0] is not None and a[0][0] == 'variant' and a[0][2] == 1:
            return a[0][3][0]
        if c == 'std::option::Option::map_or' and len(a) == 3 and a[0] is not None and a[0][0] == 'variant':
            if a[0][2] == 0:
                return a[1]
            f = a[2]
            if f[0] == 'fn':
                vc = _variant_ctor(F, f[1])
                if vc:
                    return ('variant', vc[0], vc[1], (a[0][3][0],), vc[2])
            return ('call', 'std::ops::Fn::call', (f, ('tuple', (a[0][3][0],))))
        if c in ('std::option::Option::map', 'std::option::Option::map_or_else') and a and a[0] is not None and a[0][0] == 'variant':
            if a[0][2] == 0:
                return none() if c.endswith('::map') else ('call', 'std::ops::Fn::call', (a[1], ('tuple', ())))
            f = a[1] if c.endswith('::map') else a[2]
            if f[0] == 'fn':
                vc = _variant_ctor(F, f[1])
                if vc:
                    r = ('variant', vc[0], vc[1], (a[0][3][0],), vc[2])
                    return some(r) if c.endswith('::map') else r
        if c == 'std::option::Option::unwrap_or' and len(a) == 2 and a[0] is not None and a[0][0] == 'variant':
            return a[0][3][0] if a[0][2] == 1 else a[1]
        return ('call', t[1], tuple(a))
    if k == 'variant':
        return ('variant', t[1], t[2], tuple(ev(x) for x in t[3]), t[4])
    if k == 'field':
        b = ev(t[1])
        return ctx.opa.proj(b, t[3], t[2]) if b is not None else None
    return t


@rule('C12-FROM', 'From<usize>: 0 converts to Auto, n>0 to Max(n) / Exact(n)')
def c12_from(ctx):
    out = RuleOut('C12-FROM')
    F = ctx.facts
    n = 0
    for adt, var in ((NUM_THREADS, 'Max'), (CHUNK_SIZE, 'Exact')):
        name = '<%s as std::convert::From<usize>>::from' % adt
        b = F.bodies.get(name)
        if b is None:
            out.fail('C12-FROM/' + adt, 'anchor missing: %s' % name, kind='anchor-missing')
            continue
        n += 1
        r = ctx.run(name)
        v = P(b.local_name(1))
        nz_new = ('call', 'std::num::NonZero::<T>::new', (v,))
        probs = []
        shown = []
        edges = list(r.ret_edges.values()) or [(r.ret, frozenset())]
        cover = {True: False, False: False}
        for (val, pc) in edges:
            cases = {True, False}
            for (t, f) in pc:
                if t == v:
                    if f == ('eq', 0):
                        cases &= {True}
                    elif f[0] == 'ne' and 0 in f[1]:
                        cases &= {False}
                elif t[0] == 'discr' and t[1][0] == 'call' and term_callee(t[1]) == 'std::num::NonZero::new' and t[1][2] == (v,):
                    if f == ('eq', 0):
                        cases &= {True}
                    elif f == ('eq', 1) or (f[0] == 'ne' and 0 in f[1]):
                        cases &= {False}
            for zero in sorted(cases):
                got = eval_nonzero_case(ctx, val, v, zero)
                cover[zero] = True
                for alt in alternatives(got):
                    shown.append('%s => %s' % ('0' if zero else 'n>0', t_str(alt)[:80]))
                    if zero:
                        ok = alt is not None and alt[0] == 'variant' and alt[1] == adt and alt[4] == 'Auto'
                        if not ok:
                            probs.append('value 0 converts to %s, expected Auto' % t_str(alt)[:100])
                    else:
                        ok = (alt is not None and alt[0] == 'variant' and alt[1] == adt and alt[4] == var and len(alt[3]) == 1
                              and any(x == v for x in subterms(alt[3][0])) and
                              all(x[0] in ('call', 'param', 'const', 'field', 'variant') for x in subterms(alt[3][0])) and
                              all(term_method(x) in ('new', 'expect', 'unwrap', 'new_unchecked', 'get') for x in subterms(alt[3][0]) if x[0] == 'call'))
                        if not ok:
                            probs.append('value n>0 converts to %s, expected %s(n)' % (t_str(alt)[:100], var))
        if not (cover[True] and cover[False]):
            probs.append('not every case (0 / n>0) reaches a return')
        out.inst('C12-FROM/' + adt, not probs, ' | '.join(sorted(set(shown))), sample={'from_usize': adt, 'cases': sorted(set(shown))})
        for p_ in sorted(set(probs)):
            out.fail('C12-FROM/' + adt, '%s: %s' % (name, p_), b.where())
    out.floor('from_impls', n, 2 if not ctx.fixture else 0)
    return out


@rule('S3', 'PARAMS-FLOW: the Params handed to a kernel, runner or new pipeline stage is the one the function received, unmodified')
def s3(ctx):
    out = RuleOut('S3')
    F = ctx.facts
    S = ctx.slots
    hosts = set(S.par_methods) | set(S.inherent_terminals) | set(S.par_entries) | set(S.sources)
    for b in F.bodies.values():
        if b.d.get('impl_trait') == COLLECT_INTO_CORE:
            hosts.add(b.name)
    # any function that has a Params parameter and calls something with a Params argument
    for b in F.fn_bodies():
        if any(b.locals[l]['ty'].endswith(PARAMS) for l in b.arg_locals()) and not b.name.startswith(PARAMS):
            hosts.add(b.name)
    n = 0
    for hn in sorted(hosts):
        b = F.bodies[hn]
        if b.d.get('derived'):
            continue
        r = None
        for bb, t in b.calls():
            idx = params_args(b, t)
            if not idx:
                continue
            if hn in S.setters and callee_of(t) in S.constructors:
                continue      # a setter that rebuilds Self: the params it builds are decided by S7
            r = r or ctx.run(hn)
            c = r.calls.get(bb)
            if c is None:
                continue   # unreachable under sparse propagation
            for i in idx:
                n += 1
                term = c['args'][i]
                ok = all(params_origin_ok(ctx, b, resolve_params_observer(ctx, b, a)) for a in alternatives(term))
                callee = res(t)
                key = 'S3/%s/%s' % (key_of(b), callee.split('::')[-1])
                out.inst(key, ok, t_str(term)[:120], sample={'in': key_of(b), 'callee': callee, 'params_arg': t_str(term)[:160]})
                if not ok:
                    out.fail(key, '%s passes %s as Params to %s instead of the Params it received' % (key_of(b), t_str(term)[:160], callee), b.where(t.get('line')))
    out.floor('params_args', n, 40 if not ctx.fixture else 0)
    return out


@rule('C12-STORE', 'constructors store their params argument, destructors return it, transformations hand on self.params')
def c12_store(ctx):
    out = RuleOut('C12-STORE')
    F = ctx.facts
    S = ctx.slots
    n = 0
    for cn in S.constructors:
        b = F.bodies[cn]
        pl = [l for l in b.arg_locals() if b.locals[l]['ty'].endswith(PARAMS)]
        if not pl:
            continue
        n += 1
        r = ctx.run(cn)
        adt = b.d['impl_self'][4:]
        idx = F.field_index(adt, 'params')
        got = r.ret[3][idx] if r.ret[0] == 'variant' and r.ret[1] == adt else None
        ok = got == P(b.local_name(pl[0]))
        out.inst('C12-STORE/' + key_of(b), ok, t_str(got), sample={'ctor': key_of(b), 'params_field': t_str(got)})
        if not ok:
            out.fail('C12-STORE/' + key_of(b), '%s stores %s in the params field instead of its params argument' % (key_of(b), t_str(got)), b.where())
    out.floor('ctors', n, 5 if not ctx.fixture else 0)
    d = 0
    for b in F.bodies.values():
        if b.kind == 'AssocFn' and b.d.get('impl_self') in S.par_impl_types and not b.d.get('impl_trait') and b.d['method'].startswith('destruct'):
            d += 1
            r = ctx.run(b.name)
            sp = self_params_term(ctx, b)
            ok = False
            if sp and r.ret[0] == 'tuple':
                cnt = sum(1 for x in r.ret[1] if x == sp[0])
                others = [x for x in r.ret[1] if x != sp[0] and (x[0] == 'variant' and x[1] == PARAMS)]
                ok = cnt == 1 and not others
            out.inst('C12-STORE/' + key_of(b), ok, t_str(r.ret)[:160], sample={'destruct': key_of(b), 'ret': t_str(r.ret)[:200]})
            if not ok:
                out.fail('C12-STORE/' + key_of(b), '%s does not return self.params exactly once: %s' % (key_of(b), t_str(r.ret)[:200]), b.where())
    out.floor('destructors', d, 6 if not ctx.fixture else 0)
    # step: the params field of what a transformation returns
    k = 0
    for tn in S.transformations:
        b = F.bodies[tn]
        sp = self_params_term(ctx, b)
        if sp is None:
            continue
        r = ctx.run(tn)
        k += 1
        probs = []
        for alt in alternatives(r.ret):
            if alt[0] == 'variant' and ('adt:' + alt[1]) in S.par_impl_types:
                idx = F.field_index(alt[1], 'params')
                if resolve_params_observer(ctx, b, alt[3][idx]) != sp[0]:
                    probs.append('returns a %s whose params is %s, not self.params' % (alt[1].split('::')[-1], t_str(alt[3][idx])[:120]))
            elif alt[0] == 'call' and term_callee(alt).startswith(PAR_TRAIT + '::') and alt[2]:
                pass   # delegated to another transformation (decided there)
            else:
                probs.append('returns %s, which is neither a pipeline struct nor another transformation of self' % t_str(alt)[:120])
        out.inst('C12-STORE/' + key_of(b), not probs, 'params field = self.params', sample={'transformation': key_of(b), 'ret': t_str(r.ret)[:200]})
        for p in probs:
            out.fail('C12-STORE/' + key_of(b), '%s %s' % (key_of(b), p), b.where())
    out.floor('transformations', k, 32 if not ctx.fixture else 0)
    return out


@rule('C12-OBSERVE', 'params() reports the params field')
def c12_observe(ctx):
    out = RuleOut('C12-OBSERVE')
    F = ctx.facts
    S = ctx.slots
    for on in S.observers:
        b = F.bodies[on]
        sp = self_params_term(ctx, b)
        r = ctx.run(on)
        ok = sp is not None and r.ret == sp[0]
        out.inst('C12-OBSERVE/' + key_of(b), ok, t_str(r.ret), sample={'fn': key_of(b), 'ret': t_str(r.ret)})
        if not ok:
            out.fail('C12-OBSERVE/' + key_of(b), '%s returns %s instead of self.params' % (key_of(b), t_str(r.ret)), b.where())
    out.floor('observers', len(S.observers), 8 if not ctx.fixture else 0)
    return out


# ======================================================================================= C11
def exact_seed(F, x='X'):
    X = P(x)
    ex = ('variant', CHUNK_SIZE, F.variant_index(CHUNK_SIZE, 'Exact'), (X,), 'Exact')
    rx = ('variant', RESOLVED, F.variant_index(RESOLVED, 'Exact'), (X,), 'Exact')
    return X, ex, rx


def resolved_exact_ok(F, term, X):
    """Exact(p) where p is X, or X clamped from above by (at least) the input length: min(X, len) / min(X, max(len, k)).
    A pull of min(X, len) elements from a source of len elements is the same pull as one of X elements."""
    if not (term is not None and term[0] == 'variant' and term[1] == RESOLVED and term[4] == 'Exact' and len(term[3]) == 1):
        return False

    def is_len(t):
        return t[0] == 'field' and t[2] == 1 and t[3] == 0 and t[1][0] == 'param' and 'len' in t[1][1]

    def at_least_len(t):
        if is_len(t):
            return True
        if t[0] == 'call' and term_callee(t) in ('std::cmp::Ord::max', 'std::cmp::max') and len(t[2]) == 2:
            return any(at_least_len(x) for x in t[2])
        return False

    for p in alternatives(term[3][0]):
        if p == X:
            continue
        if p[0] == 'call' and term_callee(p) in ('std::cmp::Ord::min', 'std::cmp::min') and len(p[2]) == 2 and X in p[2]:
            other = p[2][1] if p[2][0] == X else p[2][0]
            if at_least_len(other):
                continue
        return False
    return True


@rule('C11-RESOLVE', 'calc_chunk_size(Exact(x)) = Exact(x) (or x clamped by the input length); Runner::new stores it; the only Runner literal is in Runner::new')
def c11_resolve(ctx):
    out = RuleOut('C11-RESOLVE')
    F = ctx.facts
    X, ex, rx = exact_seed(F)
    calc = F.one('runner_settings::chunk_size::calc_chunk_size')
    args = []
    for l in calc.arg_locals():
        args.append(ex if calc.locals[l]['ty'].endswith(CHUNK_SIZE) else P(calc.local_name(l)))
    r = ctx.opa.run(calc.name, args)
    ok = r.ret == rx or resolved_exact_ok(F, r.ret, X)
    out.inst('C11-RESOLVE/calc_chunk_size', ok, t_str(r.ret), sample={'seed': 'chunk_size = Exact(X)', 'ret': t_str(r.ret)})
    if not ok:
        out.fail('C11-RESOLVE/calc_chunk_size', 'calc_chunk_size(Exact(X)) = %s, expected ResolvedChunkSize::Exact(X)' % t_str(r.ret), calc.where())
    new = F.one('core::runner::Runner::new')
    args = []
    for l in new.arg_locals():
        if new.locals[l]['ty'].endswith(PARAMS):
            args.append(('variant', PARAMS, 0, (P('NT'), ex), 'Params'))
        else:
            args.append(P(new.local_name(l)))
    r = ctx.opa.run(new.name, args)
    idx = F.field_index(RUNNER, 'chunk_size')
    got = r.ret[3][idx] if r.ret[0] == 'variant' and r.ret[1] == RUNNER else None
    ok = got == rx or resolved_exact_ok(F, got, X)
    out.inst('C11-RESOLVE/Runner::new', ok, t_str(got), sample={'seed': 'params.chunk_size = Exact(X)', 'runner.chunk_size': t_str(got)})
    # the length that may clamp the chunk size is the length of the very source the workers pull from
    for en in ctx.slots.runner_entries:
        eb = F.bodies[en]
        er = ctx.run0(en)
        for bb, c in er.call_sites():
            if callee_of(c['t']) == new.name:
                li = [i for i, l in enumerate(new.arg_locals()) if 'Option<usize>' in new.locals[l]['ty']]
                iters = [P(eb.local_name(l)) for l in eb.arg_locals() if local_type_param(eb, l) and 'ConcurrentIter' in str(eb.d.get('fn_bounds')) or eb.local_name(l) == 'iter']
                for i in li:
                    a = c['args'][i] if i < len(c['args']) else None
                    okl = a is not None and a[0] == 'call' and coniter_term_is(a, {'try_get_len'}) and a[2] and a[2][0] in iters
                    out.inst('C11-RESOLVE/input_len/%s' % key_of(eb), okl, t_str(a)[:80], sample={'entry': key_of(eb), 'input_len': t_str(a)[:100]})
                    if not okl:
                        out.fail('C11-RESOLVE/input_len/%s' % key_of(eb), '%s resolves the settings with input length %s, not with try_get_len() of the iterator the workers pull from'
                                 % (key_of(eb), t_str(a)[:100]), eb.where(c['line']))
    if not ok:
        out.fail('C11-RESOLVE/Runner::new', 'Runner::new stores %s as chunk_size for ChunkSize::Exact(X)' % t_str(got), new.where())
    # sole construction site / no later assignment to the field
    lits = []
    for b in F.fn_bodies():
        for blk in b.blocks.values():
            for st in blk['stmts']:
                rv = st['rv']
                if rv['r'] == 'agg' and rv.get('ak') == 'adt' and rv.get('adt') == RUNNER:
                    lits.append((b, st.get('line')))
                lhs = st['lhs']
                if lhs['p'] and adt_of_local(b, lhs['l']) == RUNNER and any(isinstance(p, dict) and p.get('n') in ('chunk_size', 'max_num_threads') for p in lhs['p']):
                    out.fail('C11-RESOLVE/field-assign/%s' % key_of(b), '%s assigns a field of Runner after construction' % key_of(b), b.where(st.get('line')))
    for (b, line) in lits:
        if b.name != new.name:
            out.fail('C11-RESOLVE/literal/%s' % key_of(b), 'a Runner is constructed outside Runner::new in %s' % key_of(b), b.where(line))
    out.floor('runner_literals', len(lits), 1 if not ctx.fixture else 0)
    inner = F.one('chunk_size::ResolvedChunkSize::inner')
    r = ctx.opa.run(inner.name, [rx])
    ok = r.ret == X
    out.inst('C11-RESOLVE/inner', ok, t_str(r.ret), sample={'seed': 'self = Exact(X)', 'inner': t_str(r.ret)})
    if not ok:
        out.fail('C11-RESOLVE/inner', 'ResolvedChunkSize::inner(Exact(X)) = %s' % t_str(r.ret), inner.where())
    return out


def runner_seed(F, rx):
    fields = []
    for f in F.adts[RUNNER]['variants'][0]['fields']:
        fields.append(rx if f['name'] == 'chunk_size' else P('runner.' + f['name']))
    return ('variant', RUNNER, 0, tuple(fields), 'Runner')


@rule('C11-RUNNER', 'next_chunk_size* with chunk_size = Exact(x) only ever return None or Some(x)')
def c11_runner(ctx):
    out = RuleOut('C11-RUNNER')
    F = ctx.facts
    X, ex, rx = exact_seed(F)
    runner = runner_seed(F, rx)
    n = 0
    allowed = {none(), some(X)}
    for b in F.fn_bodies():
        if b.d.get('impl_self') != 'adt:' + RUNNER or b.kind != 'AssocFn':
            continue
        if 'Option<usize>' not in b.d.get('ret_ty', ''):
            continue
        n += 1
        args = [runner if adt_of_local(b, l) == RUNNER else P(b.local_name(l)) for l in b.arg_locals()]
        r = ctx.opa.run(b.name, args)
        alts = alternatives(r.ret)
        flat = []
        for a in alts:
            if a[0] == 'variant' and a[4] == 'Some' and a[3][0][0] == 'set':
                flat.extend(('variant', a[1], a[2], (x,), 'Some') for x in a[3][0][1])
            else:
                flat.append(a)
        bad = [a for a in flat if a not in allowed]
        out.inst('C11-RUNNER/' + key_of(b), not bad, t_str(r.ret), sample={'fn': key_of(b), 'seed': 'self.chunk_size = Exact(X)', 'ret': t_str(r.ret)})
        for a in bad:
            out.fail('C11-RUNNER/' + key_of(b), '%s can return %s for an Exact(X) chunk size (only None or Some(X) keep the size exact)' % (key_of(b), t_str(a)[:200]), b.where())
    out.floor('next_chunk_size_fns', n, 1 if not ctx.fixture else 0)
    return out


@rule('C11-SPAWN', 'every spawned worker receives inner(runner.chunk_size) or the payload of next_chunk_size, unmodified')
def c11_spawn(ctx):
    out = RuleOut('C11-SPAWN')
    F = ctx.facts
    S = ctx.slots
    from .rules_tasks import spawn_model
    M = spawn_model(ctx)
    X, ex, rx = exact_seed(F)
    runner = runner_seed(F, rx)
    n = 0
    for hn, h in sorted(M.hosts.items()):
        hb = h['body']
        hk = key_of(hb)
        # seed the runner the host works with: a captured `runner` or the `self` parameter
        if hb.is_closure():
            caps = hb.d.get('captures', [])
            if 'runner' not in [c.lstrip('*') for c in caps]:
                out.fail('C11-SPAWN/%s/runner' % hk, 'the spawn loop in %s does not capture a `runner`: cannot seed the chunk-size chain' % hk, hb.where(), kind='undecided')
                continue
            capterms = tuple(runner if c.lstrip('*') == 'runner' else P('cap:' + c) for c in caps)
            args = [('closure', hn, capterms)] + [P(hb.local_name(l)) for l in hb.arg_locals()[1:]]
        else:
            args = [runner if adt_of_local(hb, l) == RUNNER else P(hb.local_name(l) or '_%d' % l) for l in hb.arg_locals()]
            if runner not in args:
                out.fail('C11-SPAWN/%s/runner' % hk, 'the spawn loop in %s has no Runner parameter: cannot seed the chunk-size chain' % hk, hb.where(), kind='undecided')
                continue
        r = ctx.opa.run(hn, args)
        cfg = ctx.cfg(hb)
        seen = set()
        for ev in h['events']:
            if ev.bb in seen:
                continue
            seen.add(ev.bb)
            n += 1
            c = r.calls.get(ev.bb)
            key = 'C11-SPAWN/%s/%s' % (hk, 'in-loop' if cfg.innermost_loop(ev.bb) is not None else 'trailing')
            ct = None
            if c is not None:
                if ev.kind == 'direct':
                    from .spawnmodel import spawn_of_term
                    spt = spawn_of_term(c['res'])
                    sp = spt[0] if spt else (c['args'][1] if len(c['args']) > 1 else None)
                    if sp is not None and sp[0] == 'closure':
                        sb = F.bodies[sp[1]]
                        scaps = sb.d.get('captures', [])
                        cts = [sp[2][i] for i, cn in enumerate(scaps) if i < len(sp[2]) and 'chunk' in cn]
                        ct = cts[0] if cts else None
                else:
                    a = c['args'][1]
                    ct = a[1][0] if a[0] == 'tuple' and len(a[1]) == 1 else None
            vals = set()
            todo = list(alternatives(ct)) if ct is not None else []
            seenp = set()
            while todo:
                x = todo.pop()
                if x[0] == 'phi':
                    k = (x[1], x[2])
                    if k in seenp:
                        continue
                    seenp.add(k)
                    todo.extend(alternatives(r.init.get(k)))
                    for rec in r.recur.get(k, ()):
                        todo.extend(a for a in alternatives(rec) if a != x)
                else:
                    vals.add(x)
            ok = ct is not None and vals == {X}
            out.inst(key, ok, ' | '.join(sorted(t_str(v)[:80] for v in vals)), sample={'host': hk, 'seed': 'runner.chunk_size = Exact(X)', 'chunk_handed_to_worker': sorted(t_str(v)[:120] for v in vals)})
            if not ok:
                out.fail(key, 'a worker spawned by %s receives chunk size %s under Exact(X): the size is changed between the runner and the task'
                         % (hk, ' | '.join(sorted(t_str(v)[:120] for v in vals)) or 'unknown'), hb.where(ev.c['line']))
            # from the event to thread_task: the spawner / spawned closures pass the chunk on unmodified
            site = ev.site
            sp = site.spawned
            ok2 = False
            why2 = 'spawned value is not a closure literal'
            if sp is not None and sp[0] == 'closure':
                sb = F.bodies[sp[1]]
                scaps = sb.d.get('captures', [])
                capt = [sp[2][i] for i, cn in enumerate(scaps) if i < len(sp[2]) and 'chunk' in cn]
                if ev.kind == 'via-closure':
                    # the spawner's own chunk argument is what the spawned closure captures
                    spawner_arg = P(site.body.local_name(2) or '_2')
                    okc = capt == [spawner_arg]
                else:
                    okc = bool(capt)
                r2 = ctx.run(sb.name)
                calls = [cc for _, cc in r2.call_sites() if is_user_closure_call(cc['t'], sb)]
                okp = len(calls) == 1 and calls[0]['args'][1][0] == 'tuple' and len(calls[0]['args'][1][1]) == 1 and \
                    calls[0]['args'][1][1][0][0] == 'param' and 'chunk' in calls[0]['args'][1][1][0][1]
                ok2 = okc and okp
                why2 = 'spawned closure captures %s and calls thread_task(%s)' % ([t_str(x) for x in capt], t_str(calls[0]['args'][1]) if calls else '-')
            out.inst(key + '/pass', ok2, why2)
            if not ok2:
                out.fail(key + '/pass', 'the closure spawned for %s does not hand the chunk size it was given to thread_task unmodified (%s)' % (hk, why2), site.body.where(site.c['line']))
    out.floor('spawn_events', n, 2 if not ctx.fixture else 0)
    return out


def task_chunk_param(body):
    """the task parameter that receives the chunk size: its last usize parameter"""
    c = [l for l in body.arg_locals() if body.locals[l]['ty'] == 'usize']
    named = [l for l in c if (body.local_name(l) or '').startswith('chunk')]
    return (named or c or [None])[-1]


@rule('C11-TASKARG', 'every thread_task closure hands its argument to the task as the chunk size')
def c11_taskarg(ctx):
    out = RuleOut('C11-TASKARG')
    F = ctx.facts
    S = ctx.slots
    n = 0
    for (bn, bb), (clo, fns) in sorted(S.task_of_site.items()):
        if clo == '<wrapper>':
            continue        # a wrapper around the runner: judged at the closure literals its callers hand to it (their own entries below)
        if clo is None:
            out.fail('C11-TASKARG/%s' % key_of(F.bodies[bn]), 'the thread_task argument of the runner call is not a closure literal', F.bodies[bn].where(), kind='undecided')
            continue
        cb = F.bodies[clo]
        r = ctx.run(clo)
        carg = P(cb.local_name(2) or '_2')
        for cbb, c in r.call_sites():
            tn = callee_of(c['t'])
            if tn not in fns:
                continue
            n += 1
            tb = F.bodies[tn]
            pl = task_chunk_param(tb)
            key = 'C11-TASKARG/%s' % key_of(F.bodies[bn])
            ok = pl is not None and c['args'][pl - 1] == carg
            out.inst(key, ok, t_str(c['args'][pl - 1]) if pl else 'no usize param', sample={'par_entry': key_of(F.bodies[bn]), 'task': key_of(tb), 'chunk_arg': t_str(c['args'][pl - 1]) if pl else None})
            if not ok:
                out.fail(key, '%s: the closure given to the runner passes %s as chunk size to %s instead of its own argument' %
                         (key_of(F.bodies[bn]), t_str(c['args'][pl - 1]) if pl else '?', key_of(tb)), cb.where(c['line']))
    out.floor('task_calls', n, 6 if not ctx.fixture else 0)
    return out


@rule('C11-PULL', 'every sized pull of a task takes the task\'s chunk_size parameter; element-wise pulls occur only when it is 1')
def c11_pull(ctx):
    out = RuleOut('C11-PULL')
    F = ctx.facts
    S = ctx.slots
    n = 0
    def implies_one(pc, cs):
        return any(pt == cs and f == ('eq', 1) for pt, f in pc) or \
            any(pt in (('bin', 'Eq', cs, ('const', 1)), ('bin', 'Eq', ('const', 1), cs)) and lin.fact_truth(f) is True for pt, f in pc) or \
            any(pt in (('bin', 'Ne', cs, ('const', 1)), ('bin', 'Ne', ('const', 1), cs)) and lin.fact_truth(f) is False for pt, f in pc)

    def chunk_context(tn, depth=0):
        """(chunk-size term inside task tn or None, is chunk_size == 1 known for every execution of tn)"""
        b = F.bodies[tn]
        if tn in S.task_parent and depth < 3:
            disp, dbb = S.task_parent[tn]
            dcs, done = chunk_context(disp, depth + 1)
            dr = ctx.run(disp)
            c = dr.calls.get(dbb) if dbb is not None else None
            if c is None or dcs is None:
                return None, False
            one = done or implies_one(c['pc'], dcs)
            cs = None
            for i, a in enumerate(c['args']):
                if a == dcs and i < len(b.arg_locals()):
                    cs = P(b.local_name(b.arg_locals()[i]) or '_%d' % b.arg_locals()[i])
            return cs, one
        pl = task_chunk_param(b)
        return (P(b.local_name(pl)) if pl is not None else None), False

    for tn in sorted(S.tasks):
        b = F.bodies[tn]
        cs, one_ctx = chunk_context(tn)
        if cs is None and not one_ctx:
            out.fail('C11-PULL/%s' % key_of(b), 'task has no chunk size parameter', b.where(), kind='undecided')
            continue
        if cs is None:
            cs = P('$no-chunk-parameter')     # only element-wise pulls are acceptable in this task
        r = ctx.run(tn)
        from .rules_tasks import resolve_in_scope
        for cb in F.closures_in(b):
            rc = None
            for cbb, t in cb.calls():
                if not is_pull_call(t):
                    continue
                rc = rc or ctx.run(cb.name)
                c = rc.calls.get(cbb)
                if c is None:
                    continue
                n += 1
                key = 'C11-PULL/%s/%s' % (key_of(b), method(t))
                # where the closure is created: the path facts there guard what the closure may do
                creator = F.bodies.get(cb.parent)
                cpc = frozenset()
                if creator is not None:
                    rcr = ctx.run(creator.name)
                    for bbx, blk in creator.blocks.items():
                        if any(st['rv']['r'] == 'agg' and st['rv'].get('ak') == 'closure' and st['rv'].get('def') == cb.name for st in blk['stmts']):
                            cpc = rcr.state.get(bbx, {}).get('$pc', frozenset())
                if is_coniter_call(t, PULL_SIZED):
                    size = resolve_in_scope(ctx, b, cb, c['args'][1]) if len(c['args']) > 1 else None
                    ok = size == cs
                    out.inst(key, ok, t_str(size), sample={'task': key_of(b), 'pull': method(t), 'size': t_str(size), 'in_closure': key_of(cb)})
                    if not ok:
                        out.fail(key, '%s pulls (inside a closure) with size %s instead of its chunk_size parameter' % (key_of(b), t_str(size)[:120]), cb.where(c['line']))
                elif is_coniter_call(t, PULL_ELEMENT) and creator is not None and creator.name == b.name:
                    one = one_ctx or implies_one(cpc, cs)
                    out.inst(key, one, 'element-wise pull in a closure created under chunk_size == 1' if one else 'element-wise pull in a closure not guarded by chunk_size == 1')
                    if not one:
                        out.fail(key, '%s pulls element-wise (%s, inside a closure) on a path where chunk_size may differ from 1' % (key_of(b), method(t)), cb.where(c['line']))
                elif not is_buffered_next(t):
                    out.fail('C11-PULL/%s/closure-pull' % key_of(b), 'a pull (%s) happens inside a nested closure of the task: chunk-size provenance not decided there' % method(t), cb.where(t.get('line')), kind='undecided')
        for bb, c in r.call_sites():
            t = c['t']
            if is_coniter_call(t, PULL_SIZED):
                n += 1
                key = 'C11-PULL/%s/%s' % (key_of(b), method(t))
                size = c['args'][1] if len(c['args']) > 1 else None
                ok = size == cs
                out.inst(key, ok, t_str(size), sample={'task': key_of(b), 'pull': method(t), 'size': t_str(size)})
                if not ok:
                    out.fail(key, '%s pulls with size %s instead of its chunk_size parameter' % (key_of(b), t_str(size)[:120]), b.where(c['line']))
            elif is_coniter_call(t, PULL_ELEMENT):
                n += 1
                key = 'C11-PULL/%s/%s' % (key_of(b), method(t))
                one = one_ctx or implies_one(c['pc'], cs)
                if not one:
                    # the guard may sit in a helper (`match Pull::new(chunk_size) { OneByOne => .., InChunksOf(c) => .. }`): decided by
                    # re-executing the task with chunk_size != 1 - the element-wise pull must then be unreachable
                    def atoms(d, cs=cs):
                        if d == cs:
                            return 2
                        if d is not None and d[0] == 'bin' and d[1] in ('Eq', 'Ne') and ((d[2] == cs and d[3] == ('const', 1)) or (d[3] == cs and d[2] == ('const', 1))):
                            return d[1] == 'Ne'
                        return None
                    rr = ctx.opa.run(tn, seeds={'atoms': atoms, 'key': ('C11-PULL-ne1', tn)})
                    one = bb not in rr.visited and bb in r.visited
                out.inst(key, one, 'element-wise pull under chunk_size == 1' if one else 'element-wise pull not guarded by chunk_size == 1',
                         sample={'task': key_of(b), 'pull': method(t), 'guard': 'chunk_size == 1' if one else None})
                if not one:
                    out.fail(key, '%s pulls element-wise (%s) on a path where chunk_size may differ from 1' % (key_of(b), method(t)), b.where(c['line']))
    # pulls outside the worker tasks: nothing else may take elements from the shared source in a parallel run - such a pull is not
    # sized by the resolved chunk size, and it shifts every later pull off the aligned block boundaries
    inside = set()
    for tn in S.tasks:
        inside.add(tn)
        for cb in F.closures_in(F.bodies[tn], recursive=True):
            inside.add(cb.name)

    def only_from_tasks(name, seen):
        if name in inside:
            return True
        if name in seen:
            return True
        seen.add(name)
        bd = F.bodies[name]
        if bd.is_closure():
            return only_from_tasks(bd.parent, seen) if bd.parent in F.bodies else False
        cl = ctx.cg.callers(name, kinds=('direct', 'cha'))
        return bool(cl) and all(only_from_tasks(cn, seen) for (cn, k, cbb) in cl)

    n_out = 0
    for b in F.bodies.values():
        if b.name in inside:
            continue
        for bb, t in b.calls():
            if not (is_coniter_call(t, PULL_SIZED) or is_coniter_call(t, PULL_ELEMENT) or (is_pull_call(t) and not is_buffered_next(t))):
                continue
            if only_from_tasks(b.name, set()):
                n_out += 1
                continue
            key = 'C11-PULL/outside-task/%s/%s' % (key_of(b), method(t))
            out.inst(key, False, 'pull outside a worker task')
            out.fail(key, '%s takes elements from the shared source with `%s` outside the worker tasks: that pull is not sized by the chunk size, and every later pull starts off the aligned block boundary' % (key_of(b), method(t)), b.where(t.get('line')))
    out.count('helper_pulls_reached_only_from_tasks', n_out)
    out.floor('pull_sites', n, 10 if not ctx.fixture else 0)
    return out


@rule('C05-OUTSIDE', 'who-may-pull: in a parallel run only the worker tasks (and helpers reached only from them) take elements from the shared source')
def c05_outside(ctx):
    """The sweep of C11-PULL, as a rule of its own for the properties that speak of the elements rather than of the chunk size.  An
    element that something other than a worker task pulls from the shared source - a "head search" on the calling thread before the
    workers are spawned, a probe of the first element - is processed where none of the per-element rules looks: whether it is filtered,
    visited once, counted, on which thread it runs, whether the early-exit protocol knows about its match (`head(..).or(par_find(..))`
    starts the parallel search although the head already answered)."""
    out = RuleOut('C05-OUTSIDE')
    F = ctx.facts
    S = ctx.slots
    inside = set()
    for tn in list(S.tasks) + list(S.seq_kernels):
        inside.add(tn)
        for cb in F.closures_in(F.bodies[tn], recursive=True):
            inside.add(cb.name)

    def only_from_tasks(name, seen):
        if name in inside or name in seen:
            return True
        seen.add(name)
        bd = F.bodies[name]
        if bd.is_closure():
            return only_from_tasks(bd.parent, seen) if bd.parent in F.bodies else False
        cl = ctx.cg.callers(name, kinds=('direct', 'cha'))
        return bool(cl) and all(only_from_tasks(cn, seen) for (cn, k, cbb) in cl)
    n = 0
    for b in F.bodies.values():
        if b.name in inside:
            continue
        for bb, t in b.calls():
            if not (is_coniter_call(t, PULL_SIZED) or is_coniter_call(t, PULL_ELEMENT) or (is_pull_call(t) and not is_buffered_next(t))):
                continue
            n += 1
            if only_from_tasks(b.name, set()):
                out.inst('C05-OUTSIDE/%s/%s' % (key_of(b), method(t)), True, 'helper reached only from tasks')
                continue
            key = 'C05-OUTSIDE/%s/%s' % (key_of(b), method(t))
            out.inst(key, False, 'pull outside a worker task')
            out.fail(key, '%s takes elements from the shared source with `%s` outside the worker tasks and the sequential kernels: what happens to those elements is judged by none of the per-element rules' % (key_of(b), method(t)), b.where(t.get('line')))
    out.count('pulls_outside_task_bodies', n)
    out.floor('tasks', len(S.tasks), 6 if not ctx.fixture else 0)
    return out


# ======================================================================================= C02 / C03 / C04 reductions
def runner_reduce_sites(ctx):
    """(par entry body, bb, call record, task fns) for every call of a RunnerEntry that takes a `reduce` operator"""
    F = ctx.facts
    S = ctx.slots
    out = []
    for (bn, bb, entry) in S.runner_call_sites:
        eb = F.bodies[entry]
        fb = eb.fn_bounds()
        ridx = None
        for i, l in enumerate(eb.arg_locals()):
            ty = eb.locals[l]['ty'].lstrip('&').strip()
            if ty in fb and len(fb[ty]['by_ref']) == 2:
                ridx = i
        if ridx is None:
            continue
        r = ctx.run(bn)
        c = r.calls.get(bb)
        if c is None:
            continue
        out.append((F.bodies[bn], bb, c, ridx, S.task_of_site.get((bn, bb), (None, []))[1]))
    return out


def runner_result_option(r, c):
    """the Option-valued part of a runner call's result: the result itself, or the component of a returned tuple
    that the caller actually reads"""
    res_t = c['res']
    cands = []
    for x in _terms_of(r):
        if x[0] == 'field' and x[1] == res_t and x[2] is None:
            cands.append(x)
    cands = sorted(set(cands), key=lambda x: x[3])
    # a (count, Option<T>) tuple: the Option is the last component that is projected
    return cands[-1] if cands else res_t


def runner_cases(ctx, b, r, c):
    """what the kernel returns when the runner's combined result is None / Some(v)"""
    from .optcase import case_returns_rerun
    res_t = c['res']
    T = runner_result_option(r, c)
    if T == res_t:
        cases, V = case_returns_rerun(ctx, b.name, res_t)
    else:
        idx = T[3]
        width = max([x[3] for x in _terms_of(r) if x[0] == 'field' and x[1] == res_t and x[2] is None] + [idx]) + 1

        def build(opt):
            return ('tuple', tuple(opt if i == idx else ('field', res_t, None, i) for i in range(max(width, 2))))
        cases, V = case_returns_rerun(ctx, b.name, res_t, build)
    # a kernel that also contains the sequential route (`if params.is_sequential() { return seq.. }`) returns that route's value in
    # both cases: it does not depend on the runner and is judged by the sequential rules (C09-SEQSHAPE)
    try:
        common = set(cases['none']) & set(cases['some'])
        seq = {x for x in common if any(y[0] == 'call' and term_method(y) == 'into_seq_iter' for y in subterms(x))}
        if seq and (set(cases['none']) - seq) and (set(cases['some']) - seq):
            cases = dict(cases, none=type(cases['none'])(x for x in cases['none'] if x not in seq), some=type(cases['some'])(x for x in cases['some'] if x not in seq))
    except Exception:
        pass
    return cases, V


def _terms_of(r):
    seen = set()
    st = []
    for c in r.calls.values():
        st.extend(c['args'])
    for (v, pc) in r.ret_edges.values():
        st.append(v)
        st.extend(t for t, f in pc)
    if r.ret is not None:
        st.append(r.ret)
    for (d, tg) in r.switches.values():
        st.append(d)
    for t in st:
        for x in subterms(t):
            if x not in seen:
                seen.add(x)
                yield x


def eval_binary_closure(ctx, op, a, b, seeds=None):
    """result term of applying a closure / fn term `op` to (a, b)"""
    if op[0] == 'closure':
        return ctx.opa.run(op[1], [op, a, b], seeds or {}).ret
    if op[0] == 'fn':
        if op[1] in ctx.facts.bodies:
            return ctx.opa.run(op[1], [a, b], seeds or {}).ret
        return ('call', op[1], (a, b))
    return ('call', 'std::ops::Fn::call', (op, ('tuple', (a, b))))


@rule('C02-MINIDX', 'the cross-thread reduction of find results is min-by-index on its whole finite domain')
def c02_minidx(ctx):
    out = RuleOut('C02-MINIDX')
    find_tasks = set(early_exit_tasks(ctx))
    n = 0
    A = ('tuple', (P('a.idx'), P('a.val')))
    B = ('tuple', (P('b.idx'), P('b.val')))
    for (b, bb, c, ridx, tasks) in runner_reduce_sites(ctx):
        if not (set(tasks) & find_tasks):
            continue
        R = c['args'][ridx]
        key0 = 'C02-MINIDX/%s' % key_of(b)
        if R[0] not in ('closure', 'fn'):
            out.fail(key0, 'the reduction operator is not a closure literal: %s' % t_str(R)[:100], b.where(c['line']), kind='undecided')
            continue
        rows = []
        bad = []
        for ta, tb, order in itertools.product((0, 1), (0, 1), ('<', '=', '>')):
            if not (ta and tb) and order != '<':
                continue
            a = some(A) if ta else none()
            bt = some(B) if tb else none()

            def atoms(d, order=order):
                if d[0] != 'bin' or d[1] not in ('Lt', 'Le', 'Gt', 'Ge', 'Eq', 'Ne'):
                    return None
                x, y = d[2], d[3]
                ai, bi = P('a.idx'), P('b.idx')
                if (x, y) == (ai, bi):
                    rel = order
                elif (x, y) == (bi, ai):
                    rel = {'<': '>', '>': '<', '=': '='}[order]
                else:
                    return None
                return {'Lt': rel == '<', 'Le': rel in '<=', 'Gt': rel == '>', 'Ge': rel in '>=', 'Eq': rel == '=', 'Ne': rel != '='}[d[1]]
            res_t = eval_binary_closure(ctx, R, a, bt, {'atoms': atoms, 'key': ('minidx', ta, tb, order)})
            n += 1
            if ta and tb:
                want = {'<': {some(A)}, '>': {some(B)}, '=': {some(A), some(B)}}[order]
            elif ta:
                want = {some(A)}
            elif tb:
                want = {some(B)}
            else:
                want = {none()}
            got = set(alternatives(res_t))
            ok = bool(got) and got <= want
            rows.append('%s,%s,%s => %s' % ('Some' if ta else 'None', 'Some' if tb else 'None', order if ta and tb else '-', t_str(res_t)[:60]))
            if not ok:
                bad.append((ta, tb, order, res_t))
        out.inst(key0, not bad, '%d rows' % len(rows), sample={'par_entry': key_of(b), 'table': rows})
        for (ta, tb, order, res_t) in bad:
            out.fail(key0, '%s: the reduction of per-thread find results returns %s for (%s, %s, a.idx %s b.idx): not the match with the smaller source index'
                     % (key_of(b), t_str(res_t)[:120], 'Some(a)' if ta else 'None', 'Some(b)' if tb else 'None', order), b.where(c['line']),
                     {'operator': t_str(R)[:200]})
    out.floor('table_rows', n, 6 if not ctx.fixture else 0)
    return out


def norm_bool(t):
    """boolean normal form of is_some/is_none/Not"""
    neg = False
    while t is not None:
        if t[0] == 'un' and t[1] == 'Not':
            neg = not neg
            t = t[2]
        elif t[0] == 'bin' and t[1] in ('Eq', 'Ne') and t[3] in (('const', 0), ('const', 1)) and t[2] is not None and t[2][0] in ('call', 'un'):
            # `b == false`, `b != true` ..: a boolean compared with a constant
            if (t[1] == 'Eq') != (t[3][1] == 1):
                neg = not neg
            t = t[2]
        else:
            break
    if t is not None and t[0] == 'call' and term_callee(t) in ('std::option::Option::is_some', 'std::option::Option::is_none'):
        is_some = term_callee(t).endswith('is_some') != neg
        return ('is_some' if is_some else 'is_none', t[2][0])
    return ('not' if neg else 'id', t)


@rule('C02-ANYALL', 'any = find(p).is_some(); all = find(!p).is_none()')
def c02_anyall(ctx):
    out = RuleOut('C02-ANYALL')
    F = ctx.facts
    n = 0
    for m in ('any', 'all'):
        name = PAR_TRAIT + '::' + m
        b = F.bodies.get(name)
        if b is None:
            out.fail('C02-ANYALL/' + m, 'anchor missing: %s' % name, kind='anchor-missing')
            continue
        n += 1
        r = ctx.run(name)
        kind, inner = norm_bool(r.ret)
        pred = P(b.local_name(2))
        ok = False
        why = t_str(r.ret)[:200]
        if not (inner is not None and inner[0] == 'call' and term_callee(inner) == PAR_TRAIT + '::find'):
            # written as a branch (`match self.find(p) { Some(_) => true, None => false }`): evaluate the body for both cases of the
            # find result and rebuild the boolean normal form from the two answers
            from .optcase import case_returns_rerun
            fc = [c for _, c in r.call_sites() if sg(c['decl']) == PAR_TRAIT + '::find' and c['args'] and c['args'][0] == P('self')]
            if len(fc) == 1:
                cases, V = case_returns_rerun(ctx, name, fc[0]['res'])
                if cases['some'] == {('const', 1)} and cases['none'] == {('const', 0)}:
                    kind, inner = 'is_some', fc[0]['res']
                elif cases['some'] == {('const', 0)} and cases['none'] == {('const', 1)}:
                    kind, inner = 'is_none', fc[0]['res']
                why = 'find(..) is Some => %s, None => %s' % (sorted(t_str(x) for x in cases['some']), sorted(t_str(x) for x in cases['none']))
        if inner is not None and inner[0] == 'call' and term_callee(inner) == PAR_TRAIT + '::find' and inner[2][0] == P('self'):
            arg = inner[2][1]
            if m == 'any':
                ok = kind == 'is_some' and arg == pred
            else:
                if kind == 'is_none' and arg[0] == 'closure' and arg[2] == (pred,):
                    cr = ctx.run(arg[1])
                    cb = F.bodies[arg[1]]
                    x = P(cb.local_name(2))
                    k2, i2 = norm_bool(cr.ret)
                    call_ok = i2 is not None and i2[0] == 'call' and term_callee(i2) == 'std::ops::Fn::call' and i2[2][0] == P('cap:' + cb.d['captures'][0]) and i2[2][1] == ('tuple', (x,))
                    ok = k2 == 'not' and call_ok
                    why += ' with closure = ' + t_str(cr.ret)
        if not ok and m == 'all' and kind == 'not' and inner is not None and inner[0] == 'call' and term_callee(inner) == PAR_TRAIT + '::any' \
                and len(inner[2]) == 2 and inner[2][0] == P('self'):
            # all(p) = !any(|x| !p(x)): with any = find(..).is_some() (its own instance) this is find(self, |x| !p(x)).is_none()
            arg = inner[2][1]
            if arg[0] == 'closure' and arg[2] == (pred,) and arg[1] in F.bodies:
                cr = ctx.run(arg[1])
                cb = F.bodies[arg[1]]
                x = P(cb.local_name(2))
                k2, i2 = norm_bool(cr.ret)
                call_ok = i2 is not None and i2[0] == 'call' and term_callee(i2) == 'std::ops::Fn::call' and i2[2][0] == P('cap:' + cb.d['captures'][0]) and i2[2][1] == ('tuple', (x,))
                ok = k2 == 'not' and call_ok
                why = '!any(self, |x| %s)' % t_str(cr.ret)
        out.inst('C02-ANYALL/' + m, ok, why, sample={'method': m, 'ret': why})
        if not ok:
            out.fail('C02-ANYALL/' + name, '%s is %s: expected %s' % (name, why, 'find(self, predicate).is_some()' if m == 'any' else 'find(self, |x| !predicate(x)).is_none()'), b.where())
    out.floor('methods', n, 2 if not ctx.fixture else 0)
    return out


@rule('C03-MAYBE', 'maybe_reduce: None is neutral, two values are combined by the operator')
def c03_maybe(ctx):
    out = RuleOut('C03-MAYBE')
    F = ctx.facts
    b = F.one('core::utils::maybe_reduce')
    names = [b.local_name(l) for l in b.arg_locals()]
    ropi = [i for i, l in enumerate(b.arg_locals()) if local_type_param(b, l) in user_closure_params(b)]
    oi = [i for i in range(len(names)) if i not in ropi]
    if len(ropi) != 1 or len(oi) != 2:
        out.fail('C03-MAYBE/signature', 'maybe_reduce no longer has the shape (operator, Option, Option)', b.where(), kind='anchor-missing')
        return out
    R = P(names[ropi[0]])
    A, B = P('a'), P('b')
    rows = []
    for ta, tb in itertools.product((0, 1), (0, 1)):
        args = [None] * 3
        args[ropi[0]] = R
        args[oi[0]] = some(A) if ta else none()
        args[oi[1]] = some(B) if tb else none()
        r = ctx.opa.run(b.name, args)
        got = r.ret
        comb1 = some(('call', 'std::ops::Fn::call', (R, ('tuple', (A, B)))))
        comb2 = some(('call', 'std::ops::Fn::call', (R, ('tuple', (B, A)))))
        want = {(0, 0): {none()}, (0, 1): {some(B)}, (1, 0): {some(A)}, (1, 1): {comb1, comb2}}[(ta, tb)]
        ok = got in want
        rows.append('%s,%s => %s' % ('Some(a)' if ta else 'None', 'Some(b)' if tb else 'None', t_str(got)))
        out.inst('C03-MAYBE/%d%d' % (ta, tb), ok, t_str(got), sample={'a': 'Some' if ta else 'None', 'b': 'Some' if tb else 'None', 'ret': t_str(got)})
        if not ok:
            out.fail('C03-MAYBE/row-%s-%s' % ('some' if ta else 'none', 'some' if tb else 'none'),
                     'maybe_reduce(%s, %s) = %s: a partial result is lost or invented' % ('Some(a)' if ta else 'None', 'Some(b)' if tb else 'None', t_str(got)), b.where())
    out.floor('rows', len(rows), 4)
    return out


@rule('C03-OUTER', 'the operator given to the runner by a reduce kernel is the user operator lifted over Option; the kernel returns its flattened result')
def c03_outer(ctx):
    out = RuleOut('C03-OUTER')
    F = ctx.facts
    find_tasks = set(early_exit_tasks(ctx))
    n = 0
    for (b, bb, c, ridx, tasks) in runner_reduce_sites(ctx):
        if set(tasks) & find_tasks:
            continue
        # count kernels return usize: decided by C04-SUM
        if b.d.get('ret_ty') == 'usize':
            continue
        n += 1
        R = c['args'][ridx]
        key = 'C03-OUTER/%s' % key_of(b)
        ucp = [b.local_name(l) for l in b.arg_locals() if local_type_param(b, l) in user_closure_params(b) and len(b.fn_bounds()[local_type_param(b, l)]['by_ref']) == 2]
        A, B = P('a'), P('b')
        ok = False
        why = t_str(R)[:120]
        if R[0] == 'closure' and len(ucp) == 1:
            got = eval_binary_closure(ctx, R, some(A), some(B))
            user = P(ucp[0])
            want = {some(('call', 'std::ops::Fn::call', (user, ('tuple', (A, B))))), some(('call', 'std::ops::Fn::call', (user, ('tuple', (B, A)))))}
            rows_ok = got in want
            n1 = eval_binary_closure(ctx, R, none(), some(B)) == some(B)
            n2 = eval_binary_closure(ctx, R, some(A), none()) == some(A)
            n3 = eval_binary_closure(ctx, R, none(), none()) == none()
            ok = rows_ok and n1 and n2 and n3
            why = 'Some(a),Some(b) => %s' % t_str(got)[:120]
        out.inst(key, ok, why, sample={'par_entry': key_of(b), 'operator_on_Some_Some': why})
        if not ok:
            out.fail(key, '%s gives the runner an operator that is not `|a, b| maybe_reduce(&reduce, a, b)` over the user\'s reduce: %s' % (key_of(b), why), b.where(c['line']))
        # the kernel's return value: flatten of (the second component of) the runner result
        r = ctx.run(b.name)
        top = r.ret
        cases, V = runner_cases(ctx, b, r, c)
        none_like = bool(cases['none']) and all(x == none() or (x[0] == 'call' and term_method(x) == 'default') for x in cases['none'])
        ok2 = none_like and cases['some'] == {V}
        out.inst(key + '/ret', ok2, 'None => %s; Some(v) => %s' % (sorted(t_str(x)[:30] for x in cases['none']), sorted(t_str(x)[:30] for x in cases['some'])), sample=None)
        if not ok2:
            out.fail(key + '/ret', '%s does not return the flattened result of the runner reduction: %s' % (key_of(b), t_str(top)[:160]), b.where())
    out.floor('reduce_entries', n, 3 if not ctx.fixture else 0)
    return out


ORD = 'std::cmp::Ordering'


def reduce_call_of(ctx, b, r):
    """the `Par::reduce(self, op)` call record of a provided method body"""
    cs = [c for _, c in r.call_sites() if sg(c['decl']) == PAR_TRAIT + '::reduce' and c['args'] and c['args'][0] == P('self')]
    if len(cs) == 1:
        return cs[0]
    # the reduction may sit in a crate helper that the analysis inlined (`reduce_to(Extremum::Min, self, compare)`): then the value of
    # the method is the reduce call itself
    if not cs and r.ret is not None and r.ret[0] == 'call' and sg(r.ret[1]) == PAR_TRAIT + '::reduce' and len(r.ret[2]) == 2 and r.ret[2][0] == P('self'):
        return {'res': r.ret, 'args': list(r.ret[2]), 'line': None, 't': {}, 'decl': r.ret[1], 'pc': frozenset()}
    return None


def binary_op_is(ctx, op, names):
    """is `op` (fn item or closure) the binary operator `names` applied to its two arguments in order"""
    x, y = P('x'), P('y')
    if op[0] == 'fn' and op[1] not in ctx.facts.bodies:
        return sg(op[1]) in names
    if op[0] in ('closure', 'fn'):
        # a closure literal, or a function of the crate (`fn add<T: Add>(x: T, y: T) -> T { x + y }`)
        got = eval_binary_closure(ctx, op, x, y)
        if got is not None and got[0] == 'call' and term_callee(got) in names and tuple(got[2]) == (x, y):
            return True
        if got is not None and got[0] == 'bin' and ('std::ops::%s::%s' % (got[1], got[1].lower())) in names and (got[2], got[3]) == (x, y):
            return True
    return False


STD_SELECT = {'std::cmp::Ord::min': {'Less': 'x', 'Equal': 'x', 'Greater': 'y'}, 'std::cmp::min': {'Less': 'x', 'Equal': 'x', 'Greater': 'y'},
              'std::cmp::Ord::max': {'Less': 'y', 'Equal': 'y', 'Greater': 'x'}, 'std::cmp::max': {'Less': 'y', 'Equal': 'y', 'Greater': 'x'}}
FLIP = {'Less': 'Greater', 'Greater': 'Less', 'Equal': 'Equal'}
FN_CALL = ('std::ops::Fn::call', 'std::ops::FnMut::call_mut', 'std::ops::FnOnce::call_once')


def _is_call_of(t, callee_term, args):
    return t[0] == 'call' and sg(t[1]) in FN_CALL and t[2][0] == callee_term and t[2][1] == ('tuple', tuple(args))


def operator_selection(ctx, op, mode, user=None):
    """which of its two arguments (x = first / accumulated, y = second) the binary operator `op` returns for each ordering
    of (x, y).  mode: 'natural' (Ord::cmp of the items), 'by' (user(&x, &y)), 'key' (user(&x).cmp(&user(&y))).
    Returns (table, description) or (None, why)."""
    F = ctx.facts
    if op[0] == 'fn':
        c = sg(op[1])
        if mode == 'natural' and c in STD_SELECT:
            return dict(STD_SELECT[c]), 'std %s' % c.split('::')[-1]
        return None, 'operator %s' % c
    if op[0] != 'closure' or op[1] not in F.bodies or ORD not in F.adts:
        return None, 'operator %s' % t_str(op)[:80]
    cb = F.bodies[op[1]]
    if len(cb.arg_locals()) != 3:
        return None, 'operator closure does not take two arguments'
    x, y = P(cb.local_name(2) or '_2'), P(cb.local_name(3) or '_3')
    # the closure is analysed with its captures bound to what the wrapper put there (`Extremum::Min`, the user's comparison, a
    # crate closure around the user's key extractor ..)
    r0 = ctx.opa.run(op[1], [op, x, y])
    # `|a, b| a.min(b)` / `|a, b| Ord::max(b, a)`: the std selection functions applied to the two arguments
    if mode == 'natural' and r0.ret is not None and r0.ret[0] == 'call' and sg(r0.ret[1]) in STD_SELECT and len(r0.ret[2]) == 2:
        std = STD_SELECT[sg(r0.ret[1])]
        if tuple(r0.ret[2]) == (x, y):
            return dict(std), 'closure calling std %s(x, y)' % sg(r0.ret[1]).split('::')[-1]
        if tuple(r0.ret[2]) == (y, x):
            swap = {'x': 'y', 'y': 'x'}
            return {o: swap[std[FLIP[o]]] for o in ('Less', 'Equal', 'Greater')}, 'closure calling std %s(y, x)' % sg(r0.ret[1]).split('::')[-1]
    cap = None
    if user is not None:
        if not any(z == user for z in subterms(op)):
            return None, 'the operator does not use %s' % t_str(user)
        cap = user
    cands = []
    recs = []
    for _, c in r0.call_sites():
        recs.append((c['res'], sg(c['decl']), tuple(c['args'])))
        # a crate helper / closure that computes the ordering (`cmp_by_key(key, &x, &y)`, `compare_keys(key)`) is inlined by the
        # analysis: its value is the cmp term
        tv = c['res']
        if tv is not None and tv[0] == 'call' and sg(tv[1]) in ('std::cmp::Ord::cmp', 'std::cmp::PartialOrd::partial_cmp') and sg(c['decl']) != sg(tv[1]):
            recs.append((tv, sg(tv[1]), tuple(tv[2])))
    # ... or the comparison is made inside a crate helper the operator delegates to (`|x, y| first_unless_greater(&compare, x, y)`):
    # the tests that decide the operator's result, wherever the analysis meets them, mention the comparison term
    pk = ('sel-probe', op)
    if pk not in ctx.cache:
        probed_ = []

        def probe(d):
            probed_.append(d)
            return None
        ctx.opa.run(op[1], [op, x, y], seeds={'atoms': probe, 'key': pk})     # (memoised by the engine: the callback runs once)
        ctx.cache[pk] = probed_
    probed = ctx.cache[pk]
    seen_t = {t for (t, _, _) in recs}
    for d in probed:
        for z in subterms(d) if d is not None else ():
            if z[0] == 'call' and z not in seen_t:
                seen_t.add(z)
                recs.append((z, sg(z[1]), tuple(z[2])))
    for (t, dcl, cargs) in recs:
        c = {'args': cargs, 'decl': dcl}
        if mode == 'natural' and dcl in ('std::cmp::Ord::cmp', 'std::cmp::PartialOrd::partial_cmp'):
            a = tuple(c['args'])
            if a == (x, y):
                cands.append((t, False))
            elif a == (y, x):
                cands.append((t, True))
        elif mode == 'by' and cap is not None:
            if _is_call_of(t, cap, (x, y)):
                cands.append((t, False))
            elif _is_call_of(t, cap, (y, x)):
                cands.append((t, True))
        elif mode == 'key' and cap is not None and dcl == 'std::cmp::Ord::cmp' and len(c['args']) == 2:
            kx, ky = c['args']
            if _is_call_of(kx, cap, (x,)) and _is_call_of(ky, cap, (y,)):
                cands.append((t, False))
            elif _is_call_of(kx, cap, (y,)) and _is_call_of(ky, cap, (x,)):
                cands.append((t, True))
    if len(cands) != 1:
        return None, 'the ordering of the two arguments is not computed once as %s' % {'natural': 'x.cmp(&y)', 'by': 'compare(&x, &y)', 'key': 'key(&x).cmp(&key(&y))'}[mode]
    CT, flipped = cands[0]
    tab = {}
    for nm in ('Less', 'Equal', 'Greater'):
        vt = ('variant', ORD, F.variant_index(ORD, nm), (), nm)
        rr = ctx.opa.run(op[1], [op, x, y], seeds={'subst': {CT: vt}, 'key': ('sel', op[1], nm)})
        got = 'x' if rr.ret == x else ('y' if rr.ret == y else None)
        if got is None:
            return None, 'for %s the operator returns %s, neither argument' % (nm, t_str(rr.ret)[:60])
        tab[FLIP[nm] if flipped else nm] = got
    return tab, 'closure on %s%s' % ({'natural': 'x.cmp(&y)', 'by': 'compare(&x, &y)', 'key': 'key(&x).cmp(&key(&y))'}[mode], ' (arguments swapped)' if flipped else '')


def comparison_mode_of(ctx, g, b, want):
    """classify the comparison argument `g` handed by wrapper body b to a *_by sibling: natural / by(user) / key(user)"""
    F = ctx.facts
    if g[0] == 'fn' and sg(g[1]) == 'std::cmp::Ord::cmp':
        return 'natural', None
    if g[0] == 'param':
        return 'by', g
    if g[0] == 'closure' and g[1] in F.bodies:
        cb = F.bodies[g[1]]
        if len(cb.arg_locals()) == 3:
            x, y = P(cb.local_name(2) or '_2'), P(cb.local_name(3) or '_3')
            r0 = ctx.run(g[1])
            rt = r0.ret
            if rt is not None and rt[0] == 'call' and sg(rt[1]) == 'std::cmp::Ord::cmp' and len(rt[2]) == 2:
                a, c = rt[2]
                if (a, c) == (x, y):
                    return 'natural', None
                caps = cb.d.get('captures', [])
                for i, cn in enumerate(caps):
                    cap = P('cap:' + cn)
                    if _is_call_of(a, cap, (x,)) and _is_call_of(c, cap, (y,)) and i < len(g[2]):
                        return 'key', g[2][i]
                    if _is_call_of(rt, cap, (x, y)) and i < len(g[2]):
                        return 'by', g[2][i]
    return None, None


def selection_table(ctx, m, depth=0):
    """selection table of the provided method Par::m (min/max/min_by/max_by/min_by_key/max_by_key): for each ordering of
    (earlier element x, later element y) under the method's comparison, which one survives.  Follows delegation to a
    sibling (`max` = `max_by(Ord::cmp)`, `max_by_key(k)` = `max_by(|a, b| k(a).cmp(&k(b)))`)."""
    F = ctx.facts
    b = F.bodies.get(PAR_TRAIT + '::' + m)
    if b is None or depth > 3:
        return None, 'no body'
    r = ctx.run(b.name)
    mode = 'natural' if m in ('min', 'max') else ('by' if m.endswith('_by') else 'key')
    user = P(b.local_name(2)) if mode != 'natural' and len(b.arg_locals()) > 1 else None
    rc = reduce_call_of(ctx, b, r)
    if rc is not None:
        if r.ret != rc['res']:
            return None, 'does not return the reduction: %s' % t_str(r.ret)[:100]
        return operator_selection(ctx, rc['args'][1], mode, user)
    # delegation to a sibling wrapper
    sib = [c for _, c in r.call_sites() if sg(c['decl']).startswith(PAR_TRAIT + '::') and sg(c['decl']).split('::')[-1] in ('min', 'max', 'min_by', 'max_by', 'min_by_key', 'max_by_key')
           and c['args'] and c['args'][0] == P('self')]
    if len(sib) != 1 or r.ret != sib[0]['res']:
        return None, 'neither reduce(self, op) nor a sibling wrapper: %s' % t_str(r.ret)[:100]
    m2 = sg(sib[0]['decl']).split('::')[-1]
    tab2, why2 = selection_table(ctx, m2, depth + 1)
    if tab2 is None:
        return None, 'delegates to %s: %s' % (m2, why2)
    if m2 in ('min', 'max'):
        ok = mode == 'natural'
    else:
        gmode, guser = comparison_mode_of(ctx, sib[0]['args'][1] if len(sib[0]['args']) > 1 else None, b, mode) if len(sib[0]['args']) > 1 else (None, None)
        if m2.endswith('_by_key'):
            ok = mode == 'key' and sib[0]['args'][1] == user
        else:
            ok = gmode == mode and (mode == 'natural' or guser == user)
    if not ok:
        return None, 'delegates to %s with a comparison that is not this method\'s own' % m2
    return tab2, 'delegates to %s (%s)' % (m2, why2)



@rule('C03-OPARG', 'every implementation of the reduce terminal hands the user\'s operator itself to the kernel (or to the reduce it delegates to)')
def c03_oparg(ctx):
    """The kernels combine every surviving element exactly once with the operator they are given (C03-THREAD, C03-OUTER); the
    provided methods build their operators from `reduce` (C03-WRAP).  In between sits each type's `reduce(self, reduce)`: it must
    pass `reduce` on as it is.  An operator *derived* from it there - an Option-lifted or re-bracketing closure around the user's
    operator - is a different operator, and no kernel rule looks at it (`|acc, x| match x { Some(x) => acc.map(|a| reduce(a, x)),
    None => acc }` drops the right operand whenever the accumulator is None)."""
    out = RuleOut('C03-OPARG')
    F = ctx.facts
    S = ctx.slots
    n = 0
    for tn in sorted(set(S.terminals) | set(S.inherent_terminals)):
        b = F.bodies[tn]
        if (b.d.get('method') or b.name.rsplit('::', 1)[-1]) != 'reduce':
            continue
        fb = b.fn_bounds()
        ops = [b.local_name(l) for l in b.arg_locals() if local_type_param(b, l) in fb and len(fb[local_type_param(b, l)].get('by_ref', [])) == 2]
        if not ops:
            continue
        op = ('param', ops[0])
        r = ctx.run0(tn)        # the calls this body makes itself (nothing inlined)
        direct, derived = [], []

        def captures_op(x, depth=0):
            if x is None or depth > 6:
                return False
            while x[0] in ('ref', 'mut'):
                x = x[1]
                if x is None:
                    return False
            if x == op:
                return True
            if x[0] == 'closure':
                return any(captures_op(c_, depth + 1) for c_ in x[2])
            return False
        for bb, c in r.call_sites():
            for a in c['args']:
                x = a
                while x is not None and x[0] in ('ref', 'mut'):
                    x = x[1]
                if x == op:
                    direct.append((bb, c))
                elif x is not None and x[0] == 'closure' and captures_op(x):
                    derived.append((bb, c, x))
        n += 1
        key = 'C03-OPARG/' + key_of(b)
        ok = bool(direct) and not derived
        out.inst(key, ok, '%d call(s) receive the operator itself, %d a closure built around it' % (len(direct), len(derived)),
                 sample={'terminal': key_of(b), 'operator': ops[0], 'passed_on_by': [res(c['t']) for _, c in direct][:3]})
        for (bb, c, x) in derived[:1]:
            out.fail(key, '%s hands %s a closure built around the user\'s operator `%s` (%s) instead of the operator itself: the kernels then combine the elements with a different operator, which nothing checks' % (key_of(b), res(c['t']), ops[0], t_str(x)[:80]), b.where(c['line']))
        if not derived and not direct:
            out.fail(key, '%s never hands its operator `%s` to a kernel or to another reduce' % (key_of(b), ops[0]), b.where())
    out.floor('reduce_terminals', n, 4 if not ctx.fixture else 0)
    return out


@rule('C03-WRAP', 'fold/sum/min/max/min_by*/max_by* are thin wrappers over reduce with the right operator')
def c03_wrap(ctx):
    from .optcase import case_returns_rerun, apply_term
    out = RuleOut('C03-WRAP')
    F = ctx.facts
    n = 0

    def body_of(m):
        return F.bodies.get(PAR_TRAIT + '::' + m)

    def check(m, ok, why, b):
        nonlocal n
        n += 1
        out.inst('C03-WRAP/' + m, ok, why, sample={'method': m, 'shape': why})
        if not ok:
            out.fail('C03-WRAP/%s::%s' % (PAR_TRAIT, m), '%s::%s is %s' % (PAR_TRAIT, m, why), b.where() if b else '')

    b = body_of('fold')
    if b:
        r = ctx.run(b.name)
        rc = reduce_call_of(ctx, b, r)
        ok = False
        why = t_str(r.ret)[:160]
        if rc:
            cases, V = case_returns_rerun(ctx, b.name, rc['res'])
            ident = P(b.local_name(2))
            ok = rc['args'][1] == P(b.local_name(3)) and cases['some'] == {V} and cases['none'] == {apply_term(ident, [])}
            why = 'reduce(self, %s); Some(v) => %s; None => %s' % (t_str(rc['args'][1]), sorted(t_str(x)[:40] for x in cases['some']), sorted(t_str(x)[:40] for x in cases['none']))
        check('fold', ok, why + ' (expected reduce(self, fold), v, identity())', b)
    b = body_of('sum')
    if b:
        r = ctx.run(b.name)
        rc = reduce_call_of(ctx, b, r)
        ok = False
        why = t_str(r.ret)[:160]
        if rc:
            cases, V = case_returns_rerun(ctx, b.name, rc['res'])
            dflt = all(x[0] == 'call' and term_method(x) == 'default' for x in cases['none']) and bool(cases['none'])
            ok = binary_op_is(ctx, rc['args'][1], ('std::ops::Add::add',)) and cases['some'] == {V} and dflt
            why = 'reduce(self, %s); Some(v) => %s; None => %s' % (t_str(rc['args'][1])[:60], sorted(t_str(x)[:40] for x in cases['some']), sorted(t_str(x)[:40] for x in cases['none']))
        check('sum', ok, why + ' (expected reduce(self, +), v, default())', b)
    for m in ('min', 'max', 'min_by', 'max_by', 'min_by_key', 'max_by_key'):
        b = body_of(m)
        if not b:
            continue
        tab, why = selection_table(ctx, m)
        if tab is None:
            check(m, False, why, b)
            continue
        if m.startswith('min'):
            ok = tab['Less'] == 'x' and tab['Greater'] == 'y' and tab['Equal'] in ('x', 'y')
        else:
            ok = tab['Greater'] == 'x' and tab['Less'] == 'y' and tab['Equal'] in ('x', 'y')
        check(m, ok, '%s [%s] (expected the %s of the two)' % (', '.join('%s=>%s' % kv for kv in sorted(tab.items())), why, 'smaller' if m.startswith('min') else 'larger'), b)
    out.floor('wrappers', n, 8 if not ctx.fixture else 0)
    return out


@rule('C04-SUM', 'per-thread counts are combined with + and an empty run counts 0')
def c04_sum(ctx):
    out = RuleOut('C04-SUM')
    n = 0
    for (b, bb, c, ridx, tasks) in runner_reduce_sites(ctx):
        if b.d.get('ret_ty') != 'usize':
            continue
        n += 1
        R = c['args'][ridx]
        key = 'C04-SUM/%s' % key_of(b)
        A, B = P('a'), P('b')
        got = eval_binary_closure(ctx, R, A, B) if R[0] in ('closure', 'fn') else None
        ok = got is not None and ((got[0] == 'bin' and got[1] == 'Add' and {got[2], got[3]} == {A, B}) or
                                  (got[0] == 'call' and term_callee(got) == 'std::ops::Add::add' and set(got[2]) == {A, B}))
        out.inst(key, ok, t_str(got), sample={'par_entry': key_of(b), 'operator': t_str(got)})
        if not ok:
            out.fail(key, '%s combines the per-thread counts with %s instead of a + b' % (key_of(b), t_str(got)[:120]), b.where(c['line']))
        r = ctx.run(b.name)
        top = r.ret
        cases, V = runner_cases(ctx, b, r, c)
        zero_like = bool(cases['none']) and all(x == ('const', 0) or (x[0] == 'call' and term_method(x) == 'default') for x in cases['none'])
        ok2 = zero_like and cases['some'] == {V}
        out.inst(key + '/ret', ok2, 'None => %s; Some(v) => %s' % (sorted(t_str(x)[:30] for x in cases['none']), sorted(t_str(x)[:30] for x in cases['some'])))
        if not ok2:
            out.fail(key + '/ret', '%s does not return the runner\'s sum (or 0 when no thread ran): %s' % (key_of(b), t_str(top)[:160]), b.where())
    out.floor('count_entries', n, 3 if not ctx.fixture else 0)
    return out


@rule('C04-FOREACH', 'for_each(f) = count of map(|x| f(x))')
def c04_foreach(ctx):
    out = RuleOut('C04-FOREACH')
    F = ctx.facts
    name = PAR_TRAIT + '::for_each'
    b = F.bodies.get(name)
    if b is None:
        out.fail('C04-FOREACH/for_each', 'anchor missing: %s' % name, kind='anchor-missing')
        return out
    r = ctx.run(name)
    cnt = [c for _, c in r.call_sites() if term_callee(('call', c['decl'], ())) == PAR_TRAIT + '::count']
    f = P(b.local_name(2))
    ok = False
    why = 'no count() call'
    if len(cnt) == 1:
        a0 = cnt[0]['args'][0]
        why = t_str(a0)[:160]
        if a0[0] == 'call' and term_callee(a0) == PAR_TRAIT + '::map' and a0[2][0] == P('self') and a0[2][1] == f:
            ok = True
            why += ' ; f itself is the map stage'
        elif a0[0] == 'call' and term_callee(a0) == PAR_TRAIT + '::map' and a0[2][0] == P('self') and a0[2][1][0] == 'closure' and a0[2][1][2] == (f,):
            cb = F.bodies[a0[2][1][1]]
            cr = ctx.run(cb.name)
            calls = [c for _, c in cr.call_sites()]
            item = P(cb.local_name(2))
            ok = len(calls) == 1 and is_user_closure_call(calls[0]['t'], cb) is not None and calls[0]['args'][1] == ('tuple', (item,))
            why += ' ; closure body calls: %s' % [t_str(c['args'][1]) for c in calls]
    others = [c for _, c in r.call_sites() if term_callee(('call', c['decl'], ())).startswith(PAR_TRAIT + '::') and method(c['t']) not in ('map', 'count')]
    ok = ok and not others
    out.inst('C04-FOREACH/for_each', ok, why, sample={'for_each': why})
    if not ok:
        out.fail('C04-FOREACH/%s' % name, 'for_each is not `self.map(|x| f(x)).count()`: %s' % why, b.where())
    out.floor('for_each', 1, 1)
    return out


# ======================================================================================= C08
@rule('C08-GUARD', 'do_spawn is true only if num_spawned + 1 < max_num_threads and the source may have more')
def c08_guard(ctx):
    out = RuleOut('C08-GUARD')
    F = ctx.facts
    b = F.one('core::runner::Runner::do_spawn')
    names = {b.local_name(l): l for l in b.arg_locals()}
    nsp = [l for l in b.arg_locals() if b.locals[l]['ty'] == 'usize']
    hm = [l for l in b.arg_locals() if 'HasMore' in b.locals[l]['ty']]
    if len(nsp) != 1 or len(hm) != 1:
        out.fail('C08-GUARD/signature', 'do_spawn no longer has the shape (&self, usize, HasMore)', b.where(), kind='anchor-missing')
        return out
    N = P(b.local_name(nsp[0]))
    H = P(b.local_name(hm[0]))
    MAXI = F.field_index(RUNNER, 'max_num_threads')
    M = ('field', P('self'), None, MAXI)
    goal = lin.constraint(('bin', 'Lt', ('bin', 'Add', N, ('const', 1)), M), True)
    HM = 'orx_concurrent_iter::HasMore'
    rows = 0
    for vi, v in enumerate(F.adts[HM]['variants']):
        dv = F.discr_of(HM, vi)
        r = ctx.opa.run(b.name, seeds={'discr': {t_str(H): dv}, 'key': ('hm', dv)})
        for (pred, rb), (val, pc) in sorted(r.ret_edges.items()):
            rows += 1
            maybe_true = val != ('const', 0)
            key = 'C08-GUARD/has_more=%s' % v['name']
            if not maybe_true:
                out.inst(key + '/false', True, 'returns false', nontrivial=False)
                continue
            if v['name'] == 'No':
                out.inst(key, False, t_str(val))
                out.fail('C08-GUARD/do_spawn/has_more-No', 'do_spawn can return %s when the source reports HasMore::No' % t_str(val), b.where())
                continue
            implied = False
            facts = []
            for (pt, f) in pc:
                tv = lin.fact_truth(f)
                if tv is None:
                    continue
                cst = lin.constraint(pt, tv)
                if cst is not None:
                    facts.append('%s is %s' % (t_str(pt), tv))
                    if lin.implies(cst, goal):
                        implied = True
            out.inst(key, implied, '; '.join(facts), sample={'has_more': v['name'], 'returns': t_str(val), 'path_condition': facts, 'goal': 'num_spawned + 1 < max_num_threads'})
            if not implied:
                out.fail('C08-GUARD/do_spawn/bound', 'do_spawn may return true (has_more = %s) on a path whose condition [%s] does not imply num_spawned + 1 < max_num_threads: one worker too many can be spawned'
                         % (v['name'], '; '.join(facts)), b.where())
    out.floor('return_edges', rows, 3 if not ctx.fixture else 0)
    return out


def bounded_by(t, X, depth=0):
    """t <= X structurally: X itself, a min containing a bounded operand, max(bounded, 1) (X >= 1), or a set of such"""
    if depth > 12 or t is None:
        return False
    if t == X:
        return True
    if t[0] == 'set':
        return all(bounded_by(x, X, depth + 1) for x in t[1])
    if t[0] == 'call' and term_callee(t) in ('std::cmp::Ord::min', 'std::cmp::min'):
        return any(bounded_by(x, X, depth + 1) for x in t[2])
    if t[0] == 'call' and term_callee(t) in ('std::cmp::Ord::max', 'std::cmp::max'):
        a, b = t[2]
        return (bounded_by(a, X, depth + 1) and b == ('const', 1)) or (bounded_by(b, X, depth + 1) and a == ('const', 1))
    if t[0] == 'call' and term_callee(t) in ('std::option::Option::map_or', 'std::option::Option::map_or_else') and len(t[2]) == 3:
        # opt.map_or(default, f): both the default and f(payload) are bounded, whatever the payload is
        from .engine import current_ctx
        from .items import Items
        ctx = current_ctx()
        I = ctx.cache.setdefault('items', Items(ctx)) if ctx is not None else None
        if I is None:
            return False
        dflt = t[2][1] if term_callee(t).endswith('map_or') else I.apply(t[2][1], [])
        mapped = I.apply(t[2][2], [('param', '$payload')])
        return bounded_by(dflt, X, depth + 1) and bounded_by(mapped, X, depth + 1)
    if t[0] == 'call' and term_callee(t) in ('std::option::Option::unwrap_or',) and len(t[2]) == 2:
        return bounded_by(t[2][1], X, depth + 1) and bounded_by(('field', t[2][0], 1, 0), X, depth + 1)
    if t[0] == 'call' and t[2] and t[2][0][0] == 'closure' and t[2][0][1] == t[1]:
        # a crate closure applied to known arguments, left uninlined at the depth limit: its value in the caller's terms
        from .engine import current_ctx
        ctx = current_ctx()
        if ctx is not None and t[1] in ctx.facts.bodies:
            rr = ctx.opa.run(t[1], list(t[2]))
            if rr.ret is not None and rr.ret != t and rr.ret[0] != 'top':
                return bounded_by(rr.ret, X, depth + 1)
    return False


@rule('C08-MAX', 'Runner.max_num_threads <= n for NumThreads::Max(n), and >= 1')
def c08_max(ctx):
    out = RuleOut('C08-MAX')
    F = ctx.facts
    new = F.one('core::runner::Runner::new')
    X = P('N')
    nt = ('variant', NUM_THREADS, F.variant_index(NUM_THREADS, 'Max'), (X,), 'Max')
    args = []
    for l in new.arg_locals():
        if new.locals[l]['ty'].endswith(PARAMS):
            args.append(('variant', PARAMS, 0, (nt, P('CS')), 'Params'))
        else:
            args.append(P(new.local_name(l)))
    r = ctx.opa.run(new.name, args)
    idx = F.field_index(RUNNER, 'max_num_threads')
    got = r.ret[3][idx] if r.ret[0] == 'variant' and r.ret[1] == RUNNER else None
    ok = bounded_by(got, X)
    out.inst('C08-MAX/upper', ok, t_str(got)[:200], sample={'seed': 'params.num_threads = Max(N)', 'max_num_threads': t_str(got)[:300]})
    if not ok:
        out.fail('C08-MAX/Runner::new/upper', 'for NumThreads::Max(N) Runner::new computes max_num_threads = %s, which is not bounded by N' % t_str(got)[:300], new.where())
    # lower bound: max(.., 1)
    r2 = ctx.run(new.name)
    g2 = r2.ret[3][idx] if r2.ret[0] == 'variant' else None
    ok2 = g2 is not None and g2[0] == 'call' and term_callee(g2) in ('std::cmp::Ord::max',) and ('const', 1) in g2[2]
    out.inst('C08-MAX/lower', ok2, t_str(g2)[:120], sample={'max_num_threads': t_str(g2)[:200]})
    if not ok2:
        out.fail('C08-MAX/Runner::new/lower', 'max_num_threads is not clamped with max(.., 1): %s' % t_str(g2)[:200], new.where())
    out.floor('obligations', 2, 2)
    return out


@rule('C08-SEQ', 'sequential kernels and the sequential collects have no call-graph path to a thread API')
def c08_seq(ctx):
    out = RuleOut('C08-SEQ')
    F = ctx.facts
    S = ctx.slots
    threaders = set()
    for b in F.fn_bodies():
        if any(res(t).startswith('std::thread::') and res(t) != 'std::thread::available_parallelism' for _, t in b.calls()):
            threaders.add(b.name)
    for kn in sorted(S.seq_kernels):
        b = F.bodies[kn]
        prev = ctx.cg.reach(kn)
        hit = sorted(set(prev) & threaders)
        out.inst('C08-SEQ/' + key_of(b), not hit, 'reaches %d bodies' % len(prev), sample={'kernel': key_of(b), 'reachable_bodies': len(prev)})
        if hit:
            out.fail('C08-SEQ/' + key_of(b), 'sequential kernel %s reaches the thread API through %s' % (key_of(b), ' -> '.join(strip_generics(x) for x in ctx.cg.path_to(prev, hit[0]))), b.where())
    out.floor('seq_kernels', len(S.seq_kernels), 6 if not ctx.fixture else 0)
    out.floor('threading_bodies', len(threaders), 3 if not ctx.fixture else 0)
    return out


@rule('C08-CALLER', 'the spawning thread never calls a user closure itself while workers run (only as the operator that consumes joined results)')
def c08_caller(ctx):
    out = RuleOut('C08-CALLER')
    F = ctx.facts
    S = ctx.slots
    n = 0
    for entry, clo in sorted(S.scope_closures.items()):
        n += 1
        cb = F.bodies[clo]
        eb = F.bodies[entry]
        bad = []
        for bd in (eb, cb):
            for _, t in bd.calls():
                p = is_user_closure_call(t, bd)
                if p:
                    bad.append((bd, t, p))
        out.inst('C08-CALLER/' + strip_generics(entry), not bad, 'no direct user-closure call on the spawning thread', sample={'entry': strip_generics(entry)})
        for (bd, t, p) in bad:
            out.fail('C08-CALLER/%s/%s' % (strip_generics(entry), p), '%s calls the user closure %s directly on the spawning thread' % (key_of(bd), p), bd.where(t.get('line')))
        # a user closure handed to an iterator terminal that the spawning thread itself drives (`handles.map(join).reduce(reduce)`):
        # the closure then also runs on the calling thread - with Max(n), n >= 2, on n + 1 distinct threads
        fb = eb.fn_bounds()
        users = {}
        for l in eb.arg_locals():
            tp = local_type_param(eb, l)
            if tp in fb and fb[tp]['inputs'] != '(usize,)':
                users[eb.local_name(l)] = tp
        for bd in (eb, cb):
            rr = ctx.run(bd.name)
            for bb, c in rr.call_sites():
                d_ = decl(c['t'])
                if not d_.startswith(ITER) or d_[len(ITER):] not in (ITER_EXHAUSTIVE | ITER_SHORT_CIRCUIT | {'map', 'filter', 'inspect'}):
                    continue
                for a in c['args'][1:]:
                    nm = None
                    if a[0] == 'param':
                        nm = a[1][4:].lstrip('*') if a[1].startswith('cap:') else a[1]
                    if nm in users:
                        k2 = 'C08-CALLER/%s/%s-on-caller' % (strip_generics(entry), nm)
                        out.inst(k2, False, '%s(.., %s)' % (d_[len(ITER):], nm))
                        out.fail(k2, '%s hands the user closure `%s` to Iterator::%s, which the spawning thread drives after joining the workers: with '
                                     'NumThreads::Max(n), n >= 2, that closure is run by the n workers and by the calling thread - n + 1 distinct threads'
                                 % (key_of(bd), nm, d_[len(ITER):]), bd.where(c['line']))
    out.floor('entries', n, 3 if not ctx.fixture else 0)
    return out


# ======================================================================================= C10
def _is_search_result(x):
    """an Option produced by a short-circuit iterator terminal (possibly through Option::map)"""
    while x is not None and x[0] == 'call' and term_callee(x) == 'std::option::Option::map':
        x = x[2][0]
    return x is not None and x[0] == 'call' and term_callee(x).startswith(ITER) and term_method(x) in ITER_SHORT_CIRCUIT


def is_some_switches(ctx, b, r):
    """(switch bb, true target, false target, tested term) for every switch on Option::is_some(x)"""
    outl = []
    for sbb, (d, tg) in r.switches.items():
        k, inner = norm_bool(d)
        if k == 'id' and d[0] == 'discr' and _is_search_result(d[1]):
            # `if let Some(x) = result` / `match result { Some(..) => .., None => .. }` / `result?` (the analysis records the
            # effective arms in terms of the Option's discriminant, also for the flipped ControlFlow switch of `?`)
            one = r.switch_target(sbb, 1)
            zero = r.switch_target(sbb, 0)
            outl.append((sbb, one, zero, d[1]))
            continue
        if k in ('is_some', 'is_none'):
            t = b.blocks[sbb]['term']
            one = None
            zero = None
            for v, tgt in t['arms']:
                if int(v) == 0:
                    zero = tgt
                if int(v) == 1:
                    one = tgt
            one = one if one is not None else t['otherwise']
            zero = zero if zero is not None else t['otherwise']
            if k == 'is_none':
                one, zero = zero, one
            outl.append((sbb, one, zero, inner))
    return outl


@rule('C10-SIGNAL', 'every path of a find task that may return a match raised the early-exit signal (skip_to_end) first')
def c10_signal(ctx):
    out = RuleOut('C10-SIGNAL')
    F = ctx.facts
    S = ctx.slots
    ft = early_exit_tasks(ctx)
    # find tasks = tasks of par entries that are reachable from find-family terminals
    reach_find = set()
    for tn in S.terminals + S.inherent_terminals:
        if F.bodies[tn].d['method'] in FIND_FAMILY:
            reach_find |= set(ctx.cg.reach(tn)) & set(S.tasks)
    n_sig = 0
    for tn in sorted(reach_find):
        b = F.bodies[tn]
        sig_blocks = [bb for bb, t in b.calls() if is_coniter_call(t, {'skip_to_end'})]
        n_sig += len(sig_blocks)
        key = 'C10-SIGNAL/' + key_of(b)
        if not sig_blocks:
            out.inst(key, False, 'no skip_to_end call')
            out.fail(key, 'find task %s never raises the early-exit signal (no skip_to_end call): other workers keep pulling after a match' % key_of(b), b.where())
            continue
        r = ctx.opa.run(tn, avoid=sig_blocks)
        bad = []
        bad_line = {}
        edges = [(term, pc, pred) for (pred, rb), (term, pc) in r.ret_edges.items()] or [(term, pc, rb) for (rb, term, pc) in r.returns]
        for (term, pc, pred) in edges:
            for alt in alternatives(term):
                if alt[0] == 'variant' and alt[1] == OPTION and alt[2] == 0:
                    continue
                # a term known to be None through the path condition of the return edge that carries it
                if not any(norm_bool(pt) == ('is_some', alt) and lin.fact_truth(f) is False or
                           norm_bool(pt) == ('is_none', alt) and lin.fact_truth(f) is True or
                           (pt == ('discr', alt) and f == ('eq', 0)) for pt, f in pc):
                    if alt not in bad:
                        bad.append(alt)
                        blk = b.blocks[pred]
                        lines = [st.get('line') for st in blk['stmts'] if st.get('line')] + [blk['term'].get('line')]
                        bad_line[alt] = next((x for x in reversed(lines) if x), None)
        out.inst(key, not bad, 'unsignalled returns: %s' % t_str(r.ret)[:100], sample={'task': key_of(b), 'skip_to_end_blocks': len(sig_blocks), 'returns_without_signal': t_str(r.ret)[:200]})
        for alt in bad:
            out.fail(key, '%s can return %s (possibly a match) on a path that never called skip_to_end: the early-exit signal is skipped' % (key_of(b), t_str(alt)[:160]), b.where(bad_line.get(alt)))
    out.floor('find_tasks', len(reach_find), 3 if not ctx.fixture else 0)
    out.floor('skip_to_end_sites', n_sig, 3 if not ctx.fixture else 0)
    return out


@rule('C10-NOPULL', 'after a match no further pull is reachable before the task returns')
def c10_nopull(ctx):
    out = RuleOut('C10-NOPULL')
    F = ctx.facts
    n = 0
    for tn in sorted(early_exit_tasks(ctx)):
        b = F.bodies[tn]
        r = ctx.run(tn)
        cfg = ctx.cfg(b)
        sws = is_some_switches(ctx, b, r)
        if not sws:
            out.fail('C10-NOPULL/%s' % key_of(b), 'no `is_some()` test of a result found in the find task: cannot locate the match edge', b.where(), kind='undecided')
        for (sbb, one, zero, inner) in sws:
            n += 1
            reach = cfg.reach(one)
            pulls = [x for x in reach if b.blocks[x]['term']['t'] == 'call' and is_pull_call(b.blocks[x]['term'])]
            key = 'C10-NOPULL/%s' % key_of(b)
            out.inst(key, not pulls, 'blocks after match: %d' % len(reach), sample={'task': key_of(b), 'blocks_reachable_after_match': len(reach), 'pulls_after_match': len(pulls)})
            for x in pulls:
                out.fail(key, '%s can pull again (%s) after it has found a match' % (key_of(b), method(b.blocks[x]['term'])), b.where(b.blocks[x]['term'].get('line')))
    out.floor('match_edges', n, 3 if not ctx.fixture else 0)
    return out


@rule('C10-STOPSPAWN', 'the spawn loop stops once the source reports HasMore::No')
def c10_stopspawn(ctx):
    out = RuleOut('C10-STOPSPAWN')
    F = ctx.facts
    HM = 'orx_concurrent_iter::HasMore'
    no = F.discr_of(HM, F.variant_index(HM, 'No'))
    n = 0
    for fn, want in (('core::runner::Runner::do_spawn', ('const', 0)), ('core::runner::Runner::next_chunk_size', none())):
        b = F.one(fn)
        hm = [l for l in b.arg_locals() if 'HasMore' in b.locals[l]['ty']]
        if not hm:
            out.fail('C10-STOPSPAWN/' + fn, '%s has no HasMore parameter' % fn, b.where(), kind='anchor-missing')
            continue
        n += 1
        H = P(b.local_name(hm[0]))
        r = ctx.opa.run(b.name, seeds={'discr': {t_str(H): no}, 'key': 'hm-no'})
        ok = r.ret == want
        out.inst('C10-STOPSPAWN/' + fn, ok, t_str(r.ret), sample={'fn': fn, 'seed': 'has_more = No', 'ret': t_str(r.ret)})
        if not ok:
            out.fail('C10-STOPSPAWN/' + fn, '%s returns %s for HasMore::No, expected %s: threads keep being spawned for an exhausted source' % (fn, t_str(r.ret), t_str(want)), b.where())
    out.floor('fns', n, 2 if not ctx.fixture else 0)
    return out


@rule('C10-CHUNKDEP', 'the chunk size handed to a worker never grows with the amount of input that remains (only with the work already done)')
def c10_chunkdep(ctx):
    out = RuleOut('C10-CHUNKDEP')
    F = ctx.facts
    HM = 'orx_concurrent_iter::HasMore'
    yes = F.variant_index(HM, 'Yes')
    n = 0
    for b in F.fn_bodies():
        if b.d.get('impl_self') != 'adt:' + RUNNER or b.kind != 'AssocFn' or 'Option<usize>' not in b.d.get('ret_ty', ''):
            continue
        hm = [l for l in b.arg_locals() if 'HasMore' in b.locals[l]['ty']]
        rem_params = [l for l in b.arg_locals() if b.locals[l]['ty'] == 'usize' and 'remaining' in (b.local_name(l) or '')]
        R = set()
        for l in hm:
            R.add(('field', P(b.local_name(l)), yes, 0))
        for l in rem_params:
            R.add(P(b.local_name(l)))
        if not R:
            continue
        n += 1
        r = ctx.run(b.name)
        bad = []

        def walk(t):
            st = [t]
            while st:
                x = st.pop()
                if x is None:
                    continue
                if x in R:
                    bad.append(x)
                    continue
                if x[0] == 'bin' and x[1] == 'Sub' and x[3] in R:
                    # len - remaining = work already done: allowed
                    st.append(x[2])
                    continue
                st.extend(children(x))
        for alt in alternatives(r.ret):
            if alt[0] == 'variant' and alt[4] == 'Some':
                walk(alt[3][0])
        key = 'C10-CHUNKDEP/' + key_of(b)
        out.inst(key, not bad, t_str(r.ret)[:200], sample={'fn': key_of(b), 'chunk_size_terms': t_str(r.ret)[:300]})
        if bad:
            out.fail(key, '%s computes the next chunk size from the remaining input length (%s): the work a late worker still does after a match grows with the input instead of being bounded' % (key_of(b), t_str(bad[0])), b.where(), {'ret': t_str(r.ret)[:500]})
    out.floor('chunk_size_fns', n, 1 if not ctx.fixture else 0)
    return out


# ======================================================================================= C14-NOWAIT
# "never hangs": a panicking worker dies; anything that waits for progress made by *other* threads then waits for ever.
SHARED_OBSERVERS = {'has_more', 'try_get_len', 'len', 'is_empty', 'is_completed', 'load', 'is_finished', 'try_recv', 'try_lock',
                    'try_read', 'try_write', 'is_poisoned', 'strong_count', 'weak_count', 'compare_exchange', 'compare_exchange_weak',
                    'fetch_add', 'fetch_sub', 'swap', 'get'}
SHARED_TYPES = ('std::sync::atomic::', 'core::sync::atomic::', 'std::sync::mpsc::', 'std::sync::Mutex', 'std::sync::RwLock', 'std::sync::Arc',
                'std::thread::JoinHandle', 'std::thread::ScopedJoinHandle', 'std::sync::OnceLock', 'std::cell::OnceCell')
BLOCKING_CALLS = ('std::sync::Condvar::wait', 'std::sync::mpsc::Receiver::<T>::recv', 'std::sync::mpsc::Receiver::recv', 'std::thread::park',
                  'std::sync::Barrier::wait', 'std::sync::mpsc::SyncSender::send', 'std::thread::sleep_until', 'std::sync::mpsc::Receiver::iter')


def is_shared_observation(term):
    """a call term that reads state other threads change: the concurrent iterator's progress, an atomic, a handle"""
    if term[0] != 'call':
        return False
    c = term_callee(term)
    m = c.split('::')[-1]
    for tr in CONITER_TRAITS:
        if c.startswith(tr + '::'):
            return m not in (PULL_SIZED | PULL_ELEMENT | {'skip_to_end', 'into_seq_iter'})
    if 'BufferedIter' in c:
        return False
    return m in SHARED_OBSERVERS and c.startswith(SHARED_TYPES)


@rule('C14-NOWAIT', 'no loop of the library waits for progress made by other threads (a panicked worker makes none); no blocking primitive is used')
def c14_nowait(ctx):
    out = RuleOut('C14-NOWAIT')
    F = ctx.facts
    S = ctx.slots
    if ctx.fixture:
        names = sorted(b.name for b in F.fn_bodies())
    else:
        roots = list(S.terminals) + list(S.inherent_terminals) + list(S.runner_entries) + list(S.par_entries)
        names = set()
        for rn in roots:
            names |= set(ctx.cg.reach(rn))
        names = sorted(n for n in names if n in F.bodies)
    from .spawnmodel import SpawnModel
    sm = ctx.cache.get('spawnmodel')
    if sm is None and not ctx.fixture:
        sm = ctx.cache['spawnmodel'] = SpawnModel(ctx)
    n_loops = n_obs = 0
    for bn in names:
        b = F.bodies[bn]
        # blocking primitives: none are needed; each would wait on a thread that may have died
        for bb, t in b.calls():
            p = res(t)
            if p.startswith(BLOCKING_CALLS) or decl(t).startswith(BLOCKING_CALLS):
                k = 'C14-NOWAIT/%s/blocking/%s' % (key_of(b), method(t))
                out.inst(k, False, p)
                out.fail(k, '%s calls the blocking primitive %s on the path of a terminal call: if the thread it waits for has panicked the call hangs instead of panicking' % (key_of(b), p), b.where(t.get('line')))
        cfg = ctx.cfg(b)
        loops = cfg.loops()
        if not loops:
            continue
        r = ctx.run(bn)
        for h in sorted(loops):
            L = loops[h]
            if h not in r.visited:
                continue
            n_loops += 1
            k = 'C14-NOWAIT/%s/loop@%s' % (key_of(b), loop_tag(b, cfg, h, L))
            # spawn loops are bounded by the thread budget (C08-GUARD / C08-MAX)
            from .spawnmodel import is_spawn_record
            spawns = [bb for bb in L if bb in r.calls and is_spawn_record(r.calls[bb])]
            if sm is not None and bn in sm.hosts:
                spawns += [e.bb for e in sm.hosts[bn]['events'] if e.bb in L]
            exits = [(a, s) for (a, s) in cfg.loop_exits(h) if not b.blocks[s].get('cleanup') and a in r.visited]
            obs_exits = []
            free = 0
            r0 = ctx.run0(bn)
            # observations made anew in every iteration: the call itself is part of the loop
            in_loop = {rr.calls[bb]['res'] for rr in (r, r0) for bb in L if bb in rr.calls}

            def observed(a):
                res_ = []
                for rr in (r, r0):
                    d = rr.switches.get(a, (None,))[0]
                    if d is not None:
                        res_ += [x for x in rr.deep_subterms(d) if is_shared_observation(x) and x in in_loop]
                return res_

            def merged(a):
                d = r.switches.get(a, (None,))[0]
                return d is not None and any(x[0] in ('set', 'phi') for x in subterms(d))

            for (a, s) in exits:
                t = b.blocks[a]['term']
                d = r.switches.get(a, (None,))[0] if t['t'] == 'switch' else None
                if d is None:
                    free += 1
                    continue
                deps = observed(a)
                if not deps and merged(a):
                    # a flag joined from several paths: it also depends on the branches of this iteration that choose the path
                    for c in sorted(L):
                        if c != a and b.blocks[c]['term']['t'] == 'switch' and a in cfg.reach(c, avoid={h}):
                            deps += observed(c)
                if deps:
                    obs_exits.append((a, deps[0]))
                else:
                    free += 1
            if obs_exits:
                n_obs += 1
            waits = bool(exits) and free == 0 and not spawns
            infinite = not exits and not any(b.blocks[bb]['term']['t'] == 'return' for bb in L)
            okl = not waits and not infinite
            out.inst(k, okl, '%d exits, %d independent of other threads, %d spawn(s) inside' % (len(exits), free, len(spawns)),
                     nontrivial=bool(obs_exits), sample={'fn': key_of(b), 'loop_header_bb': h, 'exits': len(exits), 'thread_independent_exits': free,
                                                         'observed': t_str(obs_exits[0][1])[:120] if obs_exits else None})
            if waits:
                a, dep = obs_exits[0]
                out.fail(k, '%s: every exit of this loop depends on %s - state that only other threads advance - and the loop itself spawns nothing: '
                            'when the workers it waits for have panicked it never ends, and the terminal call hangs instead of panicking'
                         % (key_of(b), t_str(dep)[:100]), b.where(b.blocks[a]['term'].get('line') or first_line(b, h)))
            elif infinite:
                out.fail(k, '%s: loop without any exit on the path of a terminal call' % key_of(b), b.where(first_line(b, h)))
    out.counts['loops'] = n_loops
    out.counts['loops_observing_shared_state'] = n_obs
    out.floor('loops', n_loops, 10 if not ctx.fixture else 0)
    return out


def first_line(b, bb):
    blk = b.blocks[bb]
    for st in blk['stmts']:
        if st.get('line'):
            return st['line']
    return blk['term'].get('line')


def loop_tag(b, cfg, h, L):
    """a position-independent tag for a loop: its rank among the loops of the body in header order"""
    hs = sorted(cfg.loops())
    return 'L%d' % hs.index(h)


# ======================================================================================= C09-TIES
@rule('C09-TIES', 'min*/max* break ties like std: the first of equal minima, the last of equal maxima (sequential reduce is a left fold)')
def c09_ties(ctx):
    out = RuleOut('C09-TIES')
    F = ctx.facts
    n = 0
    for m in ('min', 'max', 'min_by', 'max_by', 'min_by_key', 'max_by_key'):
        b = F.bodies.get(PAR_TRAIT + '::' + m)
        if b is None:
            continue
        n += 1
        tab, why = selection_table(ctx, m)
        key = 'C09-TIES/%s::%s' % (PAR_TRAIT, m)
        if tab is None:
            out.inst(key, False, why)
            out.fail(key, '%s::%s: tie-breaking not decidable: %s' % (PAR_TRAIT, m, why), b.where(), kind='undecided')
            continue
        want = 'x' if m.startswith('min') else 'y'
        ok = tab['Equal'] == want
        out.inst(key, ok, 'Equal => %s [%s]' % (tab['Equal'], why), sample={'method': m, 'table': tab, 'std_keeps': 'first' if want == 'x' else 'last'})
        if not ok:
            out.fail(key, '%s::%s keeps the %s of two equal elements; Iterator::%s keeps the %s one, so with num_threads(1) the result differs from the '
                          'std iterator chain whenever the %s is attained more than once by distinguishable elements'
                     % (PAR_TRAIT, m, 'earlier' if tab['Equal'] == 'x' else 'later', m, 'first' if want == 'x' else 'last', 'minimum' if want == 'x' else 'maximum'), b.where())
    out.floor('wrappers', n, 6 if not ctx.fixture else 0)
    return out


# ======================================================================================= C09-SUMID
@rule('C09-SUMID', 'sum() of nothing is the identity Iterator::sum uses, not merely Default::default()')
def c09_sumid(ctx):
    from .optcase import case_returns_rerun
    out = RuleOut('C09-SUMID')
    F = ctx.facts
    b = F.bodies.get(PAR_TRAIT + '::sum')
    if b is None:
        out.fail('C09-SUMID/sum', 'anchor missing: %s::sum' % PAR_TRAIT, kind='anchor-missing')
        return out
    r = ctx.run(b.name)
    rc = reduce_call_of(ctx, b, r)
    key = 'C09-SUMID/%s::sum' % PAR_TRAIT
    if rc is None:
        # delegates to something else (e.g. Iterator::sum over a sequential iterator): nothing to compare here
        viaSum = any(decl(c['t']) in ('std::iter::Iterator::sum', 'std::iter::Sum::sum') for _, c in r.call_sites())
        out.inst(key, viaSum, 'no reduce call; std Sum used: %s' % viaSum)
        if not viaSum:
            out.fail(key, '%s::sum: neither reduce(..) with an empty-case value nor std Sum: the value for an empty input is not decidable' % PAR_TRAIT, b.where(), kind='undecided')
        return out
    cases, V = case_returns_rerun(ctx, b.name, rc['res'])
    dflt = [x for x in cases['none'] if x[0] == 'call' and term_method(x) == 'default']
    ok = not dflt
    out.inst(key, ok, 'empty case: %s' % sorted(t_str(x)[:40] for x in cases['none']), sample={'method': 'sum', 'empty_case': sorted(t_str(x)[:60] for x in cases['none'])})
    if dflt:
        out.fail(key, '%s::sum returns Default::default() for an empty input. Iterator::sum returns the identity of the type\'s Sum impl, which for f32/f64 is -0.0, '
                      'not +0.0: with num_threads(1) (and in parallel) an empty float sum differs from the std chain in its sign bit' % PAR_TRAIT, b.where())
    return out


# ======================================================================================= C15-TIES
@rule('C15-TIES', 'selection reductions (min*/max*) cannot give a parameter-independent element for ties: the parallel reduce does not keep operands in source order')
def c15_ties(ctx):
    out = RuleOut('C15-TIES')
    F = ctx.facts
    # structural premise: in the reduce tasks one accumulator is threaded across successive pulls of the same worker, i.e. a worker
    # combines chunks that are not adjacent in the source (other workers pull in between)
    from .rules_tasks import acc_tasks
    threaded = []
    for tb in acc_tasks(ctx, False):
        r = ctx.run0(tb.name)
        cfg = ctx.cfg(tb)
        if any(cfg.innermost_loop(bb) is not None and is_pull_call(c['t']) for bb, c in r.call_sites()) or ctx.facts.closures_in(tb):
            threaded.append(key_of(tb))
    n = 0
    for m in ('min', 'max', 'min_by', 'max_by', 'min_by_key', 'max_by_key'):
        b = F.bodies.get(PAR_TRAIT + '::' + m)
        if b is None:
            continue
        n += 1
        tab, why = selection_table(ctx, m)
        key = 'C15-TIES/%s::%s' % (PAR_TRAIT, m)
        if tab is None:
            out.inst(key, False, why)
            out.fail(key, '%s::%s: not a recognisable selection: %s' % (PAR_TRAIT, m, why), b.where(), kind='undecided')
            continue
        order_dependent = tab['Equal'] in ('x', 'y') and bool(threaded)
        out.inst(key, not order_dependent, 'Equal => %s; reduce tasks that fold non-adjacent pulls: %d' % (tab['Equal'], len(threaded)),
                 sample={'method': m, 'table': tab, 'reduce_tasks': threaded[:3]})
        if order_dependent:
            out.fail(key, '%s::%s selects the %s of two equal elements, so its result for ties depends on the order in which operands are combined; each worker '
                          'folds the chunks it happens to pull (not adjacent in the source) and the runner folds the per-worker results in spawn order, so with '
                          'more than one thread a different one of several equal extrema is returned than with num_threads(1)'
                     % (PAR_TRAIT, m, 'first' if tab['Equal'] == 'x' else 'second'), b.where())
    out.floor('wrappers', n, 6 if not ctx.fixture else 0)
    return out
