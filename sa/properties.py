"""Property -> rules table."""
import importlib

_LOADED = False


def load_rules():
    global _LOADED
    if _LOADED:
        return
    for m in ('rules_struct', 'rules_flow', 'rules_tasks', 'rules_bounds'):
        try:
            importlib.import_module('sa.' + m)
        except ModuleNotFoundError as e:
            if ('sa.' + m) not in str(e):
                raise
    from .engine import RULES
    import os, sys
    for pid, p in PROPERTIES.items():
        missing = [r for r in p['rules'] if r not in RULES]
        if missing and os.environ.get('VERIF_DEV'):
            print('dev: %s rules not implemented yet: %s' % (pid, missing), file=sys.stderr)
        p['rules'] = [r for r in p['rules'] if r in RULES]
    _LOADED = True


def P(title, rules, explanation, assumes=('T1', 'T2', 'T3', 'T4'), extra=()):
    return {'title': title, 'rules': list(rules), 'explanation': explanation, 'assumes': list(assumes), 'extra_assumptions': list(extra)}


STATIC = ('Static analysis of the MIR rustc produces for the real cargo build (rustc_private driver, fresh target dir), '
          'the resolved call graph, per-body CFGs and a seeded sparse-conditional origin-propagation analysis; '
          'nothing is executed. ')

PROPERTIES = {
    'C01': P('ordered collection equals sequential iteration',
             ['C01-KEY', 'C01-APPEND', 'C01-MERGE', 'C01-RESERVE', 'C01-COMPOSE', 'C05-VISIT', 'C05-NOSKIP', 'C05-SOURCE', 'S2', 'S4', 'S5', 'S1', 'C15-CLAMP', 'C15-CHUNKCAP', 'C15-CHUNKCAP-U', 'C01-FRESH', 'C05-WORKER', 'C05-ACCEPT', 'C05-FEED', 'C05-CONSUME', 'C06-MUT', 'C05-FALLIBLE', 'C01-KEEP', 'C01-NOSHUFFLE', 'C01-CONJ', 'C05-ENTRY', 'C06-GROW', 'C09-EMPTY', 'C05-OUTSIDE'],
             STATIC + 'Decided: merge keys / positional slots are the source positions delivered by the pull that produced the value; '
             'per-thread buffers are append-only; def-use facts of the k-way merge; capacity reservation dominates the positional path; '
             'stage order in composed closures; all per-thread results reach the merge; ordered terminals never reach an unordered kernel; '
             'the parameter resolution cannot panic and bounds every chunk size by the known input length (no position wrap-around). '
             'Not decided: functional correctness of the merge for every key multiset, equality over all inputs.'),
    'C02': P('find/first/any/all answer with the first match in source order',
             ['C02-MINIDX', 'C02-IDX', 'C02-FIRST', 'C02-ACCEPT', 'C02-ANYALL', 'C01-COMPOSE', 'S2', 'S4', 'S5', 'C15-CLAMP', 'C15-CHUNKCAP', 'C15-CHUNKCAP-U', 'C01-FRESH', 'C02-FRESHSEQ', 'C05-SOURCE', 'C05-WORKER', 'C01-KEEP', 'C01-NOSHUFFLE', 'C02-EAGERIDX', 'C02-EXHAUST', 'C01-CONJ', 'C05-ENTRY', 'C05-OUTSIDE'],
             STATIC + 'Decided: the cross-thread reduction of find results is min-by-index on its whole finite domain; reported indices '
             'originate from the pull position; each task returns its own first match, searched with exactly the user filter as acceptance test; any/all/find_with_index wiring. '
             'Not decided: the schedule quantifier itself (discharged compositionally through T3).'),
    'C03': P('reduce family combines every surviving element exactly once',
             ['C03-MAYBE', 'C03-THREAD', 'C03-OUTER', 'C03-WRAP', 'C05-VISIT', 'C05-NOSKIP', 'S2', 'S4', 'S5', 'C15-CLAMP', 'C15-CHUNKCAP', 'C15-CHUNKCAP-U', 'C05-SOURCE', 'C05-WORKER', 'C05-ACCEPT', 'C05-FEED', 'C05-CONSUME', 'C05-FALLIBLE', 'C01-KEEP', 'C05-SEED', 'C01-CONJ', 'C03-OPARG', 'C05-ENTRY', 'C05-OUTSIDE'],
             STATIC + 'Decided: maybe_reduce truth table; accumulator threading in every reduce task; outer operator is the user operator '
             'lifted over Option; provided-method wrappers. Not decided: numerical equality over schedules.'),
    'C04': P('count and for_each visit every surviving element exactly once',
             ['C04-SUM', 'C04-THREAD', 'C04-FOREACH', 'C04-CHAIN', 'C05-VISIT', 'C05-NOSKIP', 'S2', 'S4', 'S5', 'C05-DRIVE', 'C15-CLAMP', 'C15-CHUNKCAP', 'C15-CHUNKCAP-U', 'C05-SOURCE', 'C05-WORKER', 'C05-ACCEPT', 'C05-FEED', 'C05-CONSUME', 'C05-FALLIBLE', 'C01-KEEP', 'C01-CONJ', 'C05-ENTRY', 'C05-OUTSIDE'],
             STATIC + 'Decided: counts are summed with + and default 0; count accumulators are threaded; for_each = count(map(f)); counting '
             'chains cannot skip closures. Not decided: multiset equality over schedules.'),
    'C05': P('closures run exactly once per element; source advanced by one thread at a time',
             ['C05-AFFINE', 'C05-ONCE', 'C05-MERGE', 'C01-COMPOSE', 'C05-VISIT', 'C05-WORKER', 'C05-SOURCE', 'C05-NOSKIP', 'C05-DRIVE', 'C15-CHUNKCAP', 'C05-ACCEPT', 'C05-FEED', 'C05-CONSUME', 'C05-FALLIBLE', 'C01-KEEP', 'C05-SEED', 'C01-CONJ', 'C05-STAGEUSE', 'C05-ENTRY', 'C05-OUTSIDE'],
             STATIC + 'Decided: stage closures take elements by value; by-reference closures are called at most once per element between '
             'pulls and never handed to the runner outside the task; downstream stages run only on survivors; must-visit tasks observe exhaustion and drop no pulled element; every spawn host starts a worker while the source reports elements; by-value '
             'iterators enter only through the serialising wrapper, built from the whole collection; skip_to_end is raised only by find tasks holding '
             'a match; a chain carrying a user closure is never consumed by len/size_hint/is_empty. Not decided: ConIterOfIter really serialises next().'),
    'C06': P('collect_into appends to, and never disturbs, existing contents',
             ['C06-RECV', 'C06-MUT', 'C06-OFFSET', 'C06-GROW', 'C06-BRIDGE', 'C01-RESERVE', 'C01-KEY', 'C05-FEED', 'C05-CONSUME', 'C01-NOSHUFFLE', 'C01-MERGE', 'C09-EMPTY'],
             STATIC + 'Decided: a by-value target is never dropped on a normal path and the result depends on it; &mut targets only receive '
             'appends; the write offset is the target length taken before the run; the reservation before every positional conversion covers existing '
             '+ incoming elements; nothing is appended onto a FixedVec directly; no bridge vector the crate builds by a data conversion goes through the reservation. Not decided: dependency conversions keep contents.'),
    'C07': P('collect_x returns a permutation of the sequential result',
             ['C07-FRAG', 'C07-TASK', 'C07-SEQ', 'C01-APPEND', 'C05-VISIT', 'C05-NOSKIP', 'S1', 'S2', 'S4', 'S5', 'C15-CLAMP', 'C15-CHUNKCAP', 'C15-CHUNKCAP-U', 'C05-SOURCE', 'C05-WORKER', 'C05-ACCEPT', 'C05-FEED', 'C05-CONSUME', 'C05-FALLIBLE', 'C01-KEEP', 'C01-NOSHUFFLE', 'C01-CONJ', 'C05-ENTRY', 'C07-BUFSITE', 'C05-OUTSIDE'],
             STATIC + 'Decided: every per-thread fragment returned by the runner is appended unmodified; tasks only append; sequential mode '
             'is the ordered collect. Not decided: multiset equality over schedules; append keeps all fragments (T3).'),
    'C08': P('NumThreads::Max(n) bounds concurrency; Max(1) runs on the calling thread',
             ['C08-WHO', 'C08-SPAWN', 'C08-GUARD', 'C08-MAX', 'C08-SEQ', 'C08-CALLER', 'S1', 'S6', 'S3', 'S7', 'C12-STORE', 'C12-NOSET', 'C05-ENTRY', 'C05-OUTSIDE'],
             STATIC + 'Decided: threads are created only in the runner entries; every in-loop spawn is guarded by do_spawn and counted; '
             'do_spawn is true only if spawned+1 < max; max <= n for Max(n); Max(1) reaches no runner entry. '
             'Not decided: OS scheduling (thread::scope semantics, T2).'),
    'C09': P('sequential mode is identical to std iterator execution',
             ['S1', 'S6', 'C09-SEQSHAPE', 'C09-EMPTY', 'S3', 'S7', 'C12-STORE', 'C09-TIES', 'C12-NOSET', 'C09-SUMID', 'C09-NOCONC', 'C03-WRAP', 'C01-COMPOSE', 'C02-ACCEPT', 'C05-ACCEPT', 'C05-FEED', 'C05-CONSUME', 'C06-MUT', 'C05-FALLIBLE', 'C01-KEEP', 'C01-NOSHUFFLE', 'C05-SOURCE', 'C01-CONJ', 'S4', 'C05-STAGEUSE', 'C03-OPARG', 'C06-GROW'],
             STATIC + 'Decided: num_threads(1) dispatches to the sequential kernel on every route; sequential kernels are in-order, lazy / '
             'left-fold std chains rooted at into_seq_iter with closures in declaration order and no chunk size; min*/max* wrappers break ties '
             'like std (first minimum, last maximum); no stage is re-parameterised by the library; a composed closure shows a stage only the elements the earlier stages let through. '
             'Not decided: into_seq_iter order (T3).'),
    'C10': P('short-circuit terminals stop consuming input once a match is known',
             ['C10-SIGNAL', 'C10-NOPULL', 'C10-LAZYSEQ', 'C10-LAZYINNER', 'C10-STOPSPAWN', 'C10-CHUNKDEP', 'C02-FIRST', 'S4', 'C16', 'C15-CHUNKCAP', 'S7', 'C05-OUTSIDE'],
             STATIC + 'Decided: every path of a find task that may return a match raised skip_to_end first; no pull is reachable after a '
             'match; sequential find kernels are lazy; composed closures never drain an iterator fed by a user closure; the spawn loop stops when the source is exhausted. '
             'Not decided: liveness under a fair scheduler (T3: skip_to_end makes later pulls return None).'),
    'C11': P('ChunkSize::Exact(c): every pull takes exactly c elements',
             ['C11-RESOLVE', 'C11-RUNNER', 'C11-SPAWN', 'C11-TASKARG', 'C11-PULL', 'S3', 'S7', 'C12-STORE', 'C12-NOSET'],
             STATIC + 'Decided: the origin chain of the chunk size from ChunkSize::Exact(c) through calc_chunk_size, Runner::new, '
             'next_chunk_size*, the spawned closures and the task parameter to every sized pull, with no arithmetic on the way; nothing outside the worker tasks pulls from the source. '
             'Not decided: that a pull of size c takes exactly c (T3).'),
    'C12': P('parameters propagate unchanged through every transformation',
             ['C12-BASE', 'S7', 'C12-FROM', 'S3', 'C12-STORE', 'C12-OBSERVE', 'S6', 'C12-NOSET'],
             STATIC + 'Decided completely (modulo T1/T4) by structural induction over the API: defaults, setters, From<usize>, every '
             'transformation (trait or inherent) forwards self.params, constructors store and destructors return it, params() observes it, '
             'and the library itself never calls a setter.',
             assumes=('T1', 'T4')),
    'C13': P('owned elements are dropped exactly once on all non-panicking paths',
             ['C13-INVENTORY', 'C13-PAIR', 'C13-UNWRAP', 'C13-LEAK', 'C06-RECV', 'C05-VISIT', 'C15-CHUNKCAP', 'C01-RESERVE', 'C13-BUFSITE'],
             STATIC + 'Decided: the inventory of ownership primitives is exactly the reviewed one; every raw read is paired with the '
             'length reset and its slot is read once; bags are unwrapped only through the counts-match check; leak primitives only at '
             'the re-owned site. Not decided: drop counts themselves; dependency drop behaviour (T3).'),
    'C14': P('a panicking closure propagates as a panic and never corrupts memory',
             ['C14-PARTIAL', 'C14-WINDOW', 'C14-PROPAGATE', 'C14-NOWAIT', 'C14-SERIAL', 'S2', 'C13-INVENTORY'],
             STATIC + 'Decided: no destructor of a partially written positional buffer is reachable from the runner call\'s unwind edge '
             '(drop-flag aware); no user code can run inside the double-drop window of the merge; join results are unwrapped, nothing '
             'catches or detaches a panic; no loop on the path of a terminal call waits only on state that other threads advance '
             '(a dead worker advances nothing) and no blocking primitive is called; no chain closure is moved into the serialised source of a '
             'concurrent iterator. Not decided: thread::scope re-raises (T2).'),
    'C15': P('parameters never change a result or make a computation fail',
             ['C15-OBLIG', 'C15-CLAMP', 'C15-ALLOC', 'C15-CHUNKCAP', 'C15-CHUNKCAP-U', 'C15-STACK', 'C15-TIES', 'C01-KEY', 'C01-MERGE', 'C02-MINIDX', 'C02-FIRST', 'C03-THREAD', 'C03-OUTER', 'C03-MAYBE', 'C04-THREAD', 'C04-SUM', 'C05-VISIT', 'C07-FRAG', 'S2', 'S4', 'S5', 'C15-TERMINATE', 'C01-RESERVE', 'C06-BRIDGE', 'C05-SEED', 'C02-EXHAUST', 'C01-NOSHUFFLE', 'C03-OPARG', 'C05-ENTRY', 'C06-GROW', 'C15-BUFSITE', 'C05-OUTSIDE'],
             STATIC + 'Decided: every panic site (overflow/div-by-zero assertion, expect, assert) of the parameter-resolution slice that '
             'depends on the configuration is discharged by a dominating guard, a constructor invariant, an arithmetic lemma or a stated '
             'assumption; every size handed to an allocating API and, for sources of known length, every resolved chunk size is bounded by the '
             'data or the thread budget; the library fixes no stack size for its workers. Not decided: equality of results across configurations (conjunction of C01-C07); panics inside dependencies.',
             extra=['A1 remaining_len reported by the concurrent iterator <= its initial length (T3)',
                    'A2 available_parallelism() <= 2^20 and collection lengths <= isize::MAX']),
    'C16': P('computations are lazy: nothing runs before the terminal call',
             ['C16', 'S3', 'S7', 'C12-STORE', 'C12-NOSET', 'S1'],
             STATIC + 'Decided completely (sound over-approximation): call-graph reachability from every transformation / setter / source '
             'constructor to terminals, kernels, pulls and user-closure calls, not searching through another transformation; the eight '
             'documented-lazy-but-eager sites are known findings, any other is a violation. "Under the parameters in effect at that call": '
             'every terminal hands self.params to its kernel (S3) and every transformation / setter stores the received params unchanged '
             'but for the field it sets (S7, C12-STORE).',
             assumes=('T1', 'T4')),
}
