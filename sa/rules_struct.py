"""Rules that need only the CFG, the call graph and callee inventories (build step 1 of DESIGN section 10)."""
from .engine import rule, RuleOut, key_of
from .facts import strip_generics, callee_of
from .lib import *
from .terms import t_str, subterms, TOP, find_calls, children
from .slots import PAR_TRAIT, IS_SEQ

COLLECT_INTO_CORE = 'par::collect_into::collect_into_core::ParCollectIntoCore'
ORDERED_COLLECTS = ('collect_vec', 'collect', 'collect_into')
FIND_FAMILY = ('find', 'first', 'any', 'all', 'find_with_index', 'first_with_index')


def params_args(body, t):
    """indices of call arguments whose local has type Params"""
    out = []
    for i, o in enumerate(t['args']):
        l = place_local(o)
        if l is not None and body.locals[l]['ty'].endswith('params::Params'):
            out.append(i)
    return out


# ======================================================================================= S1
@rule('S1', 'SEQ-DISPATCH: every route to a thread-spawning entry is guarded by !params.is_sequential() on the same Params')
def s1(ctx):
    out = RuleOut('S1')
    S = ctx.slots
    F = ctx.facts

    def local_guard(body, bb):
        """(ok, tested-params term) if bb is dominated by the false edge of an is_sequential switch of this body"""
        cfg = ctx.cfg(body)
        for (bn, cbb, sbb, tt, ft) in S.seq_switches:
            if bn != body.name or tt == ft:
                continue
            if cfg.edge_dominates(sbb, ft, bb) and bb in cfg.reach(ft):
                r = ctx.run(body.name)
                c = r.calls.get(cbb)
                return True, (c['args'][0] if c and c['args'] else TOP)
        # the dispatch may be spelled through a helper (`match Execution::from(params) { Sequential => .., Parallel(p) => .. }`,
        # `if !is_parallel(params)`): decided by re-executing the body with every is_sequential() answering true - the call must
        # then be unreachable
        tested = []
        tmpl = ctx.opa.run(IS_SEQ).ret if IS_SEQ in F.bodies else None      # what is_sequential(self) is, once inlined

        def unify(t, d, env):
            if t == ('param', 'self'):
                if 'self' in env and env['self'] != d:
                    return False
                env['self'] = d
                return True
            if t is None or d is None or t[0] != d[0] or len(t) != len(d):
                return t == d
            for a, b_ in zip(t[1:], d[1:]):
                if isinstance(a, tuple) and isinstance(b_, tuple) and a and b_ and isinstance(a[0], str) and isinstance(b_[0], str):
                    if not unify(a, b_, env):
                        return False
                elif isinstance(a, tuple) and isinstance(b_, tuple):
                    if len(a) != len(b_) or not all(unify(x, y, env) if isinstance(x, tuple) else x == y for x, y in zip(a, b_)):
                        return False
                elif a != b_:
                    return False
            return True

        def atoms(d):
            if d is not None and d[0] == 'call' and strip_generics(d[1]) == IS_SEQ and d[2]:
                tested.append(d[2][0])
                return True
            if tmpl is not None and d is not None:
                env = {}
                if unify(tmpl, d, env) and 'self' in env:
                    tested.append(env['self'])
                    return True
            return None
        rr = ctx.opa.run(body.name, seeds={'atoms': atoms, 'key': ('S1-seq', body.name)})
        if tested and bb not in rr.visited and bb in ctx.run(body.name).visited:
            return True, tested[0]
        return False, None

    def closure_invocations(cb):
        """[(helper body, bb of the Fn::call)] for a closure that its creator passes as an argument to crate functions which call that
        parameter; [] when the closure goes anywhere else"""
        from .opa import FN_CALLS
        creator = F.bodies.get(cb.parent)
        if creator is None:
            return []
        r = ctx.run(creator.name)
        outl = []
        for cbb, c in r.call_sites():
            for i, a in enumerate(c['args']):
                if a is not None and a[0] == 'closure' and a[1] == cb.name:
                    callee = c['t'].get('resolved') or ''
                    hb = F.bodies.get(callee)
                    if hb is None or i >= len(hb.arg_locals()):
                        return []
                    pname = hb.local_name(hb.arg_locals()[i]) or '_%d' % hb.arg_locals()[i]
                    hr = ctx.run(hb.name)
                    sites = [hbb for hbb, hc in hr.call_sites() if hc['decl'] in FN_CALLS and hc['args'] and hc['args'][0] == ('param', pname)]
                    if not sites:
                        return []
                    outl.extend((hb, hbb) for hbb in sites)
        return outl

    def site_params_term(body, bb):
        r = ctx.run(body.name)
        c = r.calls.get(bb)
        t = body.blocks[bb]['term']
        idx = params_args(body, t)
        if c and idx:
            return c['args'][idx[0]]
        return None

    def guarded(body, bb, depth, trail, expr=None):
        """is the call at (body,bb) only reachable with a non-sequential Params that is the one passed on?  `expr`: the Params value
        that reaches the runner, in terms of this body's own parameters, when a callee derived it from what it was given
        (`fn collect_x_in_parallel(self) { let (params, ..) = self.destruct_x(); kernel(params, ..) }`)"""
        ok, tested = local_guard(body, bb)
        passed = expr if expr is not None else site_params_term(body, bb)
        if ok:
            if passed is not None and tested != passed:
                return False, 'is_sequential() tested on %s but the call passes %s' % (t_str(tested), t_str(passed)), trail
            return True, 'guarded in %s' % key_of(body), trail
        if depth >= 3:
            return False, 'no is_sequential guard within 3 callers', trail
        if body.is_closure():
            # a closure handed to a crate helper that invokes it (`collect_x_with(par, |..| kernel(params, ..))`): the invocation
            # inside the helper must be guarded there
            inv0 = closure_invocations(body)
            if inv0 and all(local_guard(hb, ibb)[0] for (hb, ibb) in inv0):
                return True, 'closure invoked only behind the guard of %s' % ', '.join(sorted({key_of(hb) for hb, _ in inv0})), trail
        # the callee must pass its own Params parameter on unchanged - or a plain projection of its own parameters (a field of `self`),
        # which the callers must then have tested
        derived = None
        if passed is not None and passed[0] != 'param':
            leaves = {x for x in subterms(passed) if x[0] == 'param'}
            plain = all(x[0] in ('param', 'field', 'tuple', 'variant', 'ref', 'mut', 'const') for x in subterms(passed))
            if body.is_closure() or not leaves or not plain:
                return False, 'unguarded call passes a Params that is not the function\'s own parameter (%s)' % t_str(passed), trail
            derived = passed
        host = body
        site_kind = ('direct', 'cha')
        if body.is_closure():
            site_kind = ('closure',)
            # a closure handed to a crate helper that invokes it (`collect_x_with(par, |..| kernel(params, ..))`): the invocation
            # inside the helper must be guarded there
            inv = closure_invocations(body)
            if inv:
                bad_inv = [(hb, ibb) for (hb, ibb) in inv if not local_guard(hb, ibb)[0]]
                if not bad_inv:
                    return True, 'closure invoked only behind the guard of %s' % ', '.join(sorted({key_of(hb) for hb, _ in inv})), trail
        callers = ctx.cg.callers(host.name, kinds=site_kind)
        if not callers:
            return False, 'unguarded and no caller found that could justify it', trail
        for (cn, k, cbb) in callers:
            cb = F.bodies[cn]
            expr2 = None
            if derived is not None:
                cc = ctx.run(cn).calls.get(cbb)
                names = [host.local_name(l) for l in host.arg_locals()]
                if cc is None or len(cc['args']) != len(names):
                    return False, 'unguarded call passes %s and the caller %s cannot be matched to it' % (t_str(derived), key_of(cb)), trail
                from .terms import subst_terms
                expr2 = subst_terms(derived, {('param', nm): a for nm, a in zip(names, cc['args']) if nm and a is not None})
            ok2, why, tr = guarded(cb, cbb, depth + 1, trail + [key_of(cb)], expr2)
            if not ok2:
                return False, 'caller %s: %s' % (key_of(cb), why), tr
        return True, 'guarded in every caller (%s)' % ', '.join(sorted({key_of(F.bodies[c[0]]) for c in callers})), trail

    n_local = 0
    for (bn, bb, entry) in S.runner_call_sites:
        body = F.bodies[bn]
        ok, why, trail = guarded(body, bb, 0, [key_of(body)])
        key = 'S1/%s/%s' % (key_of(body), strip_generics(entry).split('::')[-1])
        if why.startswith('guarded in ' + key_of(body)):
            n_local += 1
        out.inst(key, ok, why, sample={'site': key_of(body), 'entry': strip_generics(entry), 'verdict': why})
        if not ok:
            out.fail(key, 'thread-spawning entry %s is reachable without the !is_sequential() guard: %s' % (strip_generics(entry), why),
                     body.where(body.blocks[bb]['term'].get('line')), {'trail': trail})
    out.floor('runner_call_sites', len(S.runner_call_sites), 6 if not ctx.fixture else 0)
    out.floor('runner_entries', len(S.runner_entries), 3 if not ctx.fixture else 0)
    out.count('guarded_locally', n_local)
    return out


# ======================================================================================= S6
@rule('S6', 'SEQ-CONST: is_sequential(p) is true exactly for num_threads == Max(1)')
def s6(ctx):
    out = RuleOut('S6')
    F = ctx.facts
    b = F.bodies.get(IS_SEQ)
    if b is None:
        out.floor('is_sequential', 0, 1)
        return out
    NT = 'num_threads::NumThreads'
    PAR = 'params::Params'
    K = ('param', 'K')
    rows = []
    probs = []

    def struct_eq(x, y):
        """truth of a derived PartialEq between two variant terms: 0/1, or the payload comparison term"""
        if x[0] == 'variant' and y[0] == 'variant' and x[1] == y[1]:
            if x[2] != y[2]:
                return ('const', 0)
            if not x[3]:
                return ('const', 1)
            if len(x[3]) == 1:
                return ('bin', 'Eq', x[3][0], y[3][0])
        return None

    def norm(t):
        # a derived eq call between known variants
        if t[0] == 'call' and 'PartialEq' in t[1] and len(t[2]) == 2:
            eqb = F.bodies.get(t[1])
            if eqb is not None and not eqb.d.get('derived'):
                return t
            r = struct_eq(t[2][0], t[2][1])
            if r is not None and sg(t[1]).endswith('::ne'):
                # `a != b` is PartialEq::ne: the negation of the structural comparison
                r = ('const', 1 - r[1]) if r[0] == 'const' else ('bin', 'Ne', r[2], r[3])
            return r if r is not None else t
        return t

    def one_of(t):
        """does the term denote the constant 1 (possibly NonZero::new_unchecked(1) etc.)"""
        consts = [x for x in subterms(t) if x[0] == 'const']
        others = [x for x in subterms(t) if x[0] in ('param', 'field', 'phi', 'top')]
        return consts == [('const', 1)] and not others

    auto = ('variant', NT, F.variant_index(NT, 'Auto'), (), 'Auto')
    mx = ('variant', NT, F.variant_index(NT, 'Max'), (K,), 'Max')
    for label, nt in (('Auto', auto), ('Max(K)', mx)):
        arg = ('variant', PAR, 0, (nt, ('param', 'CS')), 'Params')
        r = ctx.opa.run(IS_SEQ, [arg])
        got = norm(r.ret)
        rows.append('%s => %s' % (label, t_str(got)[:80]))
        if label == 'Auto':
            if got != ('const', 0):
                probs.append('is_sequential(num_threads = Auto) = %s, expected false' % t_str(got)[:80])
        else:
            ok = got[0] == 'bin' and got[1] == 'Eq' and ((got[2] == K and one_of(got[3])) or (got[3] == K and one_of(got[2])))
            if not ok:
                # the comparison may be a branch (`matches!(nt, Max(k) if k.get() == 1)`): decide the two cases K == 1 / K != 1 by
                # answering only the branch conditions that compare K with 1; any other undecided branch leaves a set behind
                def strip(x):
                    while x is not None and x[0] == 'call' and len(x[2]) == 1 and term_method(x) in ('get', 'into', 'from', 'clone'):
                        x = x[2][0]
                    return x

                def atoms_for(kval):
                    def f(d):
                        if strip(d) == K:
                            return kval
                        if d[0] == 'bin' and d[1] in ('Eq', 'Ne'):
                            a, c = strip(d[2]), strip(d[3])
                            if (a == K and one_of(c)) or (c == K and one_of(a)):
                                return (kval == 1) == (d[1] == 'Eq')
                        return None
                    return f
                r1 = ctx.opa.run(IS_SEQ, [arg], seeds={'atoms': atoms_for(1), 'key': ('S6', 1)})
                r2 = ctx.opa.run(IS_SEQ, [arg], seeds={'atoms': atoms_for(2), 'key': ('S6', 2)})
                ok = norm(r1.ret) == ('const', 1) and norm(r2.ret) == ('const', 0)
                rows[-1] += ' ; case K == 1 => %s, case K != 1 => %s' % (t_str(r1.ret)[:20], t_str(r2.ret)[:20])
            if not ok:
                probs.append('is_sequential(num_threads = Max(K)) = %s, expected K == 1' % t_str(got)[:80])
    out.inst('S6/is_sequential', not probs, '; '.join(rows), sample={'is_sequential': rows})
    for p_ in probs:
        out.fail('S6/params::Params::is_sequential', p_, b.where())
    out.floor('is_sequential', 1, 1)
    return out


# ======================================================================================= S4
def reach_info(ctx, start):
    prev = ctx.cg.reach(start)
    return prev


def early_exit_tasks(ctx):
    """tasks that raise the early-exit signal (call skip_to_end): the find-family tasks"""
    out = []
    for tn in ctx.slots.tasks:
        b = ctx.facts.bodies[tn]
        bodies = [b] + ctx.facts.closures_in(b)
        if any(is_coniter_call(t, {'skip_to_end'}) for bd in bodies for _, t in bd.calls()):
            out.append(tn)
    return out


def fragment_append_entries(ctx):
    """par entries that append the per-thread vectors as fragments (unordered collection)"""
    out = []
    for pn in ctx.slots.par_entries:
        b = ctx.facts.bodies[pn]
        if any(res(t).endswith('recursive::append::append') or (method(t) == 'append' and 'split_vec' in res(t)) for _, t in b.calls()):
            out.append(pn)
    return out


@rule('S4', 'DISPATCH: terminal -> kernel routing respects the semantic forbids (ordered/unordered, exhaustive/short-circuit)')
def s4(ctx):
    out = RuleOut('S4')
    S = ctx.slots
    F = ctx.facts
    find_tasks = set(early_exit_tasks(ctx))
    frag_entries = set(fragment_append_entries(ctx))
    kernels = set(S.tasks) | set(S.seq_kernels)
    n = 0
    for tn in S.terminals + S.inherent_terminals:
        b = F.bodies[tn]
        m = b.d['method']
        prev = reach_info(ctx, tn)
        reached = set(prev)
        rt = reached & set(S.tasks)
        rk = reached & kernels
        key = 'S4/%s' % key_of(b)
        n += 1
        problems = []
        if m in ORDERED_COLLECTS:
            bad = reached & frag_entries
            if bad:
                problems.append(('ordered collect reaches the unordered fragment-append entry', sorted(bad)[0]))
        if m in FIND_FAMILY:
            bad = rt - find_tasks
            if bad:
                problems.append(('short-circuit terminal reaches an exhaustive task', sorted(bad)[0]))
        else:
            bad = rt & find_tasks
            if bad:
                problems.append(('exhaustive terminal reaches an early-exit (find) task', sorted(bad)[0]))
        if not rk:
            # must consume into_seq_iter itself (ParEmpty's sequential collects) somewhere on its own path
            seq = False
            for x in reached:
                xb = F.bodies[x]
                if any(is_coniter_call(t, {'into_seq_iter'}) for _, t in xb.calls()):
                    seq = True
            if not seq:
                problems.append(('terminal reaches no kernel and no into_seq_iter()', None))
        # every path of the terminal goes through a call that reaches a kernel / consumes into_seq_iter: no shortcut
        # may answer from metadata (a stored length, a size hint) without visiting the elements
        routing = set()
        for bb2, t2 in b.calls():
            tg, kind = ctx.cg.targets_of(t2)
            if is_coniter_call(t2, {'into_seq_iter'}):
                routing.add(bb2)
                continue
            for cal in (tg or []):
                sub = set(ctx.cg.reach(cal))
                if (sub | {cal}) & kernels or any(any(is_coniter_call(t3, {'into_seq_iter'}) for _, t3 in F.bodies[x].calls()) for x in sub | {cal}):
                    routing.add(bb2)
        cfgb = ctx.cfg(b)
        esc = [x for x in cfgb.returns if x in cfgb.reach(0, avoid=routing)]
        if esc and m != 'params':
            problems.append(('terminal can return on a path that never reaches a kernel (an answer not computed from the elements)', None))
        out.inst(key, not problems, 'tasks=%d kernels=%d' % (len(rt), len(rk)),
                 sample={'terminal': key_of(b), 'tasks': sorted(strip_generics(x) for x in rt)[:6]})
        for (msg, tgt) in problems:
            path = [strip_generics(x) for x in ctx.cg.path_to(prev, tgt)] if tgt else []
            out.fail(key + '/' + msg.split(' reaches ')[-1].replace(' ', '-'), '%s: %s' % (key_of(b), msg), b.where(), {'path': path})
    out.floor('terminals', n, 80 if not ctx.fixture else 0)
    out.floor('find_tasks', len(find_tasks), 3 if not ctx.fixture else 0)
    out.floor('fragment_append_entries', len(frag_entries), 1 if not ctx.fixture else 0)
    return out


# ======================================================================================= C16
SOURCE_CONSUMERS = PULL_SIZED | PULL_ELEMENT | {'into_seq_iter', 'skip_to_end'}
ITER_CONSUMERS = ITER_EXHAUSTIVE | ITER_SHORT_CIRCUIT | {'next', 'nth', 'last'}


def _unref(t):
    while t is not None and t[0] in ('mut', 'ref'):
        t = t[1]
    return t


def crate_builder_param(ctx, b, p, depth=0):
    """the closure-typed parameter `p` of the private crate function `b` never holds a user closure: every call of `b` in the crate
    hands it a closure *literal* whose body (and what it reaches) neither runs user code nor consumes elements - a building step
    such as `self.refine_filter(|filter1| both(filter1, filter))`, which only composes closures"""
    F = ctx.facts
    if b.d.get('vis_pub') or b.kind == 'Closure' or depth > 2:
        return False
    idx = None
    for i, l in enumerate(b.arg_locals()):
        if local_type_param(b, l) == p:
            idx = i if idx is None else -1
    if idx is None or idx < 0:
        return False
    sites = 0
    for cb in F.bodies.values():
        for bb, t in cb.calls():
            if callee_of(t) != b.name:
                continue
            sites += 1
            c = ctx.run0(cb.name).calls.get(bb)
            a = c['args'][idx] if c is not None and idx < len(c['args']) else None
            if a is None or a[0] != 'closure' or a[1] not in F.bodies:
                return False
            for n in [a[1]] + [x for x in ctx.cg.reach(a[1]) if x != a[1]]:
                nb = F.bodies.get(n)
                if nb is None or _sink_events(ctx, nb, depth + 1):
                    return False
    return sites > 0


def body_sink_events(ctx, b):
    return _sink_events(ctx, b, 0)


def _sink_events(ctx, b, depth):
    """events inside one body that run user code or consume source elements"""
    ev = []
    for bb, t in b.calls():
        p = is_user_closure_call(t, b)
        if p and crate_builder_param(ctx, b, p, depth):
            p = None
        if p:
            ev.append(('calls user closure %s' % p, t.get('line')))
        if is_coniter_call(t, SOURCE_CONSUMERS) or is_buffered_next(t):
            ev.append(('consumes the concurrent iterator (%s)' % method(t), t.get('line')))
        d = decl(t)
        if d.startswith(ITER) and d[len(ITER):] in ITER_CONSUMERS:
            ev.append(('drives an iterator (%s)' % method(t), t.get('line')))
    return ev


def only_stored(term, p, depth=0):
    """every occurrence of p in term is a capture of a closure or a component of an aggregate - never an argument of a call"""
    if term is None or depth > 40:
        return True
    if term == p:
        return True
    k = term[0]
    if k == 'closure':
        return True          # captured: runs only when the closure is called
    if k == 'call':
        return not any(x == p for a in term[2] for x in subterms(a) if True) or all(p not in set(subterms(a)) or (a[0] == 'closure') for a in term[2])
    return all(only_stored(x, p, depth + 1) for x in children(term))


@rule('C16', 'LAZY: no transformation / setter / source constructor reaches a terminal, a kernel, a pull or a user-closure call')
def c16(ctx):
    out = RuleOut('C16')
    S = ctx.slots
    F = ctx.facts
    cg = ctx.cg
    sources = list(S.transformations) + list(S.setters) + list(S.sources) + list(S.constructors)
    srcset = set(sources)
    sink_bodies = (set(S.terminals) | set(S.inherent_terminals) | set(S.par_entries) | set(S.runner_entries)
                   | set(S.seq_kernels) | set(S.tasks))
    for b in F.bodies.values():
        if b.d.get('impl_trait') == COLLECT_INTO_CORE:
            sink_bodies.add(b.name)
    if cg.indirect:
        for bn, lst in cg.indirect.items():
            out.fail('C16/indirect-call/%s' % key_of(F.bodies[bn]), 'indirect (fn pointer / dyn) call: laziness cannot be decided by call-graph reachability',
                     F.bodies[bn].where(), kind='undecided')
    roots = {}
    for s in sources:
        b = F.bodies[s]
        prev = cg.reach(s, stop=lambda n: n in srcset)
        hit = None
        for n in prev:
            if n != s and n in srcset:
                continue
            nb = F.bodies[n]
            if n != s and n in sink_bodies:
                hit = (n, 'reaches %s' % strip_generics(n))
                break
            ev = body_sink_events(ctx, nb)
            if ev:
                hit = (n, '%s in %s' % (ev[0][0], strip_generics(n)))
                break
        key = 'C16/%s' % key_of(b)
        if hit:
            roots[s] = hit
            path = [strip_generics(x) for x in cg.path_to(prev, hit[0])]
            # extend the witness down to a thread-spawning entry when there is one
            deeper = cg.reach(hit[0])
            for e in S.runner_entries:
                if e in deeper:
                    path += [strip_generics(x) for x in cg.path_to(deeper, e)[1:]]
                    break
            out.inst(key, False, hit[1], sample={'source': key_of(b), 'path': path})
            out.fail(key, 'eager transformation: %s %s before any terminal is called' % (key_of(b), hit[1]), b.where(), {'path': path, 'kind': 'root'})
        else:
            out.inst(key, True, 'only stores/composes', sample=None)
    # delegates: reach a root through resolved (direct) calls only
    for s in sources:
        if s in roots:
            continue
        b = F.bodies[s]
        prev = cg.reach(s, kinds=('direct',), stop=lambda n: n in roots)
        for n in prev:
            if n in roots and n != s:
                path = [strip_generics(x) for x in cg.path_to(prev, n)]
                key = 'C16/%s' % key_of(b)
                out.fail(key, 'eager transformation (delegate): %s always calls the eager %s' % (key_of(b), strip_generics(n)), b.where(),
                         {'path': path, 'kind': 'delegate'})
                break
    # nothing received at construction time is handed out by mutable reference to library code: that is how a source is
    # advanced without any Iterator-trait call being visible (Peekable::peek, Receiver::recv through by_ref, ...)
    n_mut = 0
    for s in sources:
        b = F.bodies[s]
        r = ctx.run(s)
        seen = set()
        terms = [a for _, c in r.call_sites() for a in c['args']] + ([r.ret] if r.ret is not None else [])
        for a in terms:
            if a is None:
                continue
            for x in subterms(a):
                if x[0] == 'mut' and x not in seen:
                    seen.add(x)
                    n_mut += 1
                    if any(y[0] == 'param' for y in subterms(x[1])) and x[2][0] == 'call':
                        m = term_method(x[2])
                        c_ = term_callee(x[2])
                        if c_ in F.bodies or strip_generics(c_) in {strip_generics(n) for n in F.bodies}:
                            continue        # crate-local callee: covered by reachability above
                        key = 'C16/%s/advances/%s' % (key_of(b), m)
                        out.inst(key, False, t_str(x)[:120])
                        out.fail(key, 'eager: %s lets %s mutate a value it received (%s) before any terminal is called: a source '
                                      'can be advanced this way without a visible Iterator call' % (key_of(b), c_, t_str(x[1])[:80]), b.where())
    out.count('mutations_seen', n_mut)
    # the closure a transformation receives is stored / composed, never handed to anything that runs it: its only consumers are
    # constructors, other transformations (which are judged themselves) and closure literals that are consumed in the same way
    allowed = set(S.constructors) | set(S.transformations) | set(S.setters) | set(S.par_methods)
    n_own = 0
    for s_ in S.transformations:
        b = F.bodies[s_]
        fb = b.fn_bounds()
        own = [('param', b.local_name(l)) for l in b.arg_locals() if local_type_param(b, l) in fb and b.local_name(l) != 'self']
        if not own:
            continue
        r = ctx.run(s_)
        for bb, c in r.call_sites():
            cal = callee_of(c['t'])
            d_ = decl(c['t'])
            if cal in allowed or (d_.startswith(PAR_TRAIT + '::') and method(c['t']) in ('map', 'filter', 'flat_map', 'filter_map', 'num_threads', 'chunk_size')):
                continue
            if d_ in ('std::clone::Clone::clone', 'std::convert::Into::into', 'std::convert::From::from'):
                continue
            # a composition helper: a loop-free crate function in whose value the closure is merely stored - captured by a new closure or
            # placed in a tuple / struct - and never an operand of a call (`compose(self, then) -> (params, iter, move |x| then(map(x)))`)
            if c['t'].get('local') and cal in F.bodies and not ctx.cfg(F.bodies[cal]).loops() and c['res'] is not None and \
                    not (c['res'][0] == 'call' and c['res'][1] == cal) and all(only_stored(c['res'], p_) for p_ in own):
                continue
            if d_ in ('std::ops::Fn::call', 'std::ops::FnMut::call_mut', 'std::ops::FnOnce::call_once') and c['args'] and _unref(c['args'][0]) in own:
                # a private helper whose closure parameter is always a building step written in the crate (judged at those literals)
                tp = [local_type_param(b, l) for l in b.arg_locals() if ('param', b.local_name(l)) == _unref(c['args'][0])]
                if tp and crate_builder_param(ctx, b, tp[0]):
                    continue
            for a in c['args']:
                hit = [p_ for p_ in own if any(x == p_ for x in subterms(a))]
                if hit:
                    n_own += 1
                    key = 'C16/%s/runs-own-closure/%s' % (key_of(b), hit[0][1])
                    out.inst(key, False, res(c['t']))
                    out.fail(key, 'eager: %s hands its own closure `%s` to %s instead of storing it in the computation it returns: that closure runs while the '
                                  'computation is being built, under the parameters set so far' % (key_of(b), hit[0][1], res(c['t'])), b.where(c['line']))
                    break
    out.count('own_closures_run_eagerly', n_own)
    # constructors only store
    for c in S.constructors:
        b = F.bodies[c]
        calls = [t for _, t in b.calls() if not t.get('exp') and decl(t) != 'std::default::Default::default' and callee_of(t) not in S.constructors]
        if calls:
            out.fail('C16/ctor-calls/%s' % key_of(b), 'constructor %s calls %s instead of only storing its arguments' % (key_of(b), res(calls[0])), b.where())
    out.floor('sources', len(sources), 85 if not ctx.fixture else 0)
    out.count('obligations', len(sources))
    out.count('discharged', len(sources) - len({f.key for f in out.findings}))
    return out


# ======================================================================================= C08-WHO
THREAD_OK_IN_ENTRY = {'std::thread::scope', 'std::thread::Scope::spawn', 'std::thread::ScopedJoinHandle::join'}
THREAD_BUILDER = {'std::thread::Builder::new', 'std::thread::Builder::name', 'std::thread::Builder::spawn_scoped', 'std::thread::scoped::spawn_scoped', 'std::thread::Builder::stack_size'}
THREAD_HARMLESS = {'std::thread::available_parallelism', 'std::thread::current', 'std::thread::yield_now', 'std::thread::sleep',
                   'std::thread::panicking', 'std::thread::ScopedJoinHandle::is_finished', 'std::thread::ScopedJoinHandle::thread'}


@rule('C08-WHO', 'who-may-call: threads are created and joined only inside the runner entries')
def c08_who(ctx):
    out = RuleOut('C08-WHO')
    S = ctx.slots
    F = ctx.facts
    n = 0
    # spawn wrappers: loop-free crate functions whose value is a spawn handle for a closure they received, called only from
    # inside the runner entries (`fn spawn(s, task) { Builder::new().spawn_scoped(s, task).expect(..) }`)
    from .spawnmodel import spawn_of_term
    wrappers = set()
    for b in F.fn_bodies():
        if b.is_closure() or b.name in S.runner_entries or ctx.cfg(b).loops():
            continue
        if not any(res(t).startswith('std::thread::') for _, t in b.calls()):
            continue
        r = ctx.run(b.name)
        sp = spawn_of_term(r.ret) if r.ret is not None else None
        params = {('param', b.local_name(l) or '_%d' % l) for l in b.arg_locals()}
        callers = [F.root_of(cb).name for cb in F.fn_bodies() for _, t in cb.calls() if callee_of(t) == b.name]
        if sp and sp[0] in params and callers and all(c_ in S.runner_entries for c_ in callers):
            wrappers.add(b.name)
    for b in F.fn_bodies():
        root = F.root_of(b)
        for bb, t in b.calls():
            p = res(t)
            if not (p.startswith('std::thread::') or p.startswith('std::thread::scoped::')):
                continue
            if p in THREAD_HARMLESS:
                continue
            n += 1
            key = 'C08-WHO/%s/%s' % (key_of(root), p.split('::')[-1])
            if (p in THREAD_OK_IN_ENTRY or p in THREAD_BUILDER) and (root.name in S.runner_entries or root.name in wrappers):
                out.inst(key, True, p, sample={'site': key_of(b), 'callee': p})
                continue
            out.inst(key, False, p)
            out.fail(key, 'thread API %s called in %s, outside the scoped runner entries' % (p, key_of(b)), b.where(t.get('line')))
    out.floor('thread_api_sites', n, 3 if not ctx.fixture else 0)
    return out


# ======================================================================================= C06-RECV
BAG_HEADS = ('adt:orx_concurrent_ordered_bag::ConcurrentOrderedBag', 'adt:orx_concurrent_bag::ConcurrentBag',
             'adt:orx_pinned_concurrent_col::PinnedConcurrentCol')


def recv_targets(ctx):
    """(body, local, role) of by-value collection targets that must reach the result"""
    F = ctx.facts
    out = []
    for b in F.bodies.values():
        if b.kind not in ('Fn', 'AssocFn'):
            continue
        ret = b.d.get('ret_ty')
        tr = b.d.get('impl_trait')
        m = b.d.get('method')
        cand = []
        if tr == COLLECT_INTO_CORE:
            for l in b.arg_locals():
                if b.locals[l]['ty'] == ret or b.local_name(l) == 'self':
                    cand.append((l, 'collect_into_core.%s' % m))
        elif tr == PAR_TRAIT and m == 'collect_into':
            for l in b.arg_locals():
                if b.locals[l]['ty'] == ret:
                    cand.append((l, 'Par::collect_into target'))
        else:
            for l in b.arg_locals():
                if b.locals[l]['head'] in BAG_HEADS:
                    cand.append((l, 'bag parameter'))
        for (l, role) in cand:
            out.append((b, l, role))
    return out


@rule('C06-RECV', 'a by-value collection target is never dropped on a normal path and the result depends on it')
def c06_recv(ctx):
    out = RuleOut('C06-RECV')
    tg = recv_targets(ctx)
    for (b, l, role) in tg:
        r = ctx.run(b.name)
        nm = b.local_name(l) or '_%d' % l
        key = 'C06-RECV/%s/%s' % (key_of(b), nm)
        drops = []
        for bb in sorted(r.visited):
            blk = b.blocks[bb]
            t = blk['term']
            if t['t'] == 'drop' and not blk['cleanup'] and t['pl']['l'] == l:
                drops.append((bb, t))
        dep = any(x == ('param', nm) for x in r.deep_subterms(r.ret)) if r.ret is not None else False
        unit = b.d.get('ret_head') == 'unit'
        ok = not drops and (dep or unit)
        out.inst(key, ok, role, sample={'fn': key_of(b), 'target': nm, 'ret': t_str(r.ret)[:300]})
        for (bb, t) in drops:
            out.fail(key, '%s: the target `%s` (%s) is dropped on a normal path (drop of %s) - its previous contents are lost'
                     % (key_of(b), nm, role, t['ty']), b.where(t.get('line')), {'block': bb, 'ret': t_str(r.ret)[:400]})
        if not drops and not (dep or unit):
            out.fail(key + '/independent', '%s: the returned value does not depend on the target `%s` (%s)' % (key_of(b), nm, role), b.where(),
                     {'ret': t_str(r.ret)[:400]})
    out.floor('targets', len(tg), 20 if not ctx.fixture else 0)
    return out


# ======================================================================================= C06-MUT
@rule('C06-MUT', 'kernels that fill a &mut target only append to it')
def c06_mut(ctx):
    out = RuleOut('C06-MUT')
    F = ctx.facts
    S = ctx.slots
    n = 0
    hosts = set(S.par_entries) | set(S.seq_kernels)
    for b in F.bodies.values():
        if b.d.get('impl_trait') == COLLECT_INTO_CORE:
            hosts.add(b.name)
    for hn in sorted(hosts):
        b = F.bodies[hn]
        mut_targets = [l for l in b.arg_locals() if b.locals[l]['ty'].startswith('&mut ') or 'ConcurrentOrderedBag<' in b.locals[l]['ty'] or 'ConcurrentBag<' in b.locals[l]['ty']]
        self_target = [l for l in b.arg_locals() if b.d.get('impl_trait') == COLLECT_INTO_CORE and b.local_name(l) == 'self']
        if not mut_targets and not self_target:
            continue
        r = ctx.run(b.name)
        names = {('param', b.local_name(l) or '_%d' % l) for l in mut_targets + self_target}
        for bb, c in r.call_sites():
            if not c['args']:
                continue
            a0 = c['args'][0]
            base = a0
            hops = 0
            while base is not None and hops < 12:
                hops += 1
                if base[0] in ('mut', 'field', 'ref'):
                    base = base[1]
                elif base[0] == 'phi':
                    # a target that is mutated inside a loop: where the loop-carried value started
                    base = r.init.get((base[1], base[2]))
                elif base[0] == 'call' and base[2] and term_method(base) in ('into_inner', 'unwrap_only_if_counts_match', 'into', 'from'):
                    # the target unwrapped / converted from the by-value parameter that carries it
                    base = base[2][0]
                else:
                    break
            if base not in names:
                continue
            mth = c['t'].get('method') or ''
            n += 1
            key = 'C06-MUT/%s/%s' % (key_of(b), mth)
            if mth in BUF_DISTURB:
                out.inst(key, False, mth)
                out.fail(key, '%s calls `%s` on the collection target: existing contents may be disturbed' % (key_of(b), mth), b.where(c['line']))
            else:
                out.inst(key, True, mth, sample={'fn': key_of(b), 'call': mth})
    # a plain assignment through the target reference (`*output = new_contents`) replaces what was there
    for hn in sorted(hosts):
        b = F.bodies[hn]
        mut_targets = [l for l in b.arg_locals() if b.locals[l]['ty'].startswith('&mut ')]
        if not mut_targets:
            continue
        r = ctx.run(b.name)
        names = {('param', b.local_name(l) or '_%d' % l) for l in mut_targets}
        for (sbb, si), st in r.stores.items():
            ptr = st['ptr']
            hops = 0
            while ptr is not None and ptr[0] in ('ref', 'mut') and hops < 6:
                ptr = ptr[1] if isinstance(ptr[1], tuple) else None
                hops += 1
            if ptr in names:
                key = 'C06-MUT/%s/assign' % key_of(b)
                out.inst(key, False, 'store through the target reference')
                out.fail(key, '%s assigns a new value through the `&mut` collection target (%s = ..): the previous contents are replaced, not extended' % (key_of(b), t_str(ptr)), b.where(st.get('line')))
    out.floor('target_calls', n, 5 if not ctx.fixture else 0)
    return out


# ======================================================================================= C14-PARTIAL
def bag_wrapper_adts(ctx):
    """crate-local ADTs that hold a positional buffer and whose destruction touches it: a field of a bag type that is
    not under ManuallyDrop, or any bag-typed field when the ADT has its own `impl Drop`"""
    F = ctx.facts
    bag_paths = [h.split(':', 1)[1] for h in BAG_HEADS]
    drops = {im['self_head'] for im in F.impls if im.get('trait') in ('std::ops::Drop', 'core::ops::Drop')}
    out = set()
    for path, a in F.adts.items():
        if a.get('ext'):
            continue
        for v in a['variants']:
            for f in v['fields']:
                ty = f.get('ty', '')
                if any(bp in ty for bp in bag_paths):
                    if 'ManuallyDrop<' not in ty or ('adt:' + path) in drops:
                        out.add('adt:' + path)
    return out


@rule('C14-PARTIAL', 'a partially written positional buffer has no destructor reachable from the runner call\'s unwind edge')
def c14_partial(ctx):
    out = RuleOut('C14-PARTIAL')
    S = ctx.slots
    F = ctx.facts
    n = 0
    for (bn, bb, entry) in S.runner_call_sites:
        b = F.bodies[bn]
        clo, _ = S.task_of_site.get((bn, bb), (None, []))
        # locals of a positional-buffer type that the task closure can reach (captured by reference)
        wrappers = bag_wrapper_adts(ctx)
        bag_locals = [l for l, d in b.locals.items() if d['head'] in BAG_HEADS or d['head'] in wrappers or
                      (d['head'].startswith('adt:std::mem::ManuallyDrop') and any(h.split(':', 1)[1] in d['ty'] for h in BAG_HEADS))]
        raw_bags = [l for l in bag_locals if b.locals[l]['head'] in BAG_HEADS or b.locals[l]['head'] in wrappers]
        if not bag_locals:
            continue
        t = b.blocks[bb]['term']
        key0 = 'C14-PARTIAL/%s' % key_of(b)
        if not isinstance(t.get('unwind'), int):
            n += 1
            out.inst(key0, True, 'runner call cannot unwind into a cleanup block')
            continue
        r = ctx.run(b.name)
        env = r.exit_env.get(bb)
        if env is None:
            continue
        r2 = ctx.opa.run(b.name, unwind=True, start=t['unwind'], start_env=env)
        bad = []
        for x in sorted(r2.visited):
            tx = b.blocks[x]['term']
            if tx['t'] == 'drop' and tx['pl']['l'] in raw_bags:
                bad.append((x, tx))
        n += 1
        out.inst(key0, not bad, 'bag locals %s' % [b.local_name(l) for l in bag_locals],
                 sample={'fn': key_of(b), 'unwind_blocks_visited': len(r2.visited), 'bag_drops_on_unwind': len(bad)})
        for (x, tx) in bad:
            out.fail(key0 + '/' + (b.local_name(tx['pl']['l']) or 'bag'),
                     '%s: `%s` (%s) is dropped while unwinding from %s - its destructor runs over never-initialised slots'
                     % (key_of(b), b.local_name(tx['pl']['l']), tx['ty'][:80], strip_generics(entry)), b.where(tx.get('line')),
                     {'cleanup_block': x, 'unwind_from_block': bb})
    out.floor('positional_buffer_sites', n, 1 if not ctx.fixture else 0)
    return out


# ======================================================================================= C14-PROPAGATE
PANIC_API = ('std::panic::catch_unwind', 'std::panic::resume_unwind', 'std::panic::set_hook', 'std::panic::take_hook',
             'std::process::abort', 'std::process::exit', 'std::thread::spawn', 'std::thread::JoinHandle::join',
             'std::thread::Builder::spawn', 'std::thread::Builder::spawn_scoped', 'std::thread::Builder::spawn_unchecked')
SYNC_PREFIXES = ('std::sync::Mutex', 'std::sync::RwLock', 'std::sync::Condvar', 'std::sync::Barrier', 'std::sync::mpsc',
                 'std::sync::mpmc', 'std::sync::Once', 'std::sync::OnceLock', 'std::thread::park', 'std::sync::poison')


@rule('C14-PROPAGATE', 'no panic is caught, swallowed or turned into an abort; no locks exist that could hang')
def c14_propagate(ctx):
    out = RuleOut('C14-PROPAGATE')
    F = ctx.facts
    n = 0
    for b in F.fn_bodies():
        for bb, t in b.calls():
            p = res(t)
            n += 1
            if p in PANIC_API or any(p.startswith(x) for x in SYNC_PREFIXES):
                key = 'C14-PROPAGATE/%s/%s' % (key_of(F.root_of(b)), p.split('::')[-1])
                out.fail(key, '%s calls %s: a worker panic may be caught, detached, aborted on, or a lock may hang' % (key_of(b), p),
                         b.where(t.get('line')))
    drops = [im for im in F.impls if im.get('trait') in ('std::ops::Drop', 'core::ops::Drop')]
    for im in drops:
        # a Drop impl is tolerated only if its body cannot panic (no calls that unwind)
        for mname in im['methods']:
            mb = F.bodies.get(mname)
            if mb is None:
                continue
            unw = [t for _, t in mb.calls() if t.get('unwind') != 'unreachable']
            if unw:
                out.fail('C14-PROPAGATE/drop-impl/%s' % strip_generics(im['self_ty']),
                         'impl Drop for %s contains calls that may panic (panic while unwinding aborts the process)' % im['self_ty'], mb.where())
    toml = F.cargo_toml()
    import re
    if re.search(r'^\s*panic\s*=\s*"abort"', toml, re.M):
        out.fail('C14-PROPAGATE/cargo-panic-abort', 'Cargo.toml sets panic = "abort": a panicking closure aborts the process instead of propagating', 'Cargo.toml')
    if F.opts.get('panic') not in (None, 'Unwind'):
        out.fail('C14-PROPAGATE/panic-strategy', 'the crate is compiled with panic strategy %s' % F.opts.get('panic'), 'Cargo.toml')
    out.inst('C14-PROPAGATE/call-sites', True, '%d call sites scanned, %d Drop impls' % (n, len(drops)), sample={'call_sites': n, 'drop_impls': len(drops)})
    out.inst('C14-PROPAGATE/cargo', True, 'panic strategy %s' % F.opts.get('panic'))
    out.floor('call_sites_scanned', n, 300 if not ctx.fixture else 0)
    return out


# ======================================================================================= C13 inventories
def is_own_prim(p, t):
    m = p.split('::')[-1]
    if p.startswith('std::ptr::') or p.startswith('core::ptr::'):
        if m in ('read', 'read_unaligned', 'read_volatile', 'copy', 'copy_nonoverlapping', 'copy_to', 'copy_from',
                 'copy_to_nonoverlapping', 'copy_from_nonoverlapping', 'replace', 'swap', 'drop_in_place', 'write', 'write_bytes'):
            return 'ptr::%s' % m
    if p in ('std::mem::transmute_copy', 'std::mem::zeroed', 'std::mem::uninitialized', 'std::mem::transmute'):
        return m
    if 'MaybeUninit' in p and m.startswith('assume_init'):
        return 'MaybeUninit::%s' % m
    if m in ('set_len', 'from_raw_parts', 'from_raw_parts_in', 'from_raw', 'from_raw_in') and (p.startswith('std::') or p.startswith('alloc::')):
        return m
    if ('ConcurrentOrderedBag' in p or 'ConcurrentBag' in p or 'PinnedConcurrentCol' in p) and m in (
            'set_value', 'set_values', 'set_n_values', 'write', 'write_n_items', 'assign', 'n_items_buffer_as_mut_slices', 'push_unchecked'):
        return 'bag::%s' % m
    return None


def merge_functions(ctx):
    """bodies that both move values out by raw read and forge a vector length: the k-way merges"""
    out = []
    for b in ctx.facts.fn_bodies():
        ms = {is_own_prim(res(t), t) for _, t in b.calls()}
        inner = {is_own_prim(res(t), t) for cb in ctx.facts.closures_in(b) for _, t in cb.calls()}
        if any(m and m.startswith('ptr::read') for m in ms) and ('set_len' in ms or 'set_len' in inner):
            out.append(b.name)
    return out


@rule('C13-INVENTORY', 'ownership-duplicating / length-forging primitives occur only in bodies that have a pairing rule')
def c13_inventory(ctx):
    out = RuleOut('C13-INVENTORY')
    F = ctx.facts
    S = ctx.slots
    merges = set(merge_functions(ctx))
    n = 0
    n_unsafe = 0
    KNOWN_UNSAFE = ('add', 'read', 'set_len', 'set_value', 'set_values', 'unwrap_only_if_counts_match', 'new_unchecked')
    for b in F.fn_bodies():
        root = F.root_of(b)
        for bb, t in b.calls():
            if t.get('exp'):
                continue
            p = res(t)
            prim = is_own_prim(p, t)
            if prim:
                n += 1
                key = 'C13-INVENTORY/%s/%s' % (key_of(root), prim)
                if prim.startswith('bag::'):
                    ok = root.name in S.tasks
                    why = 'positional write inside a task (keys decided by C01-KEY)' if ok else 'positional write outside the tasks'
                else:
                    ok = root.name in merges
                    why = 'inside a k-way merge (pairing decided by C13-PAIR)' if ok else 'no pairing rule covers this body'
                out.inst(key, ok, why, sample={'site': key_of(b), 'primitive': prim})
                if not ok:
                    out.fail(key, 'ownership primitive %s in %s: %s - cannot establish exactly-once drop for it' % (prim, key_of(b), why),
                             b.where(t.get('line')), kind='undecided')
            elif t.get('unsafe'):
                n_unsafe += 1
                # a crate-local unsafe fn is no primitive of its own: its body is scanned by this very loop
                if method(t) not in KNOWN_UNSAFE and not (t.get('local') and callee_of(t) in F.bodies):
                    out.fail('C13-INVENTORY/%s/unsafe-%s' % (key_of(root), method(t)),
                             'unsafe callee %s in %s is outside the reviewed inventory' % (p, key_of(b)), b.where(t.get('line')), kind='undecided')
    out.floor('ownership_primitive_sites', n, 3 if not ctx.fixture else 0)
    out.count('other_unsafe_callees', n_unsafe)
    out.floor('merge_functions', len(merges), 1 if not ctx.fixture else 0)
    return out


@rule('C13-UNWRAP', 'a positional bag is turned back into a vector only through the counts-match check')
def c13_unwrap(ctx):
    out = RuleOut('C13-UNWRAP')
    F = ctx.facts
    n_into = 0
    n_ok = 0
    for b in F.fn_bodies():
        r = None
        for bb, t in b.calls():
            p = res(t)
            if 'IntoInnerResult' in p:
                m = method(t)
                key = 'C13-UNWRAP/%s/%s' % (key_of(F.root_of(b)), m)
                if m != 'unwrap_only_if_counts_match':
                    out.inst(key, False, m)
                    out.fail(key, '%s unwraps the bag with IntoInnerResult::%s, which hands out a vector with gaps (never-written slots)' % (key_of(b), m),
                             b.where(t.get('line')))
                else:
                    r = r or ctx.run(b.name)
                    c = r.calls.get(bb)
                    src_ok = bool(c and c['args'] and term_callee(c['args'][0]).endswith('ConcurrentOrderedBag::into_inner'))
                    n_ok += 1
                    out.inst(key, src_ok, 'argument is into_inner(bag)' if src_ok else 'argument is not into_inner(bag)',
                             sample={'site': key_of(b), 'arg': t_str(c['args'][0])[:200] if c and c['args'] else None})
            if p.endswith('ConcurrentOrderedBag::into_inner'):
                n_into += 1
                r = r or ctx.run(b.name)
                # the result must be consumed by the counts-match unwrap and by nothing else
                def raw_use(tm):
                    st = [tm]
                    while st:
                        x = st.pop()
                        if x is None:
                            continue
                        if x[0] == 'call' and term_callee(x).endswith('IntoInnerResult::unwrap_only_if_counts_match'):
                            continue        # already checked: what is inside is consumed correctly
                        if x[0] == 'call' and term_callee(x).endswith('ConcurrentOrderedBag::into_inner'):
                            return True
                        st.extend(children(x))
                    return False
                users = [c for _, c in r.call_sites() if any(term_callee(a).endswith('ConcurrentOrderedBag::into_inner') or raw_use(a) for a in c['args'])]
                bad = [c for c in users if method(c['t']) != 'unwrap_only_if_counts_match']
                if not users or bad:
                    out.fail('C13-UNWRAP/%s/into_inner' % key_of(F.root_of(b)), '%s: the result of ConcurrentOrderedBag::into_inner is not consumed by unwrap_only_if_counts_match' % key_of(b),
                             b.where(t.get('line')))
    out.floor('into_inner_sites', n_into, 1 if not ctx.fixture else 0)
    out.floor('counts_match_unwraps', n_ok, 1 if not ctx.fixture else 0)
    return out


LEAK_API = {'std::mem::forget': 'forget', 'std::mem::ManuallyDrop::new': 'ManuallyDrop::new', 'std::boxed::Box::leak': 'Box::leak',
            'std::vec::Vec::leak': 'Vec::leak', 'std::boxed::Box::into_raw': 'Box::into_raw', 'std::vec::Vec::into_raw_parts': 'Vec::into_raw_parts',
            'std::mem::ManuallyDrop::take': 'ManuallyDrop::take', 'std::rc::Rc::into_raw': 'Rc::into_raw', 'std::sync::Arc::into_raw': 'Arc::into_raw',
            'std::string::String::leak': 'String::leak'}


@rule('C13-LEAK', 'values are leaked only at the reviewed site (the ordered bag held across the runner call and re-owned afterwards)')
def c13_leak(ctx):
    out = RuleOut('C13-LEAK')
    F = ctx.facts
    S = ctx.slots
    n = 0
    for b in F.fn_bodies():
        for bb, t in b.calls():
            p = res(t)
            if p not in LEAK_API:
                continue
            n += 1
            nm = LEAK_API[p]
            key = 'C13-LEAK/%s/%s' % (key_of(F.root_of(b)), nm)
            ok = False
            why = 'leak primitive outside the allow-list'
            if nm == 'ManuallyDrop::new' and b.name in S.par_entries:
                argl = place_local(t['args'][0]) if t['args'] else None
                if argl is not None and b.locals[argl]['head'] in BAG_HEADS:
                    # every normal path from here to return must pass ManuallyDrop::into_inner of this value
                    r = ctx.run(b.name)
                    me = r.calls.get(bb)
                    cfg = ctx.cfg(b)
                    into = [x for x, c in r.call_sites() if res(c['t']) == 'std::mem::ManuallyDrop::into_inner' and me and c['args'] and c['args'][0] == me['res']]
                    if into and all(ret not in cfg.reach(bb, avoid=set(into)) for ret in cfg.returns):
                        ok = True
                        why = 're-owned by ManuallyDrop::into_inner on every normal path'
                    else:
                        why = 'a normal path from ManuallyDrop::new reaches return without ManuallyDrop::into_inner'
            out.inst(key, ok, why, sample={'site': key_of(b), 'primitive': nm, 'verdict': why})
            if not ok:
                out.fail(key, '%s in %s: %s - an owned value may be leaked on a non-panicking path' % (nm, key_of(b), why), b.where(t.get('line')))
    out.count('leak_primitive_sites', n)
    return out


# ======================================================================================= C10-LAZYSEQ / C09
def seq_kernels_of(ctx, methods):
    S = ctx.slots
    F = ctx.facts
    out = set()
    for tn in S.terminals + S.inherent_terminals:
        if F.bodies[tn].d['method'] in methods:
            out |= set(ctx.cg.reach(tn)) & set(S.seq_kernels)
    return out


@rule('C10-LAZYSEQ', 'sequential find kernels end in a short-circuit terminal and contain no exhaustive iterator method')
def c10_lazyseq(ctx):
    out = RuleOut('C10-LAZYSEQ')
    F = ctx.facts
    ks = sorted(seq_kernels_of(ctx, FIND_FAMILY))
    for kn in ks:
        b = F.bodies[kn]
        key = 'C10-LAZYSEQ/%s' % key_of(b)
        bad = None
        for bd in [b] + F.closures_in(b):
            for _, t in bd.calls():
                d = decl(t)
                if d.startswith(ITER) and d[len(ITER):] in (ITER_EXHAUSTIVE | ITER_REORDER) - ITER_SHORT_CIRCUIT:
                    bad = (d, t.get('line'), bd)
        r = ctx.run(kn)
        top = r.ret
        while top is not None and top[0] == 'call' and term_method(top) in ('map', 'flatten') and 'Option' in term_callee(top):
            top = top[2][0]
        sc = top is not None and top[0] == 'call' and term_callee(top).startswith(ITER) and term_method(top) in ITER_SHORT_CIRCUIT
        out.inst(key, sc and not bad, t_str(r.ret)[:200], sample={'kernel': key_of(b), 'ret': t_str(r.ret)[:300]})
        if bad:
            out.fail(key + '/exhaustive', '%s uses the exhaustive iterator method %s: elements beyond the first match are evaluated' % (key_of(b), bad[0]), bad[2].where(bad[1]))
        if not sc:
            out.fail(key + '/terminal', '%s does not end in a short-circuit iterator terminal (find/find_map/next): %s' % (key_of(b), t_str(r.ret)[:200]), b.where())
    out.floor('seq_find_kernels', len(ks), 1 if not ctx.fixture else 0)
    return out


SEQ_ALLOWED_ITER = {'map', 'filter', 'flat_map', 'enumerate', 'find', 'find_map', 'reduce', 'count', 'next', 'into_iter', 'collect',
                    'filter_map', 'flatten', 'inspect', 'for_each', 'by_ref', 'position', 'any', 'all', 'try_fold', 'try_for_each',
                    'peekable', 'fuse', 'extend'}


@rule('C09-SEQSHAPE', 'sequential kernels: in-order lazy/left-fold std adaptors rooted at into_seq_iter, closures in declaration order, no chunk size')
def c09_seqshape(ctx):
    out = RuleOut('C09-SEQSHAPE')
    F = ctx.facts
    S = ctx.slots
    for kn in sorted(S.seq_kernels):
        b = F.bodies[kn]
        key = 'C09-SEQSHAPE/%s' % key_of(b)
        probs = []
        n_seq = 0
        ucp = user_closure_params(b)
        for bd in [b] + F.closures_in(b):
            for _, t in bd.calls():
                if t.get('exp'):
                    continue
                d = decl(t)
                if d.startswith(ITER):
                    m = d[len(ITER):]
                    if m not in SEQ_ALLOWED_ITER or m in ITER_REORDER:
                        probs.append(('order-insensitive or non-lazy iterator method `%s`' % m, t.get('line'), bd))
                    if m == 'fold':
                        probs.append(('`fold` with a non-parameter operator', t.get('line'), bd))
                if is_coniter_call(t):
                    if method(t) == 'into_seq_iter':
                        n_seq += 1
                    elif method(t) in SOURCE_CONSUMERS or method(t) in ('skip_to_end',):
                        probs.append(('pulls from the concurrent iterator with `%s` instead of into_seq_iter' % method(t), t.get('line'), bd))
                if is_buffered_next(t):
                    probs.append(('chunked pull in a sequential kernel', t.get('line'), bd))
        # exactly one sequential root, found in the terms (so a helper that builds the chain is seen through)
        r0 = ctx.run(kn)
        root_terms = set()
        for tm in [r0.ret] + [a for _, c in r0.call_sites() for a in c['args']]:
            if tm is None:
                continue
            for x in r0.deep_subterms(tm):
                if x[0] == 'call' and coniter_term_is(x, {'into_seq_iter'}):
                    root_terms.add(x)
        if len(root_terms) != 1:
            probs.append(('%d distinct into_seq_iter() roots (expected exactly one)' % len(root_terms), None, b))
        # (c) no Params / chunk size parameter
        for l in b.arg_locals():
            ty = b.locals[l]['ty']
            if ty.endswith('params::Params') or (b.local_name(l) or '').startswith('chunk'):
                probs.append(('takes a `%s` parameter: chunk size / params must be irrelevant in sequential mode' % (b.local_name(l)), None, b))
        # (b) chain shape: rooted at into_seq_iter(iter); user closures applied in declaration order; reduce operator is the parameter itself
        r = ctx.run(kn)
        order = []
        chain_terms = [c for _, c in r.call_sites() if decl(c['t']).startswith(ITER)]
        closure_params = [b.local_name(l) for l in b.arg_locals() if (local_type_param(b, l) in ucp)]
        for _, c in sorted(r.call_sites()):
            if decl(c['t']).startswith(ITER) and len(c['args']) >= 2:
                a = c['args'][1]
                if a[0] == 'param' and a[1] in closure_params:
                    order.append(a[1])
                m = method(c['t'])
                if m == 'reduce' and not (a[0] == 'param' and a[1] in closure_params):
                    probs.append(('Iterator::reduce is given %s, not the kernel\'s reduce parameter itself' % t_str(a)[:80], c['line'], b))
        used = [p for p in closure_params if p in order]
        pos = [order.index(p) for p in used]
        if pos != sorted(pos):
            probs.append(('closure parameters are applied out of declaration order: %s' % order, None, b))
        roots = [x for x in subterms(r.ret) if x[0] == 'call' and coniter_term_is(x, {'into_seq_iter'})] if r.ret else []
        for _, c in r.call_sites():
            for a in c['args']:
                roots += [x for x in subterms(a) if x[0] == 'call' and coniter_term_is(x, {'into_seq_iter'})]
        iter_params = {('param', b.local_name(l)) for l in b.arg_locals()}
        if roots and not all(x[2] and x[2][0] in iter_params for x in roots):
            probs.append(('into_seq_iter is not applied to the kernel\'s own iterator parameter', None, b))
        out.inst(key, not probs, 'closures in order %s' % order, sample={'kernel': key_of(b), 'closure_order': order, 'ret': t_str(r.ret)[:200]})
        for i, (msg, line, bd) in enumerate(probs):
            out.fail(key + '/' + msg.split('`')[1] if '`' in msg else key + '/shape%d' % i, '%s: %s' % (key_of(b), msg), bd.where(line))
    # sequential work written inline on the sequential-only route of a dispatching body
    for bn in sorted(S.seq_inline):
        b = F.bodies[bn]
        cfg = ctx.cfg(b)
        key = 'C09-SEQSHAPE/%s/inline' % key_of(b)
        probs = []
        n_seq = 0
        for (sbn, cbb, sbb, tt, ft) in S.seq_switches:
            if sbn != bn:
                continue
            for x in sorted(cfg.reach(tt) - cfg.reach(ft)):
                t = b.blocks[x]['term']
                if t['t'] != 'call' or t.get('exp'):
                    continue
                d = decl(t)
                if d.startswith(ITER):
                    m = d[len(ITER):]
                    if m not in SEQ_ALLOWED_ITER or m in ITER_REORDER:
                        probs.append(('order-insensitive or non-lazy iterator method `%s`' % m, t.get('line')))
                if is_coniter_call(t):
                    if method(t) == 'into_seq_iter':
                        n_seq += 1
                    elif method(t) in SOURCE_CONSUMERS or method(t) == 'skip_to_end':
                        probs.append(('pulls from the concurrent iterator with `%s` instead of into_seq_iter' % method(t), t.get('line')))
                if is_buffered_next(t):
                    probs.append(('chunked `pull` on the sequential route', t.get('line')))
        if n_seq != 1:
            probs.append(('%d into_seq_iter() calls on the sequential route (expected exactly one)' % n_seq, None))
        out.inst(key, not probs, 'inline sequential route', sample={'body': key_of(b), 'into_seq_iter_calls': n_seq})
        for i, (msg, line) in enumerate(probs):
            out.fail(key + ('/' + msg.split('`')[1] if '`' in msg else '/shape%d' % i), '%s (sequential route): %s' % (key_of(b), msg), b.where(line))
    out.floor('seq_kernels', len(S.seq_kernels), 6 if not ctx.fixture else 0)
    return out


# ======================================================================================= C05-AFFINE
@rule('C05-AFFINE', 'stage closures take their element by value (at most once is a type fact); by-reference closures are predicates')
def c05_affine(ctx):
    out = RuleOut('C05-AFFINE')
    F = ctx.facts
    S = ctx.slots
    hosts = set(S.tasks) | set(S.seq_kernels) | set(S.par_entries)
    seen = set()
    n = 0
    for hn in sorted(hosts):
        b = F.bodies[hn]
        for p, fb in sorted(b.fn_bounds().items()):
            sig = (key_of(b), p)
            if sig in seen:
                continue
            seen.add(sig)
            if fb['inputs'] == '(usize,)':
                continue   # the thread_task(chunk_size) closure of the runner
            n += 1
            key = 'C05-AFFINE/%s/%s' % (key_of(b), p)
            byref = fb['by_ref']
            if fb['trait'].endswith('::FnOnce'):
                ok, why = True, 'FnOnce: callable at most once by its type'
            elif len(byref) == 1 and byref[0]:
                ok = fb['output'] == 'bool'
                why = 'by-reference predicate -> bool' if ok else 'takes its element by reference but is not a predicate (returns %s)' % fb['output']
            elif len(byref) == 1:
                ok = True
                why = 'by-value stage %s -> %s' % (fb['inputs'], fb['output'])
            else:
                ok = len(byref) == 2 and not any(byref)
                why = 'binary operator by value' if ok else 'unexpected closure shape %s' % fb['inputs']
            out.inst(key, ok, why, sample={'fn': key_of(b), 'param': p, 'bound': '%s%s -> %s' % (fb['trait'].split('::')[-1], fb['inputs'], fb['output'])})
            if not ok:
                out.fail(key, '%s: closure parameter %s %s - the move checker no longer forbids a second evaluation on the same element' % (key_of(b), p, why), b.where())
    out.floor('closure_bounds', n, 30 if not ctx.fixture else 0)
    return out


# ======================================================================================= C14-SERIAL
CONITER_CTORS = {'into_con_iter', 'con_iter', 'into_con_iter_x', 'into_exact_con_iter'}
LAZY_ADAPTORS = {'map', 'filter', 'filter_map', 'flat_map', 'flatten', 'inspect', 'take_while', 'skip_while', 'map_while', 'scan', 'zip', 'chain',
                 'peekable', 'fuse', 'enumerate', 'by_ref', 'rev', 'skip', 'take', 'step_by', 'cloned', 'copied', 'cycle', 'intersperse_with'}


def user_closure_values(ctx, b, term):
    """sub-terms of `term` that are user closures of the chain: parameters / fields / captures whose type is a type
    parameter of the body with an Fn* bound (or crate closures that capture one)"""
    fb = b.fn_bounds()
    found = []
    seen = set()
    st = [term]
    while st:
        x = st.pop()
        if x is None or x in seen:
            continue
        seen.add(x)
        if x[0] == 'param':
            nm = x[1]
            for l in b.arg_locals():
                if (b.local_name(l) or '_%d' % l) == nm and local_type_param(b, l) in fb:
                    found.append((x, local_type_param(b, l)))
            if nm.startswith('cap:'):
                # captured by a closure body: the capture's type is not listed; resolve through the parent when inlined
                pass
        elif x[0] == 'field':
            info = ctx.opa.field_info.get(x) or ctx.opa0.field_info.get(x)
            if info and info[1] in fb:
                found.append((x, info[1]))
        if x[0] == 'call':
            # only *lazy* constructions keep their closure arguments inside the value they return; any other call
            # (a kernel, collect, ...) consumes them and returns data
            m = term_method(x)
            c_ = term_callee(x)
            lazy = (c_.startswith(ITER) and m in LAZY_ADAPTORS) or m in ('into_seq_iter', 'into_iter', 'iter', 'from_fn', 'successors', 'repeat_with', 'once_with') \
                or m in CONITER_CTORS
            if not lazy:
                continue
        st.extend(children(x))
    return found


@rule('C14-SERIAL', 'no closure of the chain is moved into the source of a concurrent iterator (it would run inside the serialised pull section)')
def c14_serial(ctx):
    out = RuleOut('C14-SERIAL')
    F = ctx.facts
    n = 0
    for b in F.fn_bodies():
        sites = [(bb, t) for bb, t in b.calls() if not t.get('exp') and (method(t) in CONITER_CTORS or 'ConIterOfIter' in res(t))]
        if not sites:
            continue
        r = ctx.run(b.name)
        for bb, t in sites:
            c = r.calls.get(bb)
            if c is None or not c['args']:
                continue
            n += 1
            key = 'C14-SERIAL/%s/%s' % (key_of(b), method(t))
            ucs = []
            for a in c['args']:
                ucs += user_closure_values(ctx, b, a)
            out.inst(key, not ucs, t_str(c['args'][0])[:100], sample={'fn': key_of(b), 'source': t_str(c['args'][0])[:160]})
            for (x, tp) in ucs[:1]:
                out.fail(key, '%s builds a concurrent iterator over %s, which contains the chain\'s closure %s (type parameter %s): the closure would run inside the '
                              'dependency\'s serialised pull section - one thread at a time, and a panic there leaves the section locked so that the other '
                              'workers spin for ever (the terminal call hangs instead of panicking)' % (key_of(b), t_str(c['args'][0])[:120], t_str(x), tp),
                         b.where(t.get('line')))
    out.floor('con_iter_constructions', n, 10 if not ctx.fixture else 0)
    return out


# ======================================================================================= C06-GROW
FIXED_HEADS = ('adt:orx_fixed_vec::FixedVec',)
BOUNDED_APPENDS = {'push', 'extend', 'extend_from_slice', 'insert', 'append', 'push_get_ptr', 'extend_from_nonoverlapping', 'push_within_capacity'}


def _head(h):
    while h.startswith('ref:'):
        h = h[4:]
    return h


@rule('C06-GROW', 'nothing is appended onto a FixedVec target directly (it cannot grow: a target without spare capacity would panic)')
def c06_grow(ctx):
    out = RuleOut('C06-GROW')
    F = ctx.facts
    n = 0
    # generic appenders: crate fns that append through a type parameter (P: PinnedVec)
    generic = {}
    for b in F.fn_bodies():
        for bb, t in b.calls():
            sh = t.get('self_head') or ''
            if method(t) in BOUNDED_APPENDS and _head(sh).startswith('param:') and 'PinnedVec' in (t.get('trait') or ''):
                generic.setdefault(F.root_of(b).name, _head(sh)[6:])
    for b in F.fn_bodies():
        for bb, t in b.calls():
            if t.get('exp'):
                continue
            sh = _head(t.get('self_head') or '')
            # the printed path of the type depends on which re-export is visible from the crate: match the type name
            if sh in FIXED_HEADS or (sh.startswith('adt:orx_') and sh.endswith('::FixedVec')):
                n += 1
                key = 'C06-GROW/%s/%s' % (key_of(b), method(t))
                ok = method(t) not in BOUNDED_APPENDS
                out.inst(key, ok, res(t), sample={'fn': key_of(b), 'call_on_fixed_vec': res(t)})
                if not ok:
                    out.fail(key, '%s appends with %s directly onto a FixedVec: a FixedVec never grows, so a target without enough spare capacity '
                                  'makes collect_into panic (and lose the previous contents) instead of returning them followed by the new elements; '
                                  'append through the inner Vec (into_inner .. into)' % (key_of(b), res(t)), b.where(t.get('line')))
            c_ = callee_of(t)
            if c_ in generic:
                root = F.bodies.get(c_)
                tps = root.d.get('type_params', []) if root is not None else []
                targs = t.get('targs', [])
                tp = generic[c_]
                if tp in tps and tps.index(tp) < len(targs) and ('::FixedVec<' in targs[tps.index(tp)] or targs[tps.index(tp)].endswith('::FixedVec')):
                    n += 1
                    key = 'C06-GROW/%s/%s' % (key_of(b), strip_generics(c_).split('::')[-1])
                    out.inst(key, False, 'generic appender instantiated with FixedVec')
                    out.fail(key, '%s instantiates the appending kernel %s with a FixedVec output: it pushes onto a vector that cannot grow' % (key_of(b), strip_generics(c_)), b.where(t.get('line')))
    out.count('generic_appenders', len(generic))
    out.floor('fixed_vec_calls', n, 2 if not ctx.fixture else 0)
    return out


# ======================================================================================= C12-NOSET
@rule('C12-NOSET', 'the library never re-parameterises a computation itself: setters are called by users only, Params::with_* by setters only')
def c12_noset(ctx):
    out = RuleOut('C12-NOSET')
    F = ctx.facts
    S = ctx.slots
    setters = set(S.setters)
    n = 0
    for b in F.fn_bodies():
        root = F.root_of(b)
        for bb, t in b.calls():
            if t.get('exp'):
                continue
            d = decl(t)
            c_ = callee_of(t)
            m = method(t)
            is_setter_call = (d.startswith(PAR_TRAIT + '::') and m in ('num_threads', 'chunk_size')) or c_ in setters
            is_with = m in ('with_num_threads', 'with_chunk_size') and 'Params' in (res(t) or '')
            if is_setter_call:
                n += 1
                key = 'C12-NOSET/%s/%s' % (key_of(b), m)
                out.inst(key, False, res(t))
                out.fail(key, '%s calls the setter %s on a computation: a stage then runs under parameters the user did not choose '
                              '(the user\'s num_threads / chunk_size must be in effect for every stage, including eagerly materialised ones)' % (key_of(b), m),
                         b.where(t.get('line')))
            elif is_with:
                n += 1
                key = 'C12-NOSET/%s/%s' % (key_of(b), m)
                ok = root.name in setters
                out.inst(key, ok, 'Params::%s in %s' % (m, key_of(root)), sample={'fn': key_of(b), 'call': res(t)})
                if not ok:
                    out.fail(key, '%s changes a Params value with %s outside the setters' % (key_of(b), m), b.where(t.get('line')))
    out.floor('params_updates', n, 8 if not ctx.fixture else 0)
    return out


# ======================================================================================= C05-DRIVE
SKIPPING_CONSUMERS = {'len', 'is_empty', 'size_hint'}


@rule('C05-DRIVE', 'an iterator chain that carries a user closure is never consumed by a terminal that answers without running it (len, size_hint, is_empty)')
def c05_drive(ctx):
    out = RuleOut('C05-DRIVE')
    F = ctx.facts
    n = 0
    n_chain = 0
    for b in F.fn_bodies():
        cand = [(bb, t) for bb, t in b.calls() if not t.get('exp') and method(t) in SKIPPING_CONSUMERS and
                (decl(t).startswith(ITER) or 'ExactSizeIterator' in decl(t) or 'DoubleEndedIterator' in decl(t))]
        if not cand:
            continue
        r = ctx.run(b.name)
        root = F.root_of(b)
        for bb, t in cand:
            c = r.calls.get(bb)
            if c is None or not c['args']:
                continue
            n += 1
            x = c['args'][0]
            carried = []
            guard = 0
            while x is not None and x[0] == 'call' and guard < 16:
                guard += 1
                m = term_method(x)
                if not (term_callee(x).startswith(ITER) and m in LAZY_ADAPTORS) and m not in ('into_iter', 'iter', 'by_ref'):
                    break
                for a in x[2][1:]:
                    if closure_is_user(ctx, b, root, a):
                        carried.append((m, a))
                x = x[2][0] if x[2] else None
            if carried:
                n_chain += 1
            key = 'C05-DRIVE/%s/%s' % (key_of(b), method(t))
            out.inst(key, not carried, t_str(c['args'][0])[:100], sample={'fn': key_of(b), 'consumer': method(t), 'chain': t_str(c['args'][0])[:160]})
            if carried:
                m, a = carried[0]
                out.fail(key, '%s consumes %s with `%s`, which answers from the length of the underlying iterator without ever calling the closure %s '
                              'of the `%s` stage: that closure runs zero times per element' % (key_of(b), t_str(c['args'][0])[:120], method(t), t_str(a)[:60], m),
                         b.where(t.get('line')))
    out.count('skipping_consumers', n)
    out.count('on_closure_chains', n_chain)
    return out


def closure_is_user(ctx, b, root, a):
    """is the value `a` (an argument of a lazy adaptor in body b) a closure of the user's chain, or a crate closure that calls one"""
    if a is None:
        return False
    fb = b.fn_bounds()
    if a[0] == 'param':
        nm = a[1]
        if nm.startswith('cap:'):
            nm2 = nm[4:].lstrip('*')
            for l in root.arg_locals():
                if root.local_name(l) == nm2 and local_type_param(root, l) in fb:
                    return True
            return False
        for l in b.arg_locals():
            if (b.local_name(l) or '_%d' % l) == nm and local_type_param(b, l) in fb:
                return True
        return False
    if a[0] == 'field':
        info = ctx.opa.field_info.get(a) or ctx.opa0.field_info.get(a)
        return bool(info and info[1] in fb)
    if a[0] == 'closure':
        return any(closure_is_user(ctx, b, root, x) for x in a[2])
    if a[0] == 'call' and term_method(a) in ('deref', 'borrow', 'as_ref', 'clone'):
        return closure_is_user(ctx, b, root, a[2][0]) if a[2] else False
    return False


# ======================================================================================= C15-STACK
@rule('C15-STACK', 'the library never chooses a stack size for the threads it spawns')
def c15_stack(ctx):
    out = RuleOut('C15-STACK')
    F = ctx.facts
    n = 0
    for b in F.fn_bodies():
        for bb, t in b.calls():
            p = res(t)
            if p.startswith('std::thread::'):
                n += 1
                if p.endswith('Builder::stack_size'):
                    key = 'C15-STACK/%s/stack_size' % key_of(b)
                    out.inst(key, False, p)
                    out.fail(key, '%s fixes the stack size of spawned threads: the user\'s closures then run with a different stack on a worker than on the '
                                  'calling thread (num_threads(1) runs them there), so whether a computation overflows its stack depends on the parameters'
                             % key_of(b), b.where(t.get('line')))
    out.count('thread_api_calls', n)
    return out


# ======================================================================================= C09-NOCONC
@rule('C09-NOCONC', 'a concurrent capacity reservation happens only on the non-sequential route: with num_threads(1) nothing is written concurrently')
def c09_noconc(ctx):
    out = RuleOut('C09-NOCONC')
    S = ctx.slots
    F = ctx.facts
    n = 0
    for b in F.fn_bodies():
        cfg = None
        for bb, t in b.calls():
            if t.get('exp') or 'concurrent_capacity' not in method(t) or not method(t).startswith('reserve'):
                continue
            n += 1
            cfg = cfg or ctx.cfg(b)
            key = 'C09-NOCONC/%s/%s' % (key_of(b), method(t))
            ok = False
            for (bn, cbb, sbb, tt, ft) in S.seq_switches:
                if bn == b.name and tt != ft and cfg.edge_dominates(sbb, ft, bb) and bb in cfg.reach(ft):
                    ok = True
            out.inst(key, ok, res(t), sample={'fn': key_of(b), 'reservation': res(t), 'guarded_by_not_sequential': ok})
            if not ok:
                out.fail(key, '%s calls %s on a path that sequential mode (num_threads(1)) takes as well: the std chain reserves nothing, while this reservation can '
                              'fail or exhaust memory for targets the dependency cannot grow concurrently (a Doubling SplitVec whose fragment table must exceed 32 '
                              'entries, a Linear SplitVec with small fragments and a source of unknown length)' % (key_of(b), res(t)), b.where(t.get('line')))
    out.floor('concurrent_reservations', n, 1 if not ctx.fixture else 0)
    return out
