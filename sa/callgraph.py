"""Resolved call graph over the crate's MIR bodies.

* direct edges: a call whose callee rustc resolved to a crate-local body;
* trait-method calls that stay unresolved in generic context and whose trait is crate-local
  (`<Self as Par>::find`, `<C as ParCollectIntoCore>::map_into`) are expanded to *all* impls of that
  method in the crate plus the trait's provided body (class-hierarchy resolution);
* closure edges: B -> C for a closure C created in B, unless every use of the closure value in B is a
  pure store (it is returned, put into an aggregate, or passed to a crate-local callee that provably
  only stores that parameter).  `invokes(R, i)` is the fixed-point summary "parameter i of R (or
  something that holds it) may be called by R".
"""
from collections import defaultdict
from .facts import strip_generics
from .opa import FN_CALLS


def _place_root(pl):
    return pl['l']


class LocalFlow:
    """flow-insensitive 'value of local a may be (contained in / pointed to by) local b' inside one body"""

    def __init__(self, body):
        self.body = body
        self.fwd = defaultdict(set)    # a -> {b}
        self.closures = []             # (dest local, def, operand locals, bb)
        self.returned_from = set()
        for bb, blk in body.blocks.items():
            for st in blk['stmts']:
                dst = st['lhs']['l']
                rv = st['rv']
                for src in self._rv_locals(rv):
                    self.fwd[src].add(dst)
                if rv['r'] == 'agg' and rv.get('ak') == 'closure':
                    self.closures.append((dst, rv['def'], [o['pl']['l'] for o in rv['ops'] if o['k'] in ('copy', 'move')], bb))
            t = blk['term']
            if t['t'] == 'call':
                # the result may hold its arguments only for identity-like callees; keep results separate
                pass

    @staticmethod
    def _rv_locals(rv):
        r = rv['r']
        out = []
        if r == 'use' or r == 'cast':
            o = rv['o']
            if o['k'] in ('copy', 'move'):
                out.append(o['pl']['l'])
        elif r in ('ref', 'rawptr'):
            out.append(rv['pl']['l'])
        elif r == 'agg':
            for o in rv['ops']:
                if o['k'] in ('copy', 'move'):
                    out.append(o['pl']['l'])
        return out

    def holders(self, local):
        """locals that may hold (a copy of / reference to / aggregate containing) the value of `local`"""
        seen = {local}
        st = [local]
        while st:
            n = st.pop()
            for m in self.fwd.get(n, ()):
                if m not in seen:
                    seen.add(m)
                    st.append(m)
        return seen


class CallGraph:
    def __init__(self, facts):
        self.facts = facts
        self.local_traits = set()
        self.impl_methods = defaultdict(list)   # (trait, method) -> [body names]
        for b in facts.bodies.values():
            tr = b.d.get('impl_trait')
            if tr and not tr.startswith(('std::', 'core::', 'alloc::')) and b.d.get('method'):
                self.impl_methods[(tr, b.d['method'])].append(b.name)
            td = b.d.get('trait_default')
            if td:
                self.local_traits.add(td)
                self.impl_methods[(td, b.d['method'])].append(b.name)
        for im in facts.impls:
            if im.get('trait') and not im['trait'].startswith(('std::', 'core::', 'alloc::', 'orx_')):
                self.local_traits.add(im['trait'])
        self.flow = {}
        self.edges = defaultdict(list)      # name -> [(callee, kind, bb)]
        self.ext = defaultdict(list)        # name -> [(path, bb, term)]
        self.unresolved = defaultdict(list)
        self.indirect = defaultdict(list)
        self._invokes = None
        self._build_direct()
        self._build_closure_edges()

    # ------------------------------------------------------------------
    def lf(self, body):
        if body.name not in self.flow:
            self.flow[body.name] = LocalFlow(body)
        return self.flow[body.name]

    def targets_of(self, t):
        """crate-local bodies a call terminator may enter; ([], path) for an external callee"""
        res = t.get('resolved')
        decl = t.get('callee')
        if decl is None:
            return None, None
        if res and t.get('local') and res in self.facts.bodies:
            return [res], 'direct'
        tr = t.get('trait')
        if tr and tr in self.local_traits:
            if res and res in self.facts.bodies:
                return [res], 'direct'
            cands = list(self.impl_methods.get((tr, t.get('method')), []))
            return cands, 'cha'
        if res and res in self.facts.bodies:
            return [res], 'direct'
        return [], 'ext'

    def _build_direct(self):
        for b in self.facts.fn_bodies():
            for bb, t in b.calls():
                tg, kind = self.targets_of(t)
                if tg is None:
                    self.indirect[b.name].append((bb, t))
                    continue
                if kind == 'ext':
                    self.ext[b.name].append((t.get('resolved') or t['callee'], bb, t))
                    continue
                for c in tg:
                    self.edges[b.name].append((c, kind, bb))

    # ------------------------------------------------------------------ invokes summary
    def invokes(self):
        """set of (body name, arg local index) such that the body may call (something holding) that argument"""
        if self._invokes is not None:
            return self._invokes
        inv = set()
        changed = True
        bodies = self.facts.fn_bodies()
        while changed:
            changed = False
            for b in bodies:
                lf = self.lf(b)
                for a in b.arg_locals():
                    if (b.name, a) in inv:
                        continue
                    if self._arg_invoked(b, lf, a, inv):
                        inv.add((b.name, a))
                        changed = True
        self._invokes = inv
        return inv

    def _arg_invoked(self, b, lf, a, inv):
        hold = lf.holders(a)
        for bb, t in b.calls():
            for i, o in enumerate(t['args']):
                if o['k'] not in ('copy', 'move') or o['pl']['l'] not in hold:
                    continue
                if self._call_may_invoke_arg(b, t, i, inv):
                    return True
        # captured by a closure that itself invokes its capture and is not a pure store
        for (dst, cdef, ops, bb) in lf.closures:
            if any(o in hold for o in ops) and cdef in self.facts.bodies:
                cb = self.facts.bodies[cdef]
                if (cdef, 1) in inv and self._closure_flows_to_invoker(b, lf, dst, inv):
                    return True
        return False

    def _call_may_invoke_arg(self, b, t, i, inv):
        decl = t.get('callee')
        if decl in FN_CALLS:
            return i == 0 or True   # the callee itself, or an argument handed to an unknown closure
        tg, kind = self.targets_of(t)
        if tg is None or kind == 'ext':
            return True
        return any((c, i + 1) in inv for c in tg)

    def _closure_flows_to_invoker(self, b, lf, dst, inv):
        hold = lf.holders(dst)
        for bb, t in b.calls():
            for i, o in enumerate(t['args']):
                if o['k'] in ('copy', 'move') and o['pl']['l'] in hold:
                    if self._call_may_invoke_arg(b, t, i, inv):
                        return True
        return False

    def _build_closure_edges(self):
        inv = self.invokes()
        for b in self.facts.fn_bodies():
            lf = self.lf(b)
            for (dst, cdef, ops, bb) in lf.closures:
                if cdef not in self.facts.bodies:
                    continue
                if self._closure_flows_to_invoker(b, lf, dst, inv):
                    self.edges[b.name].append((cdef, 'closure', bb))
                else:
                    self.edges[b.name].append((cdef, 'closure-stored', bb))

    # ------------------------------------------------------------------ queries
    def succ(self, name, kinds=('direct', 'cha', 'closure')):
        return [(c, k, bb) for (c, k, bb) in self.edges.get(name, ()) if k in kinds]

    def reach(self, start, kinds=('direct', 'cha', 'closure'), stop=lambda n: False):
        """BFS; returns {node: (pred, kind)}; does not expand nodes for which stop(node) holds"""
        prev = {start: None}
        q = [start]
        while q:
            n = q.pop(0)
            if n != start and stop(n):
                continue
            for (c, k, bb) in self.succ(n, kinds):
                if c not in prev:
                    prev[c] = (n, k)
                    q.append(c)
        return prev

    @staticmethod
    def path_to(prev, node):
        p = []
        while node is not None:
            p.append(node)
            pr = prev.get(node)
            node = pr[0] if pr else None
        return p[::-1]

    def callers(self, name, kinds=('direct', 'cha', 'closure')):
        out = []
        for a, es in self.edges.items():
            for (c, k, bb) in es:
                if c == name and k in kinds:
                    out.append((a, k, bb))
        return out
