"""Tiny linear normal form over origin terms: comparisons become `sum(coef*atom) + c <= 0` over the integers.

Used to decide whether a path condition implies a goal inequality when both mention the same atoms
(`x >= m-1` false  ==>  `x+1 < m`).  No solver: implication is decided only between two constraints with
identical variable parts, by comparing their constants."""
from .terms import const_int


def lin(t):
    """(coefs: dict atom->int, const) or None"""
    if t is None:
        return None
    if const_int(t):
        return ({}, t[1])
    if t[0] == 'bin' and t[1] in ('Add', 'Sub'):
        a, b = lin(t[2]), lin(t[3])
        if a is None or b is None:
            return None
        sgn = 1 if t[1] == 'Add' else -1
        co = dict(a[0])
        for k, v in b[0].items():
            co[k] = co.get(k, 0) + sgn * v
        return ({k: v for k, v in co.items() if v != 0}, a[1] + sgn * b[1])
    if t[0] == 'bin' and t[1] == 'Mul':
        a, b = lin(t[2]), lin(t[3])
        if a and not a[0]:
            a, b = b, a
        if a and b and not b[0]:
            return ({k: v * b[1] for k, v in a[0].items()}, a[1] * b[1])
    return ({t: 1}, 0)


def _sub(a, b, extra=0):
    co = dict(a[0])
    for k, v in b[0].items():
        co[k] = co.get(k, 0) - v
    return ({k: v for k, v in co.items() if v != 0}, a[1] - b[1] + extra)


def constraint(cmp_term, holds):
    """normalise `cmp_term` (a ('bin', Lt|Le|Gt|Ge, a, b) term) being true/false to  L + c <= 0"""
    if cmp_term is None or cmp_term[0] != 'bin' or cmp_term[1] not in ('Lt', 'Le', 'Gt', 'Ge'):
        return None
    op = cmp_term[1]
    a, b = lin(cmp_term[2]), lin(cmp_term[3])
    if a is None or b is None:
        return None
    if not holds:
        op = {'Lt': 'Ge', 'Le': 'Gt', 'Gt': 'Le', 'Ge': 'Lt'}[op]
    if op == 'Lt':      # a < b  <=> a - b + 1 <= 0
        return _sub(a, b, 1)
    if op == 'Le':
        return _sub(a, b, 0)
    if op == 'Gt':      # a > b <=> b - a + 1 <= 0
        return _sub(b, a, 1)
    if op == 'Ge':
        return _sub(b, a, 0)
    return None


def implies(fact, goal):
    """fact: L + c1 <= 0, goal: L + c2 <= 0 with the same L  ==> holds iff c2 <= c1"""
    if fact is None or goal is None:
        return False
    return fact[0] == goal[0] and goal[1] <= fact[1]


def fact_truth(f):
    """truth value of a path-condition fact on a boolean scrutinee: ('eq',0)->False, ('eq',1)->True, ('ne',(0,))->True"""
    if f[0] == 'eq':
        return bool(f[1]) if f[1] in (0, 1) else None
    if f[0] == 'ne':
        if tuple(f[1]) == (0,):
            return True
        if tuple(f[1]) == (1,):
            return False
    return None
