"""Rules over tasks, runner scope closures, the k-way merge and composed closures (build step 3).
They read iterator pipelines as nested origin terms (items.py), loop-carried buffers / accumulators as phi
recurrences, and decide ordering facts by dominance on the CFG."""
from .engine import rule, RuleOut, key_of
from .facts import strip_generics, callee_of
from .lib import *
from .terms import *
from .terms import TOP
from .items import Items, is_iter_method, is_into_iter, is_next_call, callee as tcallee
from .slots import PAR_TRAIT, SCOPE_SPAWN
from .rules_struct import (COLLECT_INTO_CORE, FIND_FAMILY, ORDERED_COLLECTS, early_exit_tasks, fragment_append_entries,
                           merge_functions, BAG_HEADS, is_own_prim)
from .rules_flow import P, norm_bool, runner_reduce_sites, task_chunk_param, PARAMS
from . import lin
from .opa import FN_CALLS, PC as OPA_PC


def items(ctx):
    if 'items' not in ctx.cache:
        ctx.cache['items'] = Items(ctx)
    return ctx.cache['items']


def items0(ctx):
    """item evaluator over the no-inlining opa (crate fns like maybe_reduce stay visible as calls)"""
    if 'items0' not in ctx.cache:
        it = Items(ctx)
        it.opa = ctx.opa0
        ctx.cache['items0'] = it
    return ctx.cache['items0']


def base_of(res, t, guard=0):
    """identity of a buffer-like value: strip mutation layers and follow phi terms to their initial value"""
    while t is not None and guard < 50:
        guard += 1
        if t[0] == 'mut':
            t = t[1]
        elif t[0] == 'phi':
            t = res.init.get((t[1], t[2]))
        elif t[0] == 'set':
            bases = {base_of(res, x, guard) for x in t[1]}
            return next(iter(bases)) if len(bases) == 1 else None
        else:
            return t
    return t


def switch_of_call(ctx, body, bb):
    return ctx.slots.switch_on_call_result(body, bb, body.blocks[bb]['term'])


# ======================================================================================= S2
def spawn_model(ctx):
    if 'spawnmodel' not in ctx.cache:
        from .spawnmodel import SpawnModel
        ctx.cache['spawnmodel'] = SpawnModel(ctx)
    return ctx.cache['spawnmodel']


def resolve_in_scope(ctx, cb, site_body, term):
    """express a term of a closure nested in the scope closure `cb` (a capture) in cb's own terms"""
    from .spawnmodel import closure_term_in
    F = ctx.facts
    while term is not None and term[0] == 'mut':
        term = term[1]
    if site_body.name == cb.name:
        return term
    if term is None or term[0] != 'param' or not term[1].startswith('cap:'):
        return None
    parent = F.bodies.get(site_body.parent)
    if parent is None:
        return None
    ct = closure_term_in(ctx.run(parent.name), site_body.name)
    if ct is None:
        return None
    caps = site_body.d.get('captures', [])
    for i, cn in enumerate(caps):
        if cn.lstrip('*') == term[1][4:].lstrip('*') and i < len(ct[2]):
            return resolve_in_scope(ctx, cb, parent, ct[2][i])
    return None


@rule('S2', 'JOIN-ALL: every spawned worker\'s result is pushed, joined with expect/unwrap, and consumed whole by the combiner')
def s2(ctx):
    out = RuleOut('S2')
    F = ctx.facts
    S = ctx.slots
    I = items(ctx)
    M = spawn_model(ctx)
    n_spawn = n_join = 0
    for entry, clo in sorted(S.scope_closures.items()):
        cb = F.bodies[clo]
        ek = strip_generics(entry)
        bodies = M.entry_bodies[entry]
        joins = [(bd, bb, t) for bd in bodies for bb, t in bd.calls() if res(t) == 'std::thread::ScopedJoinHandle::join']
        r = ctx.run(clo)
        sites = M.sites[entry]
        n_spawn += len(sites)
        if not joins:
            out.inst('S2/%s/no-results' % ek, True, 'workers return nothing; thread::scope joins them', nontrivial=False)
            continue
        # (c) every join result goes to expect/unwrap
        for (bd, bb, t) in joins:
            n_join += 1
            rj = ctx.run(bd.name)
            jc = rj.calls.get(bb)
            key = 'S2/%s/join' % ek
            if jc is None:
                continue

            def raw_uses(tm):
                st = [tm]
                while st:
                    x = st.pop()
                    if x is None:
                        continue
                    if x == jc['res']:
                        return True
                    if x[0] == 'call' and tcallee(x) in ('std::result::Result::expect', 'std::result::Result::unwrap') and x[2] and x[2][0] == jc['res']:
                        continue
                    st.extend(children(x))
                return False
            users = [c for _, c in rj.call_sites() if any(raw_uses(a) for a in c['args'])]
            ok = bool(users) and all(res(c['t']) in ('std::result::Result::expect', 'std::result::Result::unwrap') and c['args'][0] == jc['res'] for c in users)
            out.inst(key, ok, ', '.join(res(c['t']).split('::')[-1] for c in users) or 'unused', sample={'entry': ek, 'join_consumers': [res(c['t']) for c in users]})
            if not ok:
                out.fail(key, '%s: the result of ScopedJoinHandle::join is consumed by %s instead of expect/unwrap: a worker panic or result can be swallowed'
                         % (ek, [res(c['t']).split('::')[-1] for c in users] or 'nothing'), bd.where(t.get('line')))
        # (a) every spawn result is pushed onto one handle vector (of the scope closure)
        hbases = set()
        for site in sites:
            rs = ctx.run(site.body.name)
            in_loop = ctx.cfg(site.body).innermost_loop(site.bb) is not None
            key = 'S2/%s/spawn-%s' % (ek, 'via-closure' if site.body.name != cb.name else ('in-loop' if in_loop else 'trailing'))
            mine = [pc for _, pc in rs.call_sites() if method(pc['t']) == 'push' and res(pc['t']).startswith('std::vec::Vec') and len(pc['args']) > 1 and pc['args'][1] == site.c['res']]
            ok = len(mine) >= 1
            for pc in mine:
                tgt = resolve_in_scope(ctx, cb, site.body, base_of(rs, pc['args'][0]) if site.body.name == cb.name else pc['args'][0])
                hb = base_of(r, tgt) if tgt is not None else None
                if hb is None:
                    ok = False
                hbases.add(hb)
            out.inst(key, ok, 'handle pushed' if ok else 'handle not pushed', sample={'entry': ek, 'spawn': t_str(site.c['res'])[:120], 'pushed_to': [t_str(x) for x in hbases]})
            if not ok:
                out.fail(key, '%s: the handle returned by this Scope::spawn is not pushed onto the handle vector of the scope: that worker\'s result never reaches the combiner' % ek, site.body.where(site.c['line']))
        hbases.discard(None)
        if len(hbases) > 1:
            out.fail('S2/%s/handle-vectors' % ek, '%s pushes join handles onto %d different vectors' % (ek, len(hbases)), cb.where())
        H = next(iter(hbases)) if len(hbases) == 1 else None
        # (b) + (d): the consumer chain over H
        ret = r.ret
        consumed = False
        for bb, c in r.call_sites():
            m = method(c['t'])
            if decl(c['t']).startswith(ITER) and m in ('reduce', 'fold', 'for_each', 'collect', 'sum', 'count', 'max', 'min', 'last'):
                names, root = I.spine(c['args'][0])
                if base_of(r, root) != H:
                    continue
                consumed = True
                key = 'S2/%s/consume' % ek
                badad = [x for x in names if x not in ITER_CARD_PRESERVING]
                ok = not badad
                if badad:
                    out.fail(key + '/adaptor', '%s: the join handles are consumed through `%s`, which can drop workers\' results before they are combined' % (ek, badad[0]), cb.where(c['line']))
                if m == 'reduce':
                    op = c['args'][1]
                    okop = op[0] == 'param' and op[1].startswith('cap:')
                    eb = F.bodies[entry]
                    if okop:
                        nm = op[1][4:]
                        okop = any(eb.local_name(l) == nm and local_type_param(eb, l) in user_closure_params(eb) for l in eb.arg_locals())
                    if not okop:
                        ok = False
                        out.fail(key + '/operator', '%s: the joined results are reduced with %s, not with the entry\'s own reduce parameter' % (ek, t_str(op)[:100]), cb.where(c['line']))
                    if not any(x == c['res'] for x in subterms(ret)):
                        ok = False
                        out.fail(key + '/ret', '%s: the scope closure does not return the reduction of the joined results' % ek, cb.where())
                elif m == 'collect':
                    # handles.into_iter().map(|h| h.join().expect(..)).collect(): every element is the unwrapped join of one handle
                    e = I.normalize(I.elem(c['args'][0]))
                    okc = e is not None and e[0] == 'call' and tcallee(e) in ('std::result::Result::expect', 'std::result::Result::unwrap') and \
                        e[2][0][0] == 'call' and tcallee(e[2][0]) == 'std::thread::ScopedJoinHandle::join' and e[2][0][2][0][0] == 'elem'
                    if not okc:
                        ok = False
                        out.fail(key + '/terminal', '%s: the collected element is %s, not `handle.join().expect(..)`' % (ek, t_str(e)[:120]), cb.where(c['line']))
                    elif not any(x == c['res'] for x in subterms(ret)):
                        ok = False
                        out.fail(key + '/ret', '%s: the scope closure does not return the collected results of the joined workers' % ek, cb.where())
                else:
                    ok = False
                    out.fail(key + '/terminal', '%s: the join handles are consumed by `%s`; only `reduce(<entry operator>)`, `collect` or a push loop is recognised' % (ek, m), cb.where(c['line']), kind='undecided')
                out.inst(key, ok, 'chain %s over the handle vector' % names, sample={'entry': ek, 'adaptors': names, 'terminal': m})
        if not consumed:
            key = 'S2/%s/consume' % ek
            loops_ok = False
            for (h, l), recs in r.recur.items():
                for rec in recs:
                    for alt in alternatives(rec):
                        if alt[0] == 'mut' and alt[2][0] == 'call' and tcallee(alt[2]).endswith('Vec::push') and len(alt[2][2]) == 2:
                            pushed = I.normalize(alt[2][2][1])
                            if pushed[0] == 'call' and tcallee(pushed) in ('std::result::Result::expect', 'std::result::Result::unwrap'):
                                j = pushed[2][0]
                                if j[0] == 'call' and tcallee(j) == 'std::thread::ScopedJoinHandle::join' and j[2][0][0] == 'elem':
                                    names, root = I.spine(j[2][0][1])
                                    if base_of(r, root) == H:
                                        badad = [x for x in names if x not in ITER_CARD_PRESERVING]
                                        if badad:
                                            out.fail(key + '/adaptor', '%s: the join handles are iterated through `%s`, which can drop workers\' results' % (ek, badad[0]), cb.where())
                                        if base_of(r, ('phi', h, l)) == base_of(r, ret) and not badad:
                                            loops_ok = True
            out.inst(key, loops_ok, 'push loop over the handle vector', sample={'entry': ek, 'form': 'for h in handles { out.push(h.join().expect(..)) }'})
            if not loops_ok:
                out.fail(key, '%s: cannot establish that every joined worker result reaches the returned vector (no reduce over the handle vector and no complete push loop found)' % ek, cb.where())
        er = ctx.run(entry)
        sc = [c for _, c in er.call_sites() if res(c['t']) == 'std::thread::scope']
        ok = bool(sc) and any(x == sc[0]['res'] for x in subterms(er.ret))
        out.inst('S2/%s/entry-ret' % ek, ok, 'entry returns the scope result')
        if not ok:
            out.fail('S2/%s/entry-ret' % ek, '%s does not return the value computed inside thread::scope' % ek, F.bodies[entry].where())
    out.floor('spawn_sites', n_spawn, 3 if not ctx.fixture else 0)
    out.floor('join_sites', n_join, 2 if not ctx.fixture else 0)
    return out


# ======================================================================================= C08-SPAWN
@rule('C08-SPAWN', 'every in-loop spawn is guarded by the true edge of do_spawn(counter) and followed by the counter increment; at most one trailing spawn')
def c08_spawn(ctx):
    out = RuleOut('C08-SPAWN')
    F = ctx.facts
    S = ctx.slots
    M = spawn_model(ctx)
    n = 0
    covered = set()
    for hn, h in sorted(M.hosts.items()):
        hb = h['body']
        hk = key_of(hb)
        cfg = ctx.cfg(hb)
        r = ctx.run(hn)
        guards = [(gbb, gc, sw) for (gbb, gc, sw) in h['guards'] if sw]
        trailing = []
        seen_ev = set()
        for ev in h['events']:
            covered.add((ev.site.body.name, ev.site.bb))
            if ev.bb in seen_ev:
                continue
            seen_ev.add(ev.bb)
            n += 1
            bb = ev.bb
            if cfg.innermost_loop(bb) is None:
                trailing.append(ev)
                continue
            key = 'C08-SPAWN/%s/in-loop' % hk
            g = [(gbb, gc, sw) for (gbb, gc, sw) in guards if sw[1] != sw[2] and cfg.edge_dominates(sw[0], sw[1], bb)]
            if not g:
                out.inst(key, False, 'no dominating do_spawn true edge')
                out.fail(key, '%s: a spawn inside the spawn loop is not dominated by the true edge of do_spawn(): the thread bound is not enforced for it' % hk, hb.where(ev.c['line']))
                continue
            gbb, gc, sw = g[0]
            N = gc['args'][1]
            inc_blocks = []
            why = ''
            init_ok = None
            if N[0] == 'call' and tcallee(N).endswith('Vec::len'):
                hbase = base_of(r, N[2][0])
                for pbb, pc in r.call_sites():
                    if method(pc['t']) == 'push' and base_of(r, pc['args'][0]) == hbase and len(pc['args']) > 1 and pc['args'][1] == ev.c['res']:
                        inc_blocks.append(pbb)
                if inc_blocks and gbb in cfg.reach_strict(bb, avoid=set(inc_blocks)):
                    inc_blocks = []
                why = 'counter = len(handles); increment = handles.push(spawned)'
                init_ok = hbase is not None and hbase[0] == 'call' and tcallee(hbase).split('::')[-1] in ('new', 'with_capacity')
                init_why = 'handle vector starts as %s' % t_str(hbase)
            elif N[0] == 'phi':
                L = N[2]
                for x in cfg.loops().get(cfg.innermost_loop(bb), ()):
                    a, z = r.state.get(x, {}).get(L), r.exit_env.get(x, {}).get(L)
                    if a is not None and z == ('bin', 'Add', a, ('const', 1)):
                        inc_blocks.append(x)
                why = 'counter = local `%s`; increment = += 1' % (hb.local_name(L) or '_%d' % L)
                iv = N
                guard_n = 0
                while iv is not None and iv[0] == 'phi' and guard_n < 6:
                    iv = r.init.get((iv[1], iv[2]))
                    guard_n += 1
                init_ok = iv == ('const', 0)
                init_why = 'counter initial value %s' % t_str(iv)
            else:
                for (sbb, si), st in r.stores.items():
                    if st['ptr'] == N and st['value'] == ('bin', 'Add', N, ('const', 1)):
                        inc_blocks.append(sbb)
                why = 'counter = %s; increment = += 1' % t_str(N)
                if N[0] == 'param' and N[1].startswith('cap:') and hb.is_closure():
                    from .spawnmodel import closure_term_in
                    parent = F.bodies.get(hb.parent)
                    ct = closure_term_in(ctx.run(parent.name), hb.name) if parent else None
                    init = None
                    if ct is not None:
                        for i, cn in enumerate(hb.d.get('captures', [])):
                            if cn.lstrip('*') == N[1][4:].lstrip('*') and i < len(ct[2]):
                                init = ct[2][i]
                    init_ok = init == ('const', 0)
                    init_why = 'counter initial value %s' % t_str(init)
            # on every cycle through the guard's true edge the counter is incremented
            ok = bool(inc_blocks) and (sw[1] in inc_blocks or gbb not in cfg.reach(sw[1], avoid=set(inc_blocks)))
            out.inst(key, ok, why, sample={'host': hk, 'guard': 'do_spawn(%s)' % t_str(N)[:60], 'increment_blocks': len(inc_blocks), 'event': ev.kind})
            if not ok:
                out.fail(key + '/counter', '%s: on a cycle through the true edge of do_spawn() the spawn counter %s is not incremented: more workers than max_num_threads can be spawned'
                         % (hk, t_str(N)[:80]), hb.where(ev.c['line']))
            if init_ok is not None:
                out.inst(key + '/init', init_ok, init_why)
                if not init_ok:
                    out.fail(key + '/init', '%s: the spawn counter does not start at zero (%s)' % (hk, init_why), hb.where())
        key = 'C08-SPAWN/%s/trailing' % hk
        tb = sorted({e.bb for e in trailing})
        ok = not any(b2 in cfg.reach_strict(b1) for b1 in tb for b2 in tb if b1 != b2)
        out.inst(key, ok and len(tb) <= 1, '%d spawn(s) outside loops' % len(tb), sample={'host': hk, 'trailing_spawns': len(tb)})
        if not ok:
            out.fail(key, '%s: more than one unguarded (outside-loop) spawn lies on a path: the bound max_num_threads is exceeded' % hk, hb.where())
        elif len(tb) > 1:
            out.fail(key, '%s: %d unguarded spawns exist outside the loop (on different paths); only one trailing spawn is accounted for in the bound' % (hk, len(tb)), hb.where(), kind='undecided')
    # every spawn site is driven by a guarded event of some host
    for entry, sites in sorted(M.sites.items()):
        for site in sites:
            if (site.body.name, site.bb) not in covered:
                out.fail('C08-SPAWN/%s/unmodelled' % strip_generics(entry), '%s: this Scope::spawn is not driven by the do_spawn-guarded loop (nor its single trailing spawn): the thread bound does not cover it'
                         % strip_generics(entry), site.body.where(site.c['line']))
    out.floor('spawn_events', n, 2 if not ctx.fixture else 0)
    out.floor('hosts', len(M.hosts), 1 if not ctx.fixture else 0)
    return out


# ======================================================================================= C05-WORKER
@rule('C05-WORKER', 'while the source has not reported HasMore::No, every path through a spawn host starts at least one worker (or runs the task itself)')
def c05_worker(ctx):
    """Nothing pulls from the source except the thread tasks.  A host that can return without having started one - while the
    source still reports elements - leaves those elements unvisited (the output is short, a match is missed).  Decided per
    has_more answer: the host is re-analysed with every has_more() observation fixed to Yes(_) / Maybe, the branches this
    decides are pruned, and in the remaining flow graph every entry-to-return path must pass through a spawn event or a direct
    call of the task."""
    out = RuleOut('C05-WORKER')
    F = ctx.facts
    M = spawn_model(ctx)
    HM = 'orx_concurrent_iter::HasMore'
    n = 0
    for hn, h in sorted(M.hosts.items()):
        hb = h['body']
        hk = key_of(hb)
        cfg = ctx.cfg(hb)
        if not h['events']:
            continue
        n += 1
        for vname in ('Yes', 'Maybe'):
            dv = F.discr_of(HM, F.variant_index(HM, vname))
            r = ctx.opa.run(hb.name, seeds={'discr_method': {'has_more': dv}, 'key': ('hm-all', dv)})
            S = {ev.bb for ev in h['events']}
            for bb, c in r.call_sites():
                if c['decl'] in FN_CALLS and c['args'] and c['args'][0][0] == 'param' and bb not in S:
                    S.add(bb)
            succ = {}
            for bb in cfg.succ:
                if bb in r.switches:
                    succ[bb] = list(r.switches[bb][1])
                else:
                    succ[bb] = cfg.succ[bb]
            seen = cfg.reach(0, avoid=S, succ=succ)
            esc = sorted(x for x in cfg.returns if x in seen)
            key = 'C05-WORKER/%s/%s' % (hk, vname)
            out.inst(key, not esc, 'has_more = %s: %d worker-start blocks cut every entry-to-return path' % (vname, len(S)),
                     sample={'host': hk, 'has_more': vname, 'worker_start_blocks': sorted(S)})
            if esc:
                # name the deciding branch: the last switch on the escaping path whose other edge leads to a worker start
                why = ''
                for sbb, (d, tg) in sorted(r.switches.items()):
                    if sbb in seen and len(tg) > 1 and any(t in S or (cfg.reach(t, succ=succ) & S) for t in tg) and any(set(cfg.returns) & cfg.reach(t, avoid=S, succ=succ) for t in tg):
                        why = ' (decided by `%s` at %s)' % (t_str(d)[:160], hb.where(hb.blocks[sbb]['term'].get('line')))
                out.fail(key, '%s can return without having started a worker although the source reports HasMore::%s%s: nobody pulls the remaining elements, so they never reach the pipeline' % (hk, vname, why), hb.where())
    out.floor('hosts', n, 1 if not ctx.fixture else 0)
    return out


# ======================================================================================= pulls and keys
PULL_OPT = {'next_chunk', 'next_chunk_x', 'next_id_and_value', 'next'}
PULL_STREAM = {'values', 'ids_and_values'}


def helper_pull_summary(ctx, name):
    """summary of a crate fn that wraps pulls (`next_accepted(iter, fm, filter) -> Option<Out>`):
      pulls      its result derives from elements pulled from the shared iterator
      exhaust    every `None` it returns is returned on the exhaustion edge of a pull
      survivors  every `Some(v)` it returns is returned on the true edge of each user predicate it evaluated on v's path
    None if the fn is not of that shape."""
    cache = ctx.cache.setdefault('helper_pull', {})
    if name in cache:
        return cache[name]
    cache[name] = None      # recursion guard
    b = ctx.facts.bodies.get(name)
    summ = None
    if b is not None and b.kind in ('Fn', 'AssocFn') and b.d.get('ret_ty', '').startswith('std::option::Option<') and name not in ctx.slots.tasks:
        r = ctx.run(name)
        I = items(ctx)
        edges = list(r.ret_edges.values())
        if edges:
            pulls = False
            exhaust = True
            survivors = True
            fbs = b.fn_bounds()
            for (val, pc) in edges:
                for alt in alternatives(val):
                    if alt[0] == 'variant' and alt[4] == 'None':
                        if not any(pt[0] == 'discr' and f == ('eq', 0) and _pullish(I, pt[1]) for pt, f in pc):
                            exhaust = False
                    elif alt[0] == 'variant' and alt[4] == 'Some':
                        if _raw_pull_ids(I.normalize(alt)):
                            pulls = True
                        for pt, f in pc:
                            if pt[0] == 'call' and tcallee(pt) == 'std::ops::Fn::call' and pt[2][0][0] == 'param':
                                tp = None
                                for l in b.arg_locals():
                                    if b.local_name(l) == pt[2][0][1]:
                                        tp = local_type_param(b, l)
                                if fbs.get(tp, {}).get('output') == 'bool' and lin.fact_truth(f) is not True:
                                    survivors = False
                    else:
                        # passes an inner pull's Option through unchanged
                        if _pullish(I, alt):
                            pulls = True
                        else:
                            exhaust = False
            if pulls:
                summ = {'exhaust': exhaust, 'survivors': survivors}
    cache[name] = summ
    return summ


def _pullish(I, x):
    x = I.normalize(x) if x is not None else x
    if x is None or x[0] != 'call':
        return False
    if coniter_term_is(x, PULL_OPT) or buffered_next_term(x):
        return True
    if is_next_call(x):
        names, root = I.spine(x[2][0])
        return source_stream_root(I, root)
    return False


def _raw_pull_ids(t):
    out = set()
    for x in subterms(t):
        if x[0] == 'call' and (coniter_term_is(x, PULL_OPT) or buffered_next_term(x)):
            out.add(x)
        elif x[0] == 'elem' and is_stream_root(x[1]):
            out.add(x[1])
    return out


def is_pull_term(t):
    """a term that denotes one pull from the shared iterator: an Option-returning pull call, or a call of a crate
    helper that wraps pulls and returns None only on exhaustion"""
    if t is None or t[0] != 'call':
        return False
    if coniter_term_is(t, PULL_OPT) or buffered_next_term(t):
        return True
    from .engine import current_ctx
    ctx = current_ctx()
    if ctx is not None and t[1] in ctx.facts.bodies:
        sm = helper_pull_summary(ctx, t[1])
        return bool(sm and sm['exhaust'])
    return False


def is_stream_root(t):
    return t is not None and t[0] == 'call' and coniter_term_is(t, PULL_STREAM)


def pull_ids(t):
    """the pulls a term depends on: Option-returning pull calls, and per-element pulls ('elem' of values()/ids_and_values())"""
    out = set()
    for x in subterms(t):
        if is_pull_term(x):
            out.add(x)
        elif x[0] == 'elem' and is_stream_root(x[1]):
            out.add(x[1])
    return out


def position_terms(ctx, pull):
    """terms that denote the source position delivered by `pull`"""
    fi = ctx.opa.field_info
    outs = set()
    if is_stream_root(pull):
        if coniter_term_is(pull, {'ids_and_values'}):
            outs.add(('field', ('elem', pull), None, 0))
        return outs
    payload = ('field', pull, 1, 0)
    for t, (nm, ty) in fi.items():
        if t[0] == 'field' and t[1] == payload and ty == 'usize':
            outs.add(t)
    return outs


def value_terms(ctx, pull):
    """terms that denote the element(s) delivered by `pull` (the non-position part of its payload)"""
    fi = ctx.opa.field_info
    outs = set()
    if is_stream_root(pull):
        if coniter_term_is(pull, {'ids_and_values'}):
            outs.add(('field', ('elem', pull), None, 1))
        else:
            outs.add(('elem', pull))
        return outs
    payload = ('field', pull, 1, 0)
    has_fields = False
    for t, (nm, ty) in fi.items():
        if t[0] == 'field' and t[1] == payload:
            has_fields = True
            if ty != 'usize':
                outs.add(t)
    if not has_fields:
        outs.add(payload)      # next_chunk_x: the payload itself is the chunk iterator
    return outs


def key_atoms(K):
    """leaves of a key expression: split tuples and `+`"""
    st = [K]
    out = []
    while st:
        x = st.pop()
        if x is None:
            continue
        if x[0] == 'tuple':
            st.extend(x[1])
        elif x[0] == 'bin' and x[1] == 'Add':
            st.extend([x[2], x[3]])
        else:
            out.append(x)
    return out


def ordered_tasks(ctx):
    S = ctx.slots
    F = ctx.facts
    reach = set()
    for tn in S.terminals:
        if F.bodies[tn].d['method'] in ORDERED_COLLECTS:
            reach |= set(ctx.cg.reach(tn))
    frag = set()
    for pe in fragment_append_entries(ctx):
        for (bn, bb), (clo, fns) in S.task_of_site.items():
            if bn == pe:
                frag |= set(fns)
    return sorted((reach & set(S.tasks)) - frag), sorted(frag)


def resolve_local_closure(r, t):
    """the ('closure', name, caps) term behind a callee operand: through references, mutation records and loop phis"""
    hops = 0
    while t is not None and hops < 10:
        hops += 1
        if t[0] == 'closure':
            return t
        if t[0] in ('ref', 'mut') and isinstance(t[1], tuple):
            t = t[1]
        elif t[0] == 'phi':
            t = r.init.get((t[1], t[2]))
        else:
            return None
    return None


def emissions(ctx, b):
    """(kind, K, V, line, detail) for every point where a task emits a (key,value) / writes a slot"""
    I = items(ctx)
    r = ctx.run(b.name)
    outl = []

    def scan_calls(calls, via=''):
        for c in calls:
            m = method(c['t'])
            p = res(c['t'])
            a = [I.normalize(x) for x in c['args']]
            if m == 'push' and p.startswith('std::vec::Vec') and len(a) == 2:
                kv = a[1]
                if kv[0] == 'tuple' and len(kv[1]) == 2:
                    outl.append(('merge-key', kv[1][0], kv[1][1], c['line'], via + 'push'))
                else:
                    outl.append(('merge-key', None, kv, c['line'], via + 'push of a non-pair'))
            elif m == 'extend' and len(a) == 2:
                e = I.elem(a[1])
                for alt in alternatives(e):
                    if alt[0] == 'tuple' and len(alt[1]) == 2:
                        outl.append(('merge-key', alt[1][0], alt[1][1], c['line'], via + 'extend'))
                    else:
                        outl.append(('merge-key', None, alt, c['line'], via + 'extend of a non-pair'))
            elif m == 'set_value' and 'Bag' in p and len(a) == 3:
                outl.append(('slot', a[1], a[2], c['line'], via + 'set_value'))
            elif m in ('set_values', 'set_n_values') and 'Bag' in p and len(a) >= 3:
                outl.append(('slots', a[1], a[-1], c['line'], via + m))
            elif m == 'for_each' and decl(c['t']).startswith(ITER) and len(a) == 2 and a[1][0] == 'closure':
                e = I.elem(a[0])
                rr = ctx.opa.run(a[1][1], [a[1], e])
                scan_calls([cc for _, cc in rr.call_sites()], via='for_each/')
            elif decl(c['t']) in FN_CALLS and len(a) == 2 and a[1][0] == 'tuple' and resolve_local_closure(r, c['args'][0]) is not None and len(via) < 60:
                # a local closure that emits on behalf of the task (`let mut emit = |idx, input| collected.extend(..)`): its body with
                # the arguments of this call
                ct = resolve_local_closure(r, c['args'][0])
                rr = ctx.opa.run(ct[1], [ct] + list(a[1][1]))
                scan_calls([cc for _, cc in rr.call_sites()], via=via + 'closure/')
            elif c['t'].get('local') and callee_of(c['t']) in ctx.facts.bodies and len(via) < 60:
                # a crate helper that emits on behalf of the task: look inside with the caller's argument terms
                cal = ctx.facts.bodies[callee_of(c['t'])]
                if ctx.opa.inlinable(cal) and any(x[0] in ('phi', 'mut') or (x[0] == 'call' and tcallee(x).split('::')[-1] in ('new', 'with_capacity')) for x in (base_strip(y) for y in a[:1])):
                    rr = ctx.opa.run(cal.name, list(a))
                    scan_calls([cc for _, cc in rr.call_sites()], via=via + key_of(cal).split('::')[-1] + '/')
    scan_calls([c for _, c in r.call_sites()])
    return r, outl


@rule('C01-KEY', 'merge keys / positional slots of ordered-collect tasks are the source positions delivered by the pull that produced the value')
def c01_key(ctx):
    out = RuleOut('C01-KEY')
    F = ctx.facts
    tasks, _ = ordered_tasks(ctx)
    n = 0
    for tn in tasks:
        b = F.bodies[tn]
        r, ems = emissions(ctx, b)
        chunk_l = task_chunk_param(b)
        offset_params = {P(b.local_name(l)) for l in b.arg_locals() if b.locals[l]['ty'] == 'usize' and l != chunk_l}
        if not ems:
            out.fail('C01-KEY/%s/no-emission' % key_of(b), 'ordered-collect task %s has no recognisable emission point (push/extend of (key,value) or positional write)' % key_of(b), b.where(), kind='undecided')
        for (kind, K, V, line, how) in ems:
            n += 1
            pv = pull_ids(V)
            role = '%s/%s' % (how.split('/')[-1], 'chunk' if any(not is_stream_root(p) and not coniter_term_is(p, {'next_id_and_value', 'next'}) for p in pv) else 'single')
            key = 'C01-KEY/%s/%s' % (key_of(b), role)
            probs = []
            if K is None:
                probs.append('the emitted item is not a (key, value) pair: %s' % t_str(V)[:100])
            elif len(pv) != 1:
                probs.append('the value depends on %d pulls (expected exactly one): %s' % (len(pv), t_str(V)[:120]))
            else:
                pull = next(iter(pv))
                pos = position_terms(ctx, pull)
                vals = value_terms(ctx, pull)
                if not any(x in vals for x in subterms(V)):
                    probs.append('the value does not derive from the element(s) delivered by its pull')
                if kind == 'merge-key':
                    first = K[1][0] if K[0] == 'tuple' and K[1] else K
                    atoms_first = key_atoms(first)
                    if not any(a in pos for a in atoms_first):
                        probs.append('the most significant key component %s does not contain the position delivered by the pull that produced the value' % t_str(first)[:120])
                    for a in key_atoms(K):
                        if a in pos:
                            continue
                        if a[0] == 'count' and pull_ids(a[1]) == {pull}:
                            continue
                        probs.append('key leaf %s is neither the pull position nor an in-pull counter of the same pull' % t_str(a)[:120])
                else:
                    # absolute slot: exactly offset + position
                    okslot = K[0] == 'bin' and K[1] == 'Add' and ((K[2] in offset_params and K[3] in pos) or (K[3] in offset_params and K[2] in pos))
                    if not okslot:
                        probs.append('the slot %s is not exactly `offset + <position delivered by the pull>`' % t_str(K)[:120])
                    if kind == 'slots':
                        names, root = items(ctx).spine(V)
                        if root not in vals:
                            probs.append('the values written from that slot on are not rooted at the pulled chunk: %s' % t_str(root)[:100])
                        bad = [x for x in names if x not in ITER_CARD_PRESERVING]
                        if bad:
                            probs.append('the chunk is written through `%s`, which changes how many / which slots are filled' % bad[0])
            out.inst(key, not probs, how, sample={'task': key_of(b), 'emission': how, 'key': t_str(K)[:300], 'value': t_str(V)[:200]})
            for p in probs:
                out.fail(key, '%s (%s): %s' % (key_of(b), how, p), b.where(line), {'key': t_str(K)[:400], 'value': t_str(V)[:400]})
    out.floor('ordered_tasks', len(tasks), 3 if not ctx.fixture else 0)
    out.floor('emission_points', n, 4 if not ctx.fixture else 0)
    return out


def returned_buffer_bases(ctx, b, r):
    return {base_of(r, alt) for alt in alternatives(r.ret)}


def helper_only_appends(ctx, cal, argi, depth=0):
    """does the crate fn `cal` use its parameter #argi (a `&mut` buffer) only through append-like calls"""
    if depth > 3 or argi >= len(cal.arg_locals()):
        return False
    r = ctx.run(cal.name)
    pname = P(cal.local_name(cal.arg_locals()[argi]) or '_%d' % cal.arg_locals()[argi])
    for _, c in r.call_sites():
        for i, a in enumerate(c['args']):
            if base_strip(a) == pname:
                m = method(c['t'])
                if m in BUF_APPEND and i == 0:
                    continue
                if c['t'].get('local') and callee_of(c['t']) in ctx.facts.bodies and helper_only_appends(ctx, ctx.facts.bodies[callee_of(c['t'])], i, depth + 1):
                    continue
                return False
    return True


@rule('C01-APPEND', 'the per-thread buffer a collect task returns only ever receives appends')
def c01_append(ctx):
    out = RuleOut('C01-APPEND')
    F = ctx.facts
    ordered, frag = ordered_tasks(ctx)
    n = 0
    for tn in ordered + frag:
        b = F.bodies[tn]
        if b.d.get('ret_head') == 'unit':
            continue
        r = ctx.run(tn)
        bases = returned_buffer_bases(ctx, b, r)
        for bb, c in r.call_sites():
            if not c['args']:
                continue
            if base_of(r, c['args'][0]) in bases and c['t']['args'] and c['raw'][0] is not None and c['raw'][0][0] == 'ref':
                m = method(c['t'])
                n += 1
                key = 'C01-APPEND/%s/%s' % (key_of(b), m)
                ok = m in BUF_APPEND
                if not ok and c['t'].get('local') and callee_of(c['t']) in F.bodies:
                    ok = helper_only_appends(ctx, F.bodies[callee_of(c['t'])], 0)
                out.inst(key, ok, m, sample={'task': key_of(b), 'buffer_call': m})
                if not ok:
                    out.fail(key, '%s calls `%s` on the buffer it returns: thread-local order (pull order x in-chunk order) is no longer guaranteed' % (key_of(b), m), b.where(c['line']))
    out.floor('buffer_calls', n, 4 if not ctx.fixture else 0)
    return out


# ======================================================================================= C07
@rule('C07-FRAG', 'collect_x appends exactly the vectors returned by the runner, unmodified, to the output it returns')
def c07_frag(ctx):
    out = RuleOut('C07-FRAG')
    F = ctx.facts
    n = 0
    for pn in sorted(fragment_append_entries(ctx)):
        b = F.bodies[pn]
        r = ctx.run(pn)
        runs = [c for _, c in r.call_sites() if callee_of(c['t']) in ctx.slots.runner_entries]
        apps = [c for _, c in r.call_sites() if method(c['t']) == 'append']
        n += 1
        key = 'C07-FRAG/' + key_of(b)
        ok = len(runs) == 1 and len(apps) == 1 and len(apps[0]['args']) == 2 and apps[0]['args'][1] == runs[0]['res']
        outp = [P(b.local_name(l)) for l in b.arg_locals() if b.locals[l]['ty'].startswith('&mut ')]
        ok2 = ok and base_of(r, apps[0]['args'][0]) in outp
        out.inst(key, ok and ok2, t_str(apps[0]['args'][1])[:100] if apps else 'no append', sample={'par_entry': key_of(b), 'appended': t_str(apps[0]['args'][1])[:160] if apps else None})
        if not ok:
            out.fail(key, '%s does not append the runner\'s result vectors as they are: appended %s' % (key_of(b), t_str(apps[0]['args'][1])[:200] if apps else 'nothing'), b.where())
        elif not ok2:
            out.fail(key + '/target', '%s appends the fragments to %s, not to its output parameter' % (key_of(b), t_str(apps[0]['args'][0])[:100]), b.where())
    out.floor('fragment_entries', n, 1 if not ctx.fixture else 0)
    return out


ORDER_CARD_OK = ITER_CARD_PRESERVING | {'filter', 'flat_map', 'filter_map', 'flatten'}


@rule('C07-TASK', 'unordered-collect tasks return the buffer they filled, fed only by in-order lazy chains rooted at the pull')
def c07_task(ctx):
    out = RuleOut('C07-TASK')
    F = ctx.facts
    I = items(ctx)
    _, frag = ordered_tasks(ctx)
    n = 0
    for tn in frag:
        b = F.bodies[tn]
        r = ctx.run(tn)
        bases = returned_buffer_bases(ctx, b, r)
        key0 = 'C07-TASK/' + key_of(b)
        for alt in alternatives(r.ret):
            ba = base_of(r, alt)
            if ba is not None and ba[0] == 'call' and is_iter_method(ba, ('collect',)):
                n += 1
                names, root = I.spine(ba[2][0])
                bad = [x for x in names if x not in ORDER_CARD_OK]
                ok = not bad and (is_stream_root(root))
                out.inst(key0 + '/collect', ok, 'collect over %s' % names, sample={'task': key_of(b), 'chain': names, 'root': t_str(root)[:80]})
                if bad:
                    out.fail(key0 + '/collect', '%s collects through `%s`: elements can be lost or reordered' % (key_of(b), bad[0]), b.where())
                elif not ok:
                    out.fail(key0 + '/collect-root', '%s collects a chain that is not rooted at the shared iterator: %s' % (key_of(b), t_str(root)[:100]), b.where())
        for bb, c in r.call_sites():
            if method(c['t']) == 'extend' and len(c['args']) == 2 and base_of(r, c['args'][0]) in bases:
                n += 1
                names, root = I.spine(I.normalize(c['args'][1]))
                bad = [x for x in names if x not in ORDER_CARD_OK]
                rooted = any(root == v for p in pull_ids(root) for v in value_terms(ctx, p)) or is_stream_root(root) or \
                    (root[0] == 'field' and root[2] == 1 and root[3] == 0 and is_pull_term(root[1]))
                out.inst(key0 + '/extend', not bad and rooted, 'extend over %s' % names, sample={'task': key_of(b), 'chain': names, 'root': t_str(root)[:80]})
                if bad:
                    out.fail(key0 + '/extend', '%s extends its buffer through `%s`: elements can be lost or reordered' % (key_of(b), bad[0]), b.where(c['line']))
                elif not rooted:
                    out.fail(key0 + '/extend-root', '%s extends its buffer with a chain that is not rooted at the pulled chunk: %s' % (key_of(b), t_str(root)[:100]), b.where(c['line']))
    out.floor('fill_points', n, 3 if not ctx.fixture else 0)
    return out


@rule('C07-SEQ', 'collect_x in sequential mode is the ordered collect')
def c07_seq(ctx):
    out = RuleOut('C07-SEQ')
    F = ctx.facts
    S = ctx.slots
    n = 0
    for tn in S.terminals:
        b = F.bodies[tn]
        if b.d['method'] != 'collect_x' or b.d.get('impl_trait') != PAR_TRAIT:
            continue
        # only the impls that dispatch themselves (the others delegate to another collect_x / ordered collect)
        sw = [x for x in S.seq_switches if x[0] == tn]
        if not sw:
            continue
        n += 1
        (bn, cbb, sbb, tt, ft) = sw[0]
        cfg = ctx.cfg(b)
        true_only = cfg.reach(tt) - cfg.reach(ft)
        calls = [b.blocks[x]['term'] for x in sorted(true_only) if b.blocks[x]['term']['t'] == 'call']
        names = [(method(t), t.get('trait') or '') for t in calls]
        ok = any(m == 'collect' and tr == PAR_TRAIT for m, tr in names) and not any(res(t) in S.runner_entries or callee_of(t) in S.par_entries for t in calls)
        key = 'C07-SEQ/' + key_of(b)
        out.inst(key, ok, str([m for m, _ in names]), sample={'collect_x': key_of(b), 'sequential_branch_calls': [m for m, _ in names]})
        if not ok:
            out.fail(key, '%s: the sequential branch of collect_x is not `SplitVec::from(self.collect())` (calls: %s)' % (key_of(b), [m for m, _ in names]), b.where())
    out.floor('dispatching_collect_x', n, 1 if not ctx.fixture else 0)
    return out


# ======================================================================================= C06-OFFSET
@rule('C06-OFFSET', 'the positional-write offset is the target length taken before the run')
def c06_offset(ctx):
    out = RuleOut('C06-OFFSET')
    F = ctx.facts
    S = ctx.slots
    n = 0
    for (bn, bb), (clo, fns) in sorted(S.task_of_site.items()):
        b = F.bodies[bn]
        bag_params = [l for l in b.arg_locals() if b.locals[l]['head'] in BAG_HEADS]
        if not bag_params or clo is None or clo == '<wrapper>':
            continue
        n += 1
        r = ctx.run(bn)
        cb = F.bodies[clo]
        cr = ctx.run(clo)
        key = 'C06-OFFSET/' + key_of(b)
        # the task call inside the closure: which argument is the task's offset parameter
        ok = False
        why = 'no task call'
        for _, c in cr.call_sites():
            tn = callee_of(c['t'])
            if tn in fns:
                tb = F.bodies[tn]
                chunk_l = task_chunk_param(tb)
                offs = [l for l in tb.arg_locals() if tb.locals[l]['ty'] == 'usize' and l != chunk_l]
                if len(offs) != 1:
                    why = 'task has %d candidate offset parameters' % len(offs)
                    continue
                a = c['args'][offs[0] - 1]
                # `a` is a capture of the closure: resolve it in the creating body
                clos = [x for x in subterms(r.calls[bb]['args'][ctx.slots.thread_task_param(F.bodies[callee_of(b.blocks[bb]['term'])])]) if x[0] == 'closure' and x[1] == clo]
                val = None
                if a[0] == 'param' and a[1].startswith('cap:') and clos:
                    caps = cb.d.get('captures', [])
                    for i, cn in enumerate(caps):
                        if cn == a[1][4:] and i < len(clos[0][2]):
                            val = clos[0][2][i]
                bag = P(b.local_name(bag_params[0]))
                ok = val is not None and val[0] == 'call' and method_of_term(val) == 'len' and val[2] and base_strip(val[2][0]) == bag
                why = 'offset = %s' % t_str(val)[:120]
                # the len() call dominates the runner call
                if ok:
                    lens = [x for x, cc in r.call_sites() if cc['res'] == val]
                    ok = bool(lens) and all(ctx.cfg(b).dominates(x, bb) for x in lens)
                    if not ok:
                        why += ' (not computed before the run)'
        out.inst(key, ok, why, sample={'fn': key_of(b), 'offset': why})
        if not ok:
            out.fail(key, '%s: the offset handed to the positional-write task is not the length of the target taken before the run (%s): existing elements would be overwritten or gaps left' % (key_of(b), why), b.where())
    out.floor('positional_entries', n, 1 if not ctx.fixture else 0)
    return out


def method_of_term(t):
    return tcallee(t).split('::')[-1]


def base_strip(t):
    while t is not None and t[0] in ('mut',):
        t = t[1]
    if t is not None and t[0] == 'call' and tcallee(t) in ('std::ops::Deref::deref', 'std::mem::ManuallyDrop::new'):
        return base_strip(t[2][0])
    return t


# ======================================================================================= the k-way merge
LIB_PREFIXES = ('std::', 'core::', 'alloc::', 'orx_')


def lib_type(ty):
    ty = ty.strip()
    if ty in ('usize', 'u8', 'u16', 'u32', 'u64', 'u128', 'isize', 'i8', 'i16', 'i32', 'i64', 'i128', 'bool', 'char', '()'):
        return True
    if ty.startswith('(') and ty.endswith(')'):
        depth = 0
        parts = []
        cur = ''
        for ch in ty[1:-1]:
            if ch in '<([':
                depth += 1
            if ch in '>)]':
                depth -= 1
            if ch == ',' and depth == 0:
                parts.append(cur)
                cur = ''
            else:
                cur += ch
        if cur.strip():
            parts.append(cur)
        return all(lib_type(p) for p in parts)
    return ty.startswith(LIB_PREFIXES)


def merge_key_types(ctx, name, which=None, depth=0):
    """concrete types bound to the merge's key type parameter, followed through generic callers (a wrapper that
    forwards its own `Key`)"""
    out = set()
    if depth > 4:
        return {'?'}
    tb = ctx.facts.bodies.get(name)
    if which is None:
        which = 1
    for cb in ctx.facts.fn_bodies():
        for _, t in cb.calls():
            if callee_of(t) == name:
                targs = t.get('targs', [])
                if len(targs) <= which:
                    out.add('?')
                    continue
                ty = targs[which]
                root = ctx.facts.root_of(cb)
                gens = root.d.get('type_params', [])
                if ty in gens:
                    sub = merge_key_types(ctx, root.name, gens.index(ty), depth + 1)
                    out |= sub if sub else {ty}     # no crate caller fixes it: caller-chosen key, not resolvable
                else:
                    out.add(ty)
    return out


class MergeView:
    """the pieces of a k-way merge body, found semantically (not by position)"""

    def __init__(self, ctx, b):
        self.ctx = ctx
        self.b = b
        self.r = ctx.run(b.name)
        self.I = items(ctx)
        self.cfg = ctx.cfg(b)
        self.probs = []
        r, I, cfg = self.r, self.I, self.cfg
        self.calls = {bb: dict(c, nargs=[I.normalize(a) for a in c['args']]) for bb, c in r.call_sites()}
        vp = [l for l in b.arg_locals() if 'Vec<std::vec::Vec<(' in b.locals[l]['ty']]
        op = [l for l in b.arg_locals() if b.locals[l]['ty'].startswith('&mut ')]
        self.V = P(b.local_name(vp[0])) if vp else None
        self.OUT = P(b.local_name(op[0])) if op else None
        # alternatively the output is a sink closure `push: impl FnMut(Out)` supplied by crate-internal wrappers
        self.SINK = None
        if self.OUT is None:
            fbs = b.fn_bounds()
            for l in b.arg_locals():
                tp = local_type_param(b, l)
                if tp in fbs and len(fbs[tp]['by_ref']) == 1 and not fbs[tp]['by_ref'][0] and fbs[tp]['output'] in ('()', ''):
                    self.SINK = P(b.local_name(l))
        self.reads = [(bb, c) for bb, c in self.calls.items() if (is_own_prim(res(c['t']), c['t']) or '').startswith('ptr::read')]
        self.set_lens = [(bb, c) for bb, c in self.calls.items() if is_own_prim(res(c['t']), c['t']) == 'set_len']
        # `chain.for_each(|v| v.set_len(0))`: the reset of each element of the chain happens at the for_each call
        self.foreach_set_lens = []
        for bb, c in self.calls.items():
            if method(c['t']) == 'for_each' and decl(c['t']).startswith(ITER) and len(c['nargs']) == 2 and c['nargs'][1][0] == 'closure':
                e = I.elem(c['nargs'][0])
                rr = ctx.opa.run(c['nargs'][1][1], [c['nargs'][1], e])
                for _, cc in rr.call_sites():
                    if is_own_prim(res(cc['t']), cc['t']) == 'set_len':
                        self.foreach_set_lens.append((bb, dict(cc, nargs=[I.normalize(a) for a in cc['args']], line=c['line'])))
        self.L = cfg.innermost_loop(self.reads[0][0]) if self.reads else None
        self.CUR = None
        self.v = None
        if self.L is not None:
            sw = r.switches.get(self.L)
            if sw and sw[0][0] == 'discr' and sw[0][1][0] == 'phi' and sw[0][1][1] == self.L:
                self.CUR = sw[0][1]
                self.v = ('field', self.CUR, 1, 0)
            self.latches = [a for (a, h) in cfg.back_edges() if h == self.L]
        self.queue_locals = [l for l, d in b.locals.items() if 'DaryHeap<' in d['ty'] and not d['ty'].startswith('&')]

    def in_loop(self, bb, L=None):
        L = self.L if L is None else L
        return L is not None and bb in self.cfg.loops()[L]

    def base(self, t):
        return base_of(self.r, t)


def merge_checks(ctx, b, out, prefix):
    """M1-M6 def-use facts; returns the MergeView"""
    mv = MergeView(ctx, b)
    r, I, cfg = mv.r, mv.I, mv.cfg
    k = '%s/%s' % (prefix, key_of(b))

    def bad(tag, msg, line=None, kind='violation'):
        out.fail('%s/%s' % (k, tag), '%s: %s' % (key_of(b), msg), b.where(line), kind=kind)

    def good(tag, note, sample=None):
        out.inst('%s/%s' % (k, tag), True, note, sample=sample)

    if mv.V is None or (mv.OUT is None and mv.SINK is None) or len(mv.reads) != 1 or mv.L is None or mv.CUR is None:
        bad('shape', 'not recognisable as a k-way merge (vectors param %s, output param %s, %d raw reads, main loop %s)' % (mv.V, mv.OUT, len(mv.reads), mv.L), kind='undecided')
        return mv
    v = mv.v
    L = mv.L
    rbb, rc = mv.reads[0]
    # ---- M5: the loop is left only when the popped node is None
    exits = [(a, s) for (a, s) in cfg.loop_exits(L) if b.blocks[s]['term']['t'] != 'unreachable']
    none_edge = [(a, s) for (a, s) in exits if a == L and s == cfg.switch_edge(L, 0)]
    if exits != none_edge or not exits:
        bad('M5', 'the merge loop can be left by %s, not only when no node is left in the queue' % [e for e in exits if e not in none_edge])
    else:
        good('M5', 'single exit on None')
    # ---- M3: one increment, one read, both on every iteration; read offset = pre-increment index
    incs = []
    for (sbb, si), st in r.stores.items():
        if not mv.in_loop(sbb):
            continue
        p = I.normalize(st['ptr'])
        val = I.normalize(st['value'])
        if p[0] == 'call' and tcallee(p).endswith('IndexMut::index_mut') and p[2][1] == v and val[0] == 'bin' and val[1] == 'Add' and val[3] == ('const', 1):
            base_i = p[2][0]
            while base_i[0] == 'mut':
                base_i = base_i[1]
            pre_read = ('call', 'std::ops::Index::index', (base_i, v))
            if val[2] == p or val[2] == pre_read:
                incs.append((sbb, ('call', p[1], (base_i, v))))
    idx_bases = {mv.base(p[2][0]) for _, p in incs}
    if len(incs) != 1:
        bad('M3-inc', '%d `indices[v] += 1` stores in the merge loop (expected exactly one)' % len(incs))
    elif not all(cfg.dominates(incs[0][0], a) for a in mv.latches):
        bad('M3-inc', 'the `indices[v] += 1` is not executed on every iteration')
    else:
        good('M3-inc', 'one increment per iteration')
    Iphi = incs[0][1][2][0] if incs else None
    # ---- M0: every cursor starts at the first element of its vector
    if incs:
        nz = [x for x in idx_bases if not (x is not None and x[0] == 'call' and method_of_term(x) == 'from_elem' and x[2] and x[2][0] == ('const', 0))]
        if nz:
            bad('M0', 'the per-vector cursors do not start at 0 (%s): the first element(s) of every vector are never read - left out of the output and leaked' % t_str(nz[0])[:80])
        else:
            good('M0', 'cursors start at 0')
    ok_read = False
    rarg = rc['nargs'][0]
    if rarg[0] == 'call' and method_of_term(rarg) == 'add' and len(rarg[2]) == 2:
        ptr, off = rarg[2]
        okp = ptr[0] == 'call' and method_of_term(ptr) == 'as_mut_ptr' and ptr[2][0][0] == 'call' and method_of_term(ptr[2][0]) in ('index_mut', 'index') \
            and ptr[2][0][2][1] == v and mv.base(ptr[2][0][2][0]) == mv.V
        oko = off[0] == 'call' and method_of_term(off) == 'index' and off[2][1] == v and off[2][0] == Iphi and Iphi is not None and Iphi[0] == 'phi'
        ok_read = okp and oko
        if not okp:
            bad('M3-read-ptr', 'the raw read does not address the popped vector `vectors[v]`: %s' % t_str(ptr)[:160], rc['line'])
        if not oko:
            bad('M3-read-off', 'the raw read offset %s is not `indices[v]` as loaded before the increment: an element is read twice or skipped' % t_str(off)[:160], rc['line'])
    else:
        bad('M3-read', 'the raw read is not `vectors[v].as_mut_ptr().add(idx).read()`: %s' % t_str(rarg)[:160], rc['line'])
    if not all(cfg.dominates(rbb, a) for a in mv.latches):
        bad('M3-read-once', 'the raw read is not executed exactly once on every iteration', rc['line'])
    elif ok_read:
        good('M3-read', 'offset = pre-increment indices[v]', sample={'merge': key_of(b), 'read': t_str(rarg)[:200]})
    # ---- M4: the value read is pushed to the output, unconditionally, once
    if mv.OUT is not None:
        pushes = [(bb, c) for bb, c in mv.calls.items() if mv.in_loop(bb) and method(c['t']) == 'push' and c['nargs'] and mv.base(c['nargs'][0]) == mv.OUT]
    else:
        pushes = [(bb, dict(c, nargs=[c['nargs'][0], c['nargs'][1][1][0] if c['nargs'][1][0] == 'tuple' and len(c['nargs'][1][1]) == 1 else None]))
                  for bb, c in mv.calls.items() if mv.in_loop(bb) and c['decl'] in ('std::ops::Fn::call', 'std::ops::FnMut::call_mut', 'std::ops::FnOnce::call_once')
                  and c['nargs'] and c['nargs'][0] == mv.SINK and len(c['nargs']) > 1]
    want = ('field', rc['res'] if rc['res'][0] != 'set' else rc['res'], None, 1)
    want = I.normalize(want)
    if len(pushes) != 1:
        bad('M4', '%d pushes onto the output per iteration (expected exactly one)' % len(pushes))
    else:
        pbb, pc = pushes[0]
        if pc['nargs'][1] != want:
            bad('M4', 'the value pushed to the output is %s, not the value component of the element just read' % t_str(pc['nargs'][1])[:160], pc['line'])
        elif not all(cfg.dominates(pbb, a) for a in mv.latches):
            bad('M4', 'the push of the read value is conditional: a value can be read (moved out) and never emitted', pc['line'])
        else:
            good('M4', 'read value pushed once per iteration')
    # ---- M2: keys handed to the queue inside the loop
    qops = [(bb, c) for bb, c in mv.calls.items() if mv.in_loop(bb) and method(c['t']) in ('push', 'push_then_pop', 'decrease_key_or_push', 'update_key') and len(c['nargs']) == 3
            and any(mv.base(c['nargs'][0]) == mv.base(P('_q')) or True for _ in [0]) and 'PriorityQueue' in decl(c['t'])]
    for (bb, c) in qops:
        node, keyt = c['nargs'][1], c['nargs'][2]
        okn = node == v
        okk = False
        if keyt[0] == 'field' and keyt[3] == 0 and keyt[1][0] == 'field' and keyt[1][2] == 1:
            g = keyt[1][1]
            if g[0] == 'call' and method_of_term(g) == 'get' and len(g[2]) == 2:
                vec_t, idx_t = g[2]
                okvec = vec_t[0] == 'call' and method_of_term(vec_t) in ('index', 'index_mut') and vec_t[2][1] == v and mv.base(vec_t[2][0]) == mv.V
                okidx = idx_t[0] == 'call' and method_of_term(idx_t) == 'index' and idx_t[2][1] == v and idx_t[2][0][0] == 'mut' and \
                    idx_t[2][0][1] == Iphi and idx_t[2][0][2][0] == 'call' and method_of_term(idx_t[2][0][2]) == 'index_mut' and idx_t[2][0][2][2][1] == v
                # or the very value that was stored as the new index: indices[v](before) + 1
                if not okidx and Iphi is not None:
                    okidx = idx_t == ('bin', 'Add', ('call', 'std::ops::Index::index', (Iphi, v)), ('const', 1))
                okk = okvec and okidx
        if not okn:
            bad('M2-node', 'the node re-inserted into the queue is %s, not the popped vector index' % t_str(node)[:120], c['line'])
        if not okk:
            bad('M2-key', 'the key re-inserted into the queue is %s, not the key of `vectors[v][indices[v]]` read after the increment' % t_str(keyt)[:200], c['line'])
        if okn and okk:
            good('M2', 'next key of the popped vector', sample={'merge': key_of(b), 'key': t_str(keyt)[:200]})
    if not qops:
        bad('M2', 'no queue re-insertion found in the merge loop', kind='undecided')
    # the loop-carried node comes from the queue
    for rec in r.recur.get((L, mv.CUR[2]), ()):
        for alt in alternatives(I.normalize(rec)):
            src = alt
            if src[0] == 'variant' and src[4] == 'Some':
                src = src[3][0]
                while src[0] == 'field':
                    src = src[1]
            if not (src[0] == 'call' and 'PriorityQueue' in src[1] and method_of_term(src) in ('pop_node', 'push_then_pop', 'pop')) and src != mv.CUR:
                bad('M2-next', 'the next node to merge is %s, not what the queue pops' % t_str(alt)[:160])
    # ---- M1: initial fill
    fills = [(bb, c) for bb, c in mv.calls.items() if not mv.in_loop(bb) and method(c['t']) == 'push' and 'PriorityQueue' in decl(c['t']) and len(c['nargs']) == 3]
    if not fills:
        bad('M1', 'no initial fill of the queue found', kind='undecided')
    for (bb, c) in fills:
        node, keyt = c['nargs'][1], c['nargs'][2]
        ok = False
        why = ''
        if node[0] == 'count':
            names, root = I.spine(node[1])
            badad = [x for x in names if x not in ITER_CARD_PRESERVING]
            if badad:
                why = 'the vectors are enumerated through `%s`' % badad[0]
            elif mv.base(root) != mv.V and not (root[0] == 'call' and method_of_term(root) in ('iter', 'deref') and mv.base(root[2][0]) == mv.V):
                why = 'the enumeration is not over `vectors`: %s' % t_str(root)[:80]
            else:
                e = I.elem(node[1])
                if keyt[0] == 'field' and keyt[3] == 0 and keyt[1][0] == 'field' and keyt[1][2] == 1 and keyt[1][1][0] == 'call' and method_of_term(keyt[1][1]) == 'first' \
                        and base_strip(keyt[1][1][2][0]) == e:
                    # vec.first(): correct because every index starts at 0
                    zeros = [x for x in idx_bases if x is not None and x[0] == 'call' and method_of_term(x) == 'from_elem' and x[2][0] == ('const', 0)]
                    ok = bool(zeros)
                    if not ok:
                        why = 'the initial key is the first element of each vector but the indices do not start at 0'
                elif keyt[0] == 'field' and keyt[3] == 0 and keyt[1][0] == 'field' and keyt[1][2] == 1 and keyt[1][1][0] == 'call' and method_of_term(keyt[1][1]) == 'get':
                    g = keyt[1][1]
                    vec_t, idx_t = g[2]
                    if base_strip(vec_t) == e and idx_t[0] == 'call' and method_of_term(idx_t) == 'index' and idx_t[2][1] == node:
                        ok = True
                    else:
                        why = 'the initial key is not `vectors[v][indices[v]].0`'
                else:
                    why = 'the initial key is %s' % t_str(keyt)[:120]
        else:
            why = 'the node pushed is %s, not the enumeration index of the vector' % t_str(node)[:80]
        if ok:
            good('M1', 'every vector contributes its first key', sample={'merge': key_of(b), 'fill_key': t_str(keyt)[:200]})
        else:
            bad('M1', why, c['line'])
    # ---- M6: key types at the call sites, min-heap type
    qt = [b.locals[l]['ty'] for l in mv.queue_locals]
    if not qt:
        bad('M6-queue', 'no DaryHeap queue local found', kind='undecided')
    key_tys = merge_key_types(ctx, b.name)
    badk = [x for x in key_tys if x not in ('usize', '(usize, usize)')]
    if badk:
        bad('M6-key', 'the merge is instantiated with key type %s; only usize / (usize, usize) (lexicographic = source order) are known to order correctly' % badk, kind='undecided')
    else:
        good('M6', 'key types %s' % sorted(key_tys), sample={'merge': key_of(b), 'key_types': sorted(key_tys), 'queue': qt[:1]})
    return mv


def internal_closure_literals(ctx, b, tparam):
    """if every call of the (non-public-API) fn b binds its closure-typed parameter `tparam` to a closure literal of
    this crate: the names of those closure bodies; None when some caller forwards something else (user code)"""
    tps = b.d.get('type_params', [])
    if tparam not in tps:
        return None
    i = tps.index(tparam)
    lits = set()
    ncall = 0
    for cb in ctx.facts.fn_bodies():
        for _, t in cb.calls():
            if callee_of(t) == b.name:
                ncall += 1
                targs = t.get('targs', [])
                if i >= len(targs) or not targs[i].startswith('{closure@'):
                    return None
                # the literal is one of the caller's closures: match by type string
                cands = [x for x in ctx.facts.closures_in(ctx.facts.root_of(cb)) if closure_type_matches(x, targs[i])]
                if len(cands) != 1:
                    return None
                lits.add(cands[0].name)
    if not ncall or b.name in ctx.slots.par_methods:
        return None
    return sorted(lits)


def closure_type_matches(cb, tystr):
    # `{closure@src/core/map_fil_col.rs:80:29: 80:36}` starts at the closure's file:line
    import re
    m = re.match(r'\{closure@([^:]+):(\d+):', tystr)
    return bool(m) and cb.d.get('file', '').endswith(m.group(1)) and cb.d.get('line') == int(m.group(2))


def sink_closure_target(ctx, host_b, host_r, clo):
    """for a sink closure literal `|value| out.push(value)` built in host_b: the host term that receives the
    pushes (its only call is one unconditional push of its own argument onto a captured `&mut` place), else None"""
    if clo is None or clo[0] != 'closure':
        return None
    cb = ctx.facts.bodies.get(clo[1])
    if cb is None or len(cb.arg_locals()) != 2:
        return None
    rc = ctx.run(cb.name)
    cs = list(rc.call_sites())
    if len(cs) != 1:
        return None
    bb, c = cs[0]
    cfg = ctx.cfg(cb)
    if method(c['t']) != 'push' or len(c['args']) != 2 or cfg.innermost_loop(bb) is not None or not all(cfg.dominates(bb, x) for x in cfg.returns):
        return None
    vl = cb.arg_locals()[1]
    if c['args'][1] != P(cb.local_name(vl) or '_%d' % vl):
        return None
    tgt = c['args'][0]
    caps = cb.d.get('captures', [])
    if tgt[0] != 'param' or not tgt[1].startswith('cap:'):
        return None
    cn = tgt[1][4:]
    if cn not in caps or caps.index(cn) >= len(clo[2]):
        return None
    return clo[2][caps.index(cn)]


def merge_entries(ctx):
    """name -> (merge fn, how) for the merge functions themselves and for loop-free wrappers
    `fn w(vectors, output) { merge(vectors, |v| output.push(v)) }` / `{ merge(vectors, output) }`:
    how(r, c) gives (vectors term, output term) of a call record c of that entry in the caller's terms"""
    key = 'merge_entries'
    if key in ctx.cache:
        return ctx.cache[key]
    F = ctx.facts
    ms = merge_functions(ctx)
    ent = {}
    for mn in ms:
        mb = F.bodies[mn]
        mv = MergeView(ctx, mb)
        names = [P(mb.local_name(l) or '_%d' % l) for l in mb.arg_locals()]
        vi = names.index(mv.V) if mv.V in names else None
        oi = names.index(mv.OUT) if mv.OUT in names else None
        si = names.index(mv.SINK) if mv.SINK in names else None
        ent[mn] = {'merge': mn, 'v': vi, 'o': oi, 's': si, 'wrapper': None}
    for b in F.fn_bodies():
        if b.is_closure() or b.name in ms:
            continue
        cl = [(bb, t) for bb, t in b.calls() if callee_of(t) in ms]
        if len(cl) != 1 or ctx.cfg(b).loops():
            continue
        r = ctx.run(b.name)
        c = r.calls.get(cl[0][0])
        if c is None:
            continue
        e = ent[callee_of(cl[0][1])]
        names = [P(b.local_name(l) or '_%d' % l) for l in b.arg_locals()]
        if e['v'] is None or e['v'] >= len(c['args']) or c['args'][e['v']] not in names:
            continue
        if e['o'] is not None:
            o = base_of(r, c['args'][e['o']])
        elif e['s'] is not None:
            o = sink_closure_target(ctx, b, r, c['args'][e['s']])
            o = base_of(r, o) if o is not None else None
        else:
            o = None
        if o not in names:
            continue
        # nothing else in the wrapper touches vectors or output
        others = [cc for bb2, cc in r.call_sites() if bb2 != cl[0][0] and any(base_of(r, a) in (c['args'][e['v']], o) for a in cc['args'])]
        if others:
            continue
        ent[b.name] = {'merge': e['merge'], 'v': names.index(c['args'][e['v']]), 'o': names.index(o), 's': None, 'wrapper': b.name}
    ctx.cache[key] = ent
    return ent


@rule('C01-MERGE', 'def-use facts M1-M6 of the k-way merge of per-thread (key, value) vectors')
def c01_merge(ctx):
    out = RuleOut('C01-MERGE')
    F = ctx.facts
    ms = merge_functions(ctx)
    ents = merge_entries(ctx)
    for mn in sorted(ms):
        merge_checks(ctx, F.bodies[mn], out, 'C01-MERGE')
    # the merge functions are what receives the runner result on the ordered path
    n_use = 0
    for b in F.fn_bodies():
        if b.is_closure() or b.name in ents or not any(callee_of(t) in ents for _, t in b.calls()):
            continue
        pn = b.name
        r = ctx.run(pn)
        for _, c in r.call_sites():
            if callee_of(c['t']) in ents:
                e = ents[callee_of(c['t'])]
                n_use += 1
                # the vectors are the runner's result as returned: by a runner call in this body, or by a loop-free
                # helper (inlined by the analysis) that returns it unchanged
                vt = c['args'][e['v']] if e['v'] is not None and e['v'] < len(c['args']) else None
                ok = vt is not None and vt[0] == 'call' and sg(vt[1]) in {sg(x) for x in ctx.slots.runner_entries}
                if not ok and vt is not None and vt[0] == 'call' and vt[2] and vt[2][0][0] == 'closure':
                    # a loop-free runner entry is inlined: its value is thread::scope(<its scope closure>)
                    ok = vt[2][0][1] in set(ctx.slots.scope_closures.values()) and len(vt[2]) == 1
                outp = [P(b.local_name(l)) for l in b.arg_locals() if b.locals[l]['ty'].startswith('&mut ')]
                if e['o'] is not None:
                    tgt = c['args'][e['o']] if e['o'] < len(c['args']) else None
                elif e['s'] is not None:
                    tgt = sink_closure_target(ctx, b, r, c['args'][e['s']]) if e['s'] < len(c['args']) else None
                else:
                    tgt = None
                ok2 = tgt is not None and base_of(r, tgt) in outp
                out.inst('C01-MERGE/use/%s' % key_of(b), ok and ok2, 'merge(run_map(..), output)', sample={'par_entry': key_of(b), 'merged': t_str(c['args'][0])[:100]})
                if not ok:
                    out.fail('C01-MERGE/use/%s' % key_of(b), '%s does not hand the runner\'s per-thread vectors, as returned, to the merge: %s' % (key_of(b), t_str(c['args'][0])[:160]), b.where(c['line']))
                elif not ok2:
                    out.fail('C01-MERGE/use/%s/target' % key_of(b), '%s merges into %s, not into its output parameter' % (key_of(b), t_str(tgt)[:100]), b.where(c['line']))
    # ... and the merge is the ONLY way the per-thread vectors of an ordered collect reach the output: from the runner call of such a
    # body no normal return is reachable without a merge call (a "single round, just append the blocks in the order of their first
    # keys" shortcut is wrong as soon as one worker holds two non-adjacent chunks)
    wrappers = set(getattr(ctx.slots, 'runner_wrappers', []) or [])
    for b in F.fn_bodies():
        if b.is_closure() or b.name in ents or not any(callee_of(t) in ents for _, t in b.calls()):
            continue
        cfg = ctx.cfg(b)
        merge_blocks = {bb for bb, t in b.calls() if callee_of(t) in ents}
        for bb, t in b.calls():
            if callee_of(t) in ctx.slots.runner_entries or callee_of(t) in wrappers:
                tgt = t.get('target')
                if tgt is None:
                    continue
                succ = {x: [y for y in cfg.succ[x] if not b.blocks[y].get('cleanup')] for x in cfg.succ}
                seen_ = cfg.reach(tgt, avoid=merge_blocks, succ=succ)
                esc = [x for x in cfg.returns if x in seen_]
                out.inst('C01-MERGE/only/%s' % key_of(b), not esc, 'every path from the runner call to a return passes the merge')
                if esc:
                    others = sorted({res(t2) for bb2, t2 in b.calls() if bb2 in seen_ and t2.get('local') and callee_of(t2) not in ents})
                    out.fail('C01-MERGE/only/%s' % key_of(b), '%s can return without handing the per-thread vectors to the k-way merge (a path from the runner call to a return avoids it%s): the pieces of different workers interleave in input order, only the merge restores it' % (
                        key_of(b), ', through ' + ', '.join(others[:2]) if others else ''), b.where(t.get('line')))
    out.floor('merge_functions', len(ms), 1 if not ctx.fixture else 0)
    out.floor('merge_uses', n_use, 2 if not ctx.fixture else 0)
    return out


@rule('C13-PAIR', 'every raw read of the merge is paired with the length reset of all source vectors; each slot is read once')
def c13_pair(ctx):
    out = RuleOut('C13-PAIR')
    F = ctx.facts
    ms = merge_functions(ctx)
    for mn in sorted(ms):
        b = F.bodies[mn]
        mv = MergeView(ctx, b)
        r, I, cfg = mv.r, mv.I, mv.cfg
        k = 'C13-PAIR/' + key_of(b)
        if not mv.reads or mv.V is None:
            out.fail(k + '/shape', '%s: %d raw reads; pairing not decidable' % (key_of(b), len(mv.reads)), b.where(), kind='undecided')
            continue
        for ri, (rbb, rc) in enumerate(mv.reads):
            _pair_one_read(ctx, out, b, mv, k if ri == 0 else '%s/read%d' % (k, ri + 1), rbb, rc)
        # vectors dropped normally afterwards (its buffers are freed)
        drops = [bb for bb in r.visited if b.blocks[bb]['term']['t'] == 'drop' and not b.blocks[bb]['cleanup'] and b.blocks[bb]['term']['pl']['l'] in
                 [l for l in b.arg_locals() if P(b.local_name(l)) == mv.V]]
        out.inst(k + '/freed', bool(drops), 'vectors dropped on the normal path (buffers freed)')
        if not drops:
            out.fail(k + '/freed', '%s: `vectors` is never dropped on the normal path: its buffers leak' % key_of(b), b.where())
    out.floor('merge_functions', len(ms), 1 if not ctx.fixture else 0)
    return out


def _pair_one_read(ctx, out, b, mv, k, rbb, rc):
        r, I, cfg = mv.r, mv.I, mv.cfg
        ok_sets = []
        for (sbb, sc) in mv.foreach_set_lens:
            a = sc['nargs']
            okf = len(a) == 2 and a[1] == ('const', 0) and a[0][0] == 'elem'
            why = ''
            if okf:
                names, root = I.spine(a[0][1])
                badad = [x for x in names if x not in ('iter_mut', 'into_iter', 'iter', 'by_ref')]
                rb = root
                if rb[0] == 'call' and method_of_term(rb) in ('iter_mut', 'deref_mut', 'deref'):
                    rb = rb[2][0]
                if badad:
                    okf, why = False, 'the vectors are visited through `%s`' % badad[0]
                elif mv.base(rb) != mv.V:
                    okf, why = False, 'the for_each is not over `vectors`'
                elif not cfg.postdominates(sbb, rbb):
                    okf, why = False, 'the length reset does not post-dominate the raw read'
            else:
                why = 'for_each closure does not reset each vector to length 0'
            ok_sets.append(okf)
            out.inst(k + '/set_len', okf, why or 'vectors.iter_mut().for_each(|v| v.set_len(0)) post-dominates the read', sample={'merge': key_of(b), 'set_len_arg': t_str(a[0])[:120]})
            if not okf:
                out.fail(k + '/set_len', '%s: %s' % (key_of(b), why), b.where(sc['line']))
        for (sbb, sc) in mv.set_lens:
            L2 = cfg.innermost_loop(sbb)
            a = sc['nargs']
            okz = len(a) == 2 and a[1] == ('const', 0)
            okloop = False
            why = ''
            if L2 is None:
                why = 'set_len is not inside a loop over all vectors'
            elif not okz:
                why = 'set_len(%s) instead of set_len(0)' % t_str(a[1] if len(a) > 1 else None)
            elif a[0][0] != 'elem':
                why = 'set_len is applied to %s, not to each element of vectors' % t_str(a[0])[:80]
            else:
                names, root = I.spine(a[0][1])
                badad = [x for x in names if x not in ('iter_mut', 'into_iter', 'iter', 'by_ref')]
                rb = root
                if rb[0] == 'call' and method_of_term(rb) in ('iter_mut', 'deref_mut', 'deref'):
                    rb = rb[2][0]
                if badad:
                    why = 'the vectors are visited through `%s`: some keep their length and their already-moved elements are dropped again' % badad[0]
                elif mv.base(rb) != mv.V:
                    why = 'the loop is not over `vectors`'
                elif not cfg.postdominates(L2, rbb):
                    why = 'the length-reset loop does not post-dominate the raw read'
                elif not all(cfg.dominates(sbb, x) for (x, h) in cfg.back_edges() if h == L2):
                    why = 'set_len(0) is conditional inside the loop'
                else:
                    okloop = True
            ok_sets.append(okloop)
            out.inst(k + '/set_len', okloop, why or 'for v in vectors.iter_mut() { v.set_len(0) } post-dominates the read', sample={'merge': key_of(b), 'set_len_arg': t_str(a[0])[:120]})
            if not okloop:
                out.fail(k + '/set_len', '%s: %s' % (key_of(b), why), b.where(sc['line']))
        if not any(ok_sets):
            out.fail(k + '/unpaired', '%s: the raw read has no post-dominating `set_len(0)` over all vectors: moved-out elements are dropped a second time' % key_of(b), b.where(rc['line']))


@rule('C14-WINDOW', 'no user code can run between the raw read and the length reset (the double-drop window)')
def c14_window(ctx):
    out = RuleOut('C14-WINDOW')
    F = ctx.facts
    ms = merge_functions(ctx)
    n = 0
    for mn in sorted(ms):
        b = F.bodies[mn]
        mv = MergeView(ctx, b)
        cfg = mv.cfg
        k = 'C14-WINDOW/' + key_of(b)
        if not mv.reads:
            continue
        # the window: everything that can execute from the first raw read until return, the merge loop included
        region = set()
        for (rbb, _) in mv.reads:
            region |= cfg.reach(rbb)
            L = cfg.innermost_loop(rbb)
            if L is not None:
                region |= cfg.loops()[L]
        # instantiations of the merge's type parameters at its call sites
        inst = {}
        for cb in F.fn_bodies():
            for _, t in cb.calls():
                if callee_of(t) == mn:
                    for i, ta in enumerate(t.get('targs', [])):
                        inst.setdefault(i, set()).add(ta)
        for bb in sorted(region):
            t = b.blocks[bb]['term']
            if t['t'] != 'call' or t.get('exp'):
                continue
            n += 1
            p = res(t)
            kk = '%s/%s' % (k, method(t))
            u = is_user_closure_call(t, b)
            if u:
                lits = internal_closure_literals(ctx, b, u)
                if lits is not None:
                    # the parameter only ever receives closure literals written in this crate: their bodies are part of the window
                    for cbn in lits:
                        cbd = F.bodies[cbn]
                        for bb2, t2 in cbd.calls():
                            if t2.get('exp'):
                                continue
                            n += 1
                            p2 = res(t2)
                            kk2 = '%s/%s/%s' % (k, key_of(cbd), method(t2))
                            sh2 = t2.get('self_head', '')
                            if is_user_closure_call(t2, cbd) or t2.get('local'):
                                ok2 = False
                            elif t2.get('resolved') is None and sh2.startswith(('param:', 'ref:param:')):
                                ok2 = t2.get('trait', '').startswith(LIB_PREFIXES)
                            else:
                                ok2 = p2.startswith(LIB_PREFIXES) or p2.startswith('<')
                            out.inst(kk2, ok2, 'call inside the crate closure bound to %s' % u, sample={'merge': key_of(b), 'closure': key_of(cbd), 'callee_in_window': p2})
                            if not ok2:
                                out.fail(kk2, '%s runs %s (through the closure %s bound to %s) inside the double-drop window: cannot establish that no user code runs there'
                                         % (key_of(b), p2, key_of(cbd), u), cbd.where(t2.get('line')), kind='undecided')
                    continue
                out.inst(kk, False, 'user closure call')
                out.fail(kk, '%s calls the user closure %s inside the window where moved-out elements are still owned by the source vectors: a panic there drops them twice' % (key_of(b), u), b.where(t.get('line')))
                continue
            if t.get('local'):
                out.inst(kk, False, 'crate-local callee')
                out.fail(kk, '%s calls the crate-local %s inside the double-drop window: cannot establish that no user code runs there' % (key_of(b), p), b.where(t.get('line')), kind='undecided')
                continue
            sh = t.get('self_head', '')
            if t.get('resolved') is None and sh.startswith(('param:', 'ref:param:')):
                # a trait method on a type parameter: library trait and library instantiations only
                tr = t.get('trait', '')
                ok = tr.startswith(LIB_PREFIXES)
                out.inst(kk, ok, 'trait method %s on a type parameter' % tr)
                if not ok:
                    out.fail(kk, '%s calls %s on a type parameter inside the double-drop window' % (key_of(b), decl(t)), b.where(t.get('line')), kind='undecided')
                continue
            ok = p.startswith(LIB_PREFIXES) or p.startswith('<')
            out.inst(kk, ok, p, sample={'merge': key_of(b), 'callee_in_window': p})
            if not ok:
                out.fail(kk, '%s calls %s inside the double-drop window' % (key_of(b), p), b.where(t.get('line')), kind='undecided')
        # type parameters that reach library code inside the window must be instantiated by library types
        for i, tys in sorted(inst.items()):
            badt = [x for x in tys if not lib_type(x) and not x[:1].isupper()]
            # single capital identifiers are the callers' own type parameters (Out, O, P, G): element / growth types chosen by the user;
            # their code (Drop, PartialOrd) is not invoked in the window except through the Key, which M6 restricts
        keyt = merge_key_types(ctx, mn)
        okk = all(x in ('usize', '(usize, usize)') for x in keyt)
        out.inst(k + '/key-types', okk, str(sorted(keyt)))
        if not okk:
            out.fail(k + '/key-types', '%s: the key type %s may run user comparison code inside the window' % (key_of(b), sorted(keyt)), b.where(), kind='undecided')
    # raw duplicating reads anywhere else: from the read until the function returns (or the copy is written back) the value has two
    # owners; a closure parameter or a crate function called in between may panic and then both owners drop it
    from .rules_struct import is_own_prim
    for b in F.fn_bodies():
        if b.name in ms or F.root_of(b).name in ms:
            continue
        reads = [(bb, t) for bb, t in b.calls() if (is_own_prim(res(t), t) or '').startswith(('ptr::read', 'ptr::copy', 'ptr::replace', 'transmute_copy'))]
        if not reads:
            continue
        cfg = ctx.cfg(b)
        for (rbb, rt) in reads:
            region = cfg.reach(rbb) - {rbb}
            for bb in sorted(region):
                t = b.blocks[bb]['term']
                if t['t'] != 'call' or t.get('exp') or b.blocks[bb].get('cleanup'):
                    continue
                risky = None
                if t.get('callee') in ('std::ops::Fn::call', 'std::ops::FnMut::call_mut', 'std::ops::FnOnce::call_once'):
                    risky = 'the closure %s' % (t.get('self_head') or '?').replace('ref:', '').replace('param:', '')
                elif t.get('local'):
                    risky = 'the crate function %s' % res(t)
                if risky:
                    n += 1
                    kk = 'C14-WINDOW/%s/after-%s/%s' % (key_of(b), is_own_prim(res(rt), rt), method(t))
                    out.inst(kk, False, risky)
                    out.fail(kk, '%s calls %s after duplicating a value with %s and before the duplicate is resolved: if the callee panics, the original and the copy '
                                 'are both dropped while unwinding (double drop)' % (key_of(b), risky, is_own_prim(res(rt), rt)), b.where(t.get('line')))
    out.floor('window_calls', n, 8 if not ctx.fixture else 0)
    return out


# ======================================================================================= C01-RESERVE
def bag_conversion_points(ctx):
    """{body name: [(bb, converted term, line, via)]}: where a value of the body is turned into a positional (ordered) bag -
    directly (`Into::into` / `From::from` with an ordered-bag destination) or by handing it to a crate helper that converts
    the corresponding parameter (`map_into_pinned_vec(pinned_vec, ..)`)."""
    key = 'bag_conversion_points'
    if key in ctx.cache:
        return ctx.cache[key]
    F = ctx.facts
    direct = {}
    for b in F.fn_bodies():
        for bb, t in b.calls():
            if decl(t) in ('std::convert::Into::into', 'std::convert::From::from') and b.locals[t['dest']['l']]['head'] in BAG_HEADS and 'Ordered' in b.locals[t['dest']['l']]['head']:
                direct.setdefault(b.name, []).append((bb, t))
    points = {}
    helper_params = {}       # helper -> set of parameter positions that are converted inside it
    for bn, lst in direct.items():
        b = F.bodies[bn]
        r = ctx.run(bn)
        names = [P(b.local_name(l) or '_%d' % l) for l in b.arg_locals()]
        for bb, t in lst:
            src = r.calls[bb]['args'][0] if bb in r.calls else None
            base = base_strip(src) if src is not None else None
            if base in names and base != P('self') and not b.is_closure():
                helper_params.setdefault(bn, set()).add(names.index(base))
            else:
                points.setdefault(bn, []).append((bb, src, t.get('line'), 'conversion'))
    for rounds in range(3):
        grew = False
        for b in F.fn_bodies():
            for bb, t in b.calls():
                h = callee_of(t)
                if h in helper_params and t.get('local'):
                    r = ctx.run(b.name)
                    c = r.calls.get(bb)
                    if c is None:
                        continue
                    names = [P(b.local_name(l) or '_%d' % l) for l in b.arg_locals()]
                    for i in helper_params[h]:
                        if i >= len(c['args']):
                            continue
                        src = c['args'][i]
                        base = base_strip(src)
                        if base in names and base != P('self') and not b.is_closure():
                            if names.index(base) not in helper_params.setdefault(b.name, set()):
                                helper_params[b.name].add(names.index(base))
                                grew = True
                        else:
                            pt = (bb, src, t.get('line'), 'helper %s' % strip_generics(h).split('::')[-1])
                            if pt not in points.setdefault(b.name, []):
                                points[b.name].append(pt)
        if not grew:
            break
    ctx.cache[key] = (points, helper_params)
    return ctx.cache[key]


def _covers_len(t, lens, depth=0):
    """t >= some input-length term of `lens`, structurally"""
    if t is None or depth > 12:
        return False
    if t in lens or (t[0] == 'field' and t[1] in lens and t[2] == 1):
        return True
    if t[0] == 'bin' and t[1] == 'Add':
        return _covers_len(t[2], lens, depth + 1) or _covers_len(t[3], lens, depth + 1)
    if t[0] == 'bin' and t[1] == 'Mul':
        return (_covers_len(t[2], lens, depth + 1) and const_int(t[3]) and t[3][1] >= 1) or (_covers_len(t[3], lens, depth + 1) and const_int(t[2]) and t[2][1] >= 1)
    if t[0] == 'call' and term_method(t) in ('max', 'saturating_add', 'checked_add', 'wrapping_add', 'unwrap_or', 'unwrap', 'expect', 'next_power_of_two'):
        return any(_covers_len(a, lens, depth + 1) for a in t[2])
    if t[0] == 'set':
        return all(_covers_len(x, lens, depth + 1) for x in t[1])
    return False


@rule('C01-RESERVE', 'a capacity reservation on the target precedes every conversion into the positional (ordered) bag')
def c01_reserve(ctx):
    out = RuleOut('C01-RESERVE')
    F = ctx.facts
    n = 0
    points, helper_params = bag_conversion_points(ctx)
    for hn, ps in sorted(helper_params.items()):
        # a helper that converts its parameter must have a caller: the reservation is the callers' duty
        if not any(callee_of(t) == hn for b in F.fn_bodies() for _, t in b.calls()):
            out.fail('C01-RESERVE/%s/uncalled' % key_of(F.bodies[hn]), '%s converts its parameter into a positional bag but nothing calls it: the reservation cannot be located' % key_of(F.bodies[hn]),
                     F.bodies[hn].where(), kind='undecided')
    for bn in sorted(points):
        b = F.bodies[bn]
        cfg = ctx.cfg(b)
        r = ctx.run(b.name)
        reserves = [(bb, c) for bb, c in r.call_sites() if method(c['t']).startswith(('reserve', 'try_reserve'))]
        for (bb, src, line, via) in points[bn]:
            n += 1
            key = 'C01-RESERVE/' + key_of(b)
            # reservations on the value that is converted (or on what it was converted from)
            rel = [rb for rb, c in reserves if c['args'] and any(x == base_strip(c['args'][0]) or base_strip(c['args'][0]) == P('self') for x in r.deep_subterms(src))]
            ok = bool(rel) and bb not in cfg.reach(0, avoid=set(rel))
            out.inst(key, ok, '%d reservation(s) before the %s' % (len(rel), via), sample={'fn': key_of(b), 'converted': t_str(src)[:160], 'reserve_blocks': len(rel), 'via': via})
            if not ok:
                out.fail(key, '%s turns its target into a ConcurrentOrderedBag (%s) on a path without a preceding capacity reservation: positional writes past the current capacity are out of bounds / lost' % (key_of(b), via), b.where(line))
            # the reserved amount covers what will be written: `additional` APIs (Vec::reserve) need the input length,
            # `total` APIs (reserve_maximum_concurrent_capacity) need existing length + input length
            for rb, c in reserves:
                if rb not in rel or len(c['args']) < 2:
                    continue
                total_api = 'capacity' in method(c['t'])
                known_unknown = any(pt[0] == 'discr' and pt[1][0] == 'call' and method_of_term(pt[1]) in ('iter_len', 'try_get_len') and f == ('eq', 0) for pt, f in c['pc'])
                alts = list(alternatives(c['args'][1]))
                any_len = any([x for x in subterms(a_) if x[0] == 'call' and method_of_term(x) in ('iter_len', 'try_get_len', 'size_hint')] for a_ in alts)
                k2 = key + '/amount'
                okk, why = True, ''
                for amount in alts:
                    in_len = [x for x in subterms(amount) if x[0] == 'call' and method_of_term(x) in ('iter_len', 'try_get_len', 'size_hint')]
                    tgt_len = [x for x in subterms(amount) if x[0] == 'call' and method_of_term(x) in ('len', 'capacity') and x[2] and base_strip(x[2][0]) == P('self')]
                    if not in_len:
                        # a constant is the amount for the path on which the input length is unknown: either this very path, or
                        # the other arm of the match on the length that produced the alternatives
                        if const_int(amount) and (known_unknown or (len(alts) > 1 and any_len)):
                            if amount[1] < (1 << 32):
                                # the fixed reservation is the number of elements a source of unknown length may yield before the positional
                                # writes run out of reserved capacity; the library promises 2^32
                                okk, why = False, 'the fixed reservation for sources of unknown length is %d elements (less than the 2^32 the library provides for)' % amount[1]
                            else:
                                why = why or 'constant bound where the input length is unknown'
                        else:
                            okk, why = False, 'the reserved amount %s does not depend on the input length' % t_str(amount)[:100]
                    elif not _covers_len(amount, in_len):
                        okk, why = False, 'the reserved amount %s is not at least the input length (only the length itself, sums and maxima containing it, or its product with a constant >= 1 are)' % t_str(amount)[:100]
                    elif total_api and not tgt_len:
                        okk, why = False, 'reserve_maximum_concurrent_capacity takes a TOTAL capacity but is given %s, which omits the target\'s existing length' % t_str(amount)[:100]
                    else:
                        why = why or 'amount %s' % t_str(amount)[:100]
                out.inst(k2, okk, why, sample={'fn': key_of(b), 'reserve': method(c['t']), 'amount': t_str(c['args'][1])[:160]})
                if not okk:
                    out.fail(k2, '%s: %s: positional writes at `target.len() + position` can exceed the reserved capacity' % (key_of(b), why), b.where(c['line']))
    out.floor('bag_conversions', n, 2 if not ctx.fixture else 0)
    return out


@rule('C06-BRIDGE', 'a growable vector the crate builds itself and sends through the concurrent-capacity reservation comes from a constructor, not from a data conversion')
def c06_bridge(ctx):
    """The reservation `reserve_maximum_concurrent_capacity` is the dependency's (T3).  DESIGN 7 records that orx-split-vec does
    not honour it for vectors whose fragment table was sized by their data (`SplitVec::from(Vec)` of more than 131068 elements:
    table index out of bounds).  For targets the *user* builds that is a limit of T3; a bridge the crate builds itself must not be
    made that way - the previous contents of a Vec / FixedVec target would decide whether collect_into panics and loses them."""
    out = RuleOut('C06-BRIDGE')
    F = ctx.facts
    reservers = set()
    for b in F.fn_bodies():
        for bb, t in b.calls():
            if method(t) == 'reserve_maximum_concurrent_capacity' and not t.get('local'):
                reservers.add(key_of(b))
    n = 0
    CONV = {'from', 'into', 'from_iter', 'collect', 'try_from', 'try_into'}
    for b in F.fn_bodies():
        r = None
        for bb, t in b.calls():
            if res(t) not in reservers:
                continue
            r = r or ctx.run(b.name)
            c = r.calls.get(bb)
            if c is None or not c['args']:
                continue
            n += 1
            key = 'C06-BRIDGE/%s/%s' % (key_of(b), method(t))
            bad = None
            for alt in alternatives(c['args'][0]):
                x = alt
                while x is not None and x[0] in ('mut', 'ref'):
                    x = x[1]
                if x is not None and x[0] == 'call' and method_of_term(x) in CONV:
                    bad = x
            out.inst(key, bad is None, t_str(c['args'][0])[:120], sample={'fn': key_of(b), 'reserving_callee': strip_generics(res(t)), 'receiver': t_str(c['args'][0])[:160]})
            if bad is not None:
                out.fail(key, '%s sends %s through %s, which reserves concurrent capacity on it: the fragment table of a vector converted from data is sized by that data, and the dependency\'s reservation fails for such tables (index out of bounds above 131068 previous elements) - the target and its contents are lost'
                         % (key_of(b), t_str(bad)[:100], strip_generics(res(t))), b.where(c['line']))
    # (b) the reservation on a vector the *caller* supplied: the receiver is the `self` of a collect_into impl.  orx-split-vec 3.23
    # looks its capacity table up by the capacity of the fragment vector, which `Vec::reserve` over-allocates: once a Doubling
    # SplitVec has been through two growing reservations (or was created with a fragments capacity of 17..30) the lookup is out of
    # bounds.  Reproduced with plain API use (DESIGN 7, D13); not repairable here without giving up collecting in place.
    for b in F.fn_bodies():
        if key_of(b) not in reservers or b.d.get('impl_trait') != COLLECT_INTO_CORE:
            continue
        r = ctx.run(b.name)
        hit = None
        for bb, c in r.call_sites():
            if method(c['t']) == 'reserve_maximum_concurrent_capacity' and c['args']:
                base = c['args'][0]
                hops = 0
                while base is not None and base[0] in ('mut', 'ref', 'field') and hops < 8:
                    base = base[1]
                    hops += 1
                if base == P('self'):
                    hit = c
        if hit is not None:
            n += 1
            key = 'C06-BRIDGE/%s/reserve-on-caller-target' % key_of(b)
            out.inst(key, False, 'reserve_maximum_concurrent_capacity(self, ..)')
            out.fail(key, '%s calls reserve_maximum_concurrent_capacity on the caller\'s SplitVec: the dependency (orx-split-vec 3.23) indexes its 33-entry capacity table by the capacity of the fragment vector, which its own amortised growth pushes past 32 - e.g. two parallel collect_into calls of 300000 elements onto `SplitVec::new()` panic in the second call with "index out of bounds: the len is 33 but the index is 34" and the target is lost' % key_of(b), b.where(hit['line']))
    out.count('reserving_fns', len(reservers))
    out.floor('bridge_sites', n, 2 if not ctx.fixture else 0)
    return out


# ======================================================================================= composed closures
def composed_closure_sites(ctx, extra=()):
    """(parent body, closure body, [(capture name, type param, origin term)]) for closures that capture user closures"""
    F = ctx.facts
    S = ctx.slots
    hosts = set(S.transformations) | set(S.inherent_terminals) | set(S.terminals) | set(S.sources) | set(extra)
    outl = []
    for hn in sorted(hosts):
        pb = F.bodies[hn]
        ucp = user_closure_params(pb)
        r = None
        for cb in F.closures_in(pb, recursive=True):
            caps = cb.d.get('captures', [])
            creator = F.bodies.get(cb.parent)
            if creator is None:
                continue
            # the aggregate that creates it (in its direct parent, which may itself be a closure)
            agg = None
            for blk in creator.blocks.values():
                for st in blk['stmts']:
                    rv = st['rv']
                    if rv['r'] == 'agg' and rv.get('ak') == 'closure' and rv.get('def') == cb.name:
                        agg = (st, rv)
            if agg is None:
                continue
            info = []
            for i, cn in enumerate(caps):
                op = agg[1]['ops'][i] if i < len(agg[1]['ops']) else None
                l = place_local(op) if op else None
                tp = local_type_param(creator, l) if l is not None else None
                if tp in ucp:
                    origin = resolve_in_scope(ctx, pb, cb, ('param', 'cap:' + cn))
                    info.append((cn, tp, origin))
            if info:
                outl.append((pb, cb, info))
        # closures built by a crate helper (`and(first, second)` returning `move |x| first(x) && second(x)`): they appear as closure terms
        # in the host once the helper is inlined; their captures are the host's terms
        r = ctx.run(hn)
        seen_c = {cb_.name for (pb_, cb_, in_) in outl if pb_.name == hn}
        for x in list(_all_terms(r)):
            if x[0] != 'closure' or x[1] not in F.bodies or x[1] in seen_c:
                continue
            cb = F.bodies[x[1]]
            root = F.root_of(cb)
            if root.name == hn or root.is_closure():
                continue
            creator = F.bodies.get(cb.parent)
            if creator is None:
                continue
            cucp = user_closure_params(creator)
            agg = None
            for blk in creator.blocks.values():
                for st in blk['stmts']:
                    rv = st['rv']
                    if rv['r'] == 'agg' and rv.get('ak') == 'closure' and rv.get('def') == cb.name:
                        agg = (st, rv)
            if agg is None:
                continue
            caps = cb.d.get('captures', [])
            info = []
            for i, cn in enumerate(caps):
                op = agg[1]['ops'][i] if i < len(agg[1]['ops']) else None
                l = place_local(op) if op else None
                tp = local_type_param(creator, l) if l is not None else None
                if tp in cucp and i < len(x[2]):
                    info.append((cn, tp, x[2][i]))
            if len(info) >= 2:
                seen_c.add(cb.name)
                outl.append((pb, cb, info))
    return outl


def _all_terms(r):
    seen = set()
    for c in r.calls.values():
        for a in c['args']:
            for x in subterms(a):
                if x not in seen:
                    seen.add(x)
                    yield x
    if r.ret is not None:
        for x in subterms(r.ret):
            if x not in seen:
                seen.add(x)
                yield x


def closure_events(ctx, cb):
    """stage events inside a closure body: user-closure calls and has_value()/is_some() tests, with the switch on their result"""
    r = ctx.run(cb.name)
    ev = []
    for bb, c in r.call_sites():
        t = c['t']
        u = is_user_closure_call(t, cb)
        kind = None
        name = None
        if u:
            f = c['args'][0]
            name = f[1][4:] if f[0] == 'param' and f[1].startswith('cap:') else t_str(f)
            kind = 'closure'
        elif decl(t).endswith('Fallible::has_value') or res(t) in ('std::option::Option::is_some', 'std::result::Result::is_ok'):
            kind = 'test'
            name = method(t)
        if kind:
            sw = switch_of_call(ctx, cb, bb)
            ev.append({'bb': bb, 'kind': kind, 'name': name, 'tp': u, 'switch': sw, 'c': c})
    return r, ev


@rule('C01-COMPOSE', 'composed closures run the upstream stage first and every later stage only on elements that survived the earlier ones')
def c01_compose(ctx):
    out = RuleOut('C01-COMPOSE')
    F = ctx.facts
    n = 0
    for (pb, cb, info) in composed_closure_sites(ctx):
        if len(info) < 2:
            continue
        n += 1
        key = 'C01-COMPOSE/' + key_of(cb) + ('' if F.root_of(cb).name == pb.name else '@' + key_of(pb))
        cfg = ctx.cfg(cb)
        r, ev = closure_events(ctx, cb)
        fb = dict(pb.fn_bounds())
        fb.update(F.root_of(cb).fn_bounds())
        ups = [cn for (cn, tp, org) in info if org is not None and org[0] != 'param']
        news = [cn for (cn, tp, org) in info if org is not None and org[0] == 'param']
        bool_of = {cn: fb.get(tp, {}).get('output') == 'bool' for (cn, tp, org) in info}
        probs = []
        calls = {cn: [e for e in ev if e['kind'] == 'closure' and e['name'].lstrip('*') == cn.lstrip('*')] for (cn, _, _) in info}
        # every captured user closure is used: called, or handed to an adaptor that will call it
        for (cn, tp, org) in info:
            used = bool(calls[cn])
            if not used:
                capt = P('cap:' + cn)
                used = any(capt in subterms(a) for c in r.calls.values() for a in c['args'][1:]) or any(capt in subterms(a) for c in r.calls.values() for a in c['args'][:1] if not is_user_closure_call(c['t'], cb))
            if not used:
                probs.append(('unused-' + cn, 'the captured stage closure `%s` is never applied' % cn, None))
        # upstream before new
        for u in ups:
            for nn in news:
                for en in calls[nn]:
                    if calls[u] and not any(eu['bb'] != en['bb'] and cfg.dominates(eu['bb'], en['bb']) for eu in calls[u]):
                        probs.append(('order-%s-%s' % (u, nn), 'the new stage `%s` can run before / without the upstream stage `%s`' % (nn, u), en['c']['line']))
        # gating: a boolean stage result (filter, has_value) must guard every later stage call
        tests = [e for e in ev if (e['kind'] == 'closure' and bool_of.get(e['name'])) or e['kind'] == 'test']
        for e in tests:
            for e2 in ev:
                if e2 is e or e2['kind'] != 'closure':
                    continue
                if cfg.dominates(e['bb'], e2['bb']) and e['bb'] != e2['bb']:
                    sw = e['switch']
                    if not sw or sw[1] == sw[2] or not cfg.edge_dominates(sw[0], sw[1], e2['bb']):
                        probs.append(('gate-%s-%s' % (e['name'], e2['name']), 'stage `%s` runs although `%s` may have rejected the element' % (e2['name'], e['name']), e2['c']['line']))
        # argument flow: a later stage consumes the earlier stage's result
        stage_res = [e['c']['res'] for e in ev if e['kind'] == 'closure' and not bool_of.get(e['name']) and e['name'] in ups]
        for nn in news:
            for en in calls[nn]:
                arg = en['c']['args'][1] if len(en['c']['args']) > 1 else None
                if stage_res and not any(sr in subterms(arg) for sr in stage_res):
                    probs.append(('arg-' + nn, 'the new stage `%s` is applied to %s, not to the result of the upstream stage' % (nn, t_str(arg)[:100]), en['c']['line']))
        out.inst(key, not probs, 'upstream %s, new %s' % (ups, news), sample={'closure': key_of(cb), 'upstream': ups, 'new': news, 'events': [(e['kind'], e['name']) for e in ev]})
        for (tag, msg, line) in probs:
            out.fail(key + '/' + tag, '%s: %s' % (key_of(cb), msg), cb.where(line))
    out.floor('composed_closures', n, 8 if not ctx.fixture else 0)
    return out


@rule('C01-CONJ', 'a composed predicate accepts an element exactly when every predicate it is composed of accepts it')
def c01_conj(ctx):
    """C01-COMPOSE decides the order and the gating of the stage calls inside a composed closure.  For a composed *predicate* - a
    bool-valued closure all of whose captured user closures are predicates (`filter1(x) && filter(x)`, the `filter && predicate` of
    find) - the value matters as well: it is re-executed with each captured predicate answering a fixed truth value, for every
    assignment; the result must be true for all-true and false for every assignment that has a false in it and is reachable
    (`match filter1(x) { false => true, true => filter(x) }` keeps what the earlier filter rejected)."""
    import itertools
    out = RuleOut('C01-CONJ')
    F = ctx.facts
    n = 0
    seen = set()
    # ... also where a private combinator of the crate builds it (`fn both(f1, f2) -> impl Fn(&T) -> bool { move |x| f1(x) && f2(x) }`)
    S = ctx.slots
    combinators = [b.name for b in F.fn_bodies() if not b.is_closure() and b.name not in S.tasks and b.name not in S.seq_kernels
                   and sum(1 for v in b.fn_bounds().values() if v.get('output') == 'bool') >= 2]
    for (pb, cb, info) in composed_closure_sites(ctx, extra=combinators):
        if len(info) < 2 or cb.name in seen:
            continue
        fb = dict(pb.fn_bounds())
        fb.update(F.root_of(cb).fn_bounds())
        if not all(fb.get(tp, {}).get('output') == 'bool' for (cn, tp, org) in info):
            continue
        if cb.d.get('ret_ty') not in ('bool', None) and 'bool' not in str(cb.d.get('ret_ty')):
            continue
        seen.add(cb.name)
        names = [cn.lstrip('*&') for (cn, tp, org) in info]

        def pred_name(d):
            if d is None or d[0] != 'call' or sg(d[1]) not in FN_CALLS or not d[2]:
                return None
            f = d[2][0]
            while f is not None and f[0] in ('ref', 'mut'):
                f = f[1]
            if f is None or f[0] != 'param':
                return None
            nm = f[1][4:] if f[1].startswith('cap:') else f[1]
            nm = nm.lstrip('*&')
            return nm if nm in names else None

        def value(t, asg):
            """truth of a returned term under the assignment: True / False / None (unknown)"""
            if t is None:
                return None
            if t[0] == 'const':
                return bool(t[1]) if t[1] in (0, 1, True, False) else None
            if t[0] == 'un' and t[1] == 'Not':
                v = value(t[2], asg)
                return None if v is None else (not v)
            nm = pred_name(t)
            if nm is not None:
                return asg[nm]
            if t[0] == 'bin' and t[1] in ('BitAnd', 'BitOr'):
                a, b_ = value(t[2], asg), value(t[3], asg)
                if a is None or b_ is None:
                    return None
                return (a and b_) if t[1] == 'BitAnd' else (a or b_)
            return None
        n += 1
        key = 'C01-CONJ/' + key_of(cb) + ('' if F.root_of(cb).name == pb.name else '@' + key_of(pb))
        bad = None
        undecided = None
        for combo in itertools.product((True, False), repeat=len(names)):
            asg = dict(zip(names, combo))

            def atoms(d, asg=asg):
                nm = pred_name(d)
                return asg[nm] if nm is not None else None
            rr = ctx.opa.run(cb.name, seeds={'atoms': atoms, 'key': ('C01-CONJ', cb.name, combo)})
            vals = set()
            for alt in alternatives(rr.ret) if rr.ret is not None else [None]:
                vals.add(value(alt, asg))
            want = all(combo)
            if None in vals:
                undecided = (asg, rr.ret)
                continue
            if vals != {want}:
                bad = (asg, vals)
                break
        ok = bad is None and undecided is None
        out.inst(key, ok, 'conjunction of %s' % names, sample={'closure': key_of(cb), 'predicates': names, 'assignments': 2 ** len(names)})
        if bad is not None:
            asg, vals = bad
            out.fail(key, '%s is not the conjunction of its predicates: with %s it answers %s - an element that %s is %s' % (
                key_of(cb), ', '.join('%s=%s' % (k_, str(v_).lower()) for k_, v_ in asg.items()), sorted(str(v).lower() for v in vals),
                'every stage accepts' if all(asg.values()) else 'a stage rejects', 'dropped' if all(asg.values()) else 'kept'), cb.where())
        elif undecided is not None:
            asg, ret = undecided
            out.fail(key, '%s: cannot decide the value of the composed predicate with %s (returns %s)' % (key_of(cb), asg, t_str(ret)[:100]), cb.where(), kind='undecided')
    out.floor('composed_predicates', n, 1 if not ctx.fixture else 0)
    return out


STEP_METHODS = PULL_SIZED | PULL_ELEMENT


def is_step_call(t):
    """a call that advances to the next element / chunk"""
    return is_pull_call(t) or decl(t) == 'std::iter::Iterator::next'


EAGER_ITER_METHODS = {'collect', 'fold', 'count', 'sum', 'product', 'last', 'for_each', 'max', 'min', 'max_by', 'min_by', 'max_by_key', 'min_by_key',
                      'reduce', 'partition', 'unzip', 'collect_into', 'try_fold', 'try_for_each', 'extend', 'from_iter', 'for_each_concurrent'}


@rule('C10-LAZYINNER', 'a composed closure hands the values of one element downstream lazily: it never drains an iterator fed by a user closure')
def c10_lazyinner(ctx):
    """A transformation composes the user closures into one closure evaluated per element by the kernels; the early-exit
    kernels stop pulling from the value that closure returns as soon as a match is seen.  That only bounds the work if the
    closure itself did not already evaluate everything: a draining call (collect, fold, count, ..) inside the composed closure,
    on an iterator whose items come from a user closure, evaluates every value of the element before the first is examined."""
    out = RuleOut('C10-LAZYINNER')
    F = ctx.facts
    n = 0
    seen = set()
    for (pb, cb, info) in composed_closure_sites(ctx):
        if cb.name in seen:
            continue
        seen.add(cb.name)
        n += 1
        key = 'C10-LAZYINNER/' + key_of(cb)
        bad = []
        for body in [cb] + F.closures_in(cb, recursive=True):
            r = ctx.run(body.name)
            for bb, c in r.call_sites():
                t = c['t']
                m = method(t)
                if m not in EAGER_ITER_METHODS:
                    continue
                d = decl(t)
                if not (d.startswith(ITER) or d.endswith('Extend::extend') or d.endswith('FromIterator::from_iter') or 'IntoIterator' in d):
                    continue
                fed = [x for a in c['args'] for x in subterms(a) if x[0] == 'call' and (strip_generics(x[1]) in FN_CALLS or x[1] in FN_CALLS)
                       and x[2] and x[2][0][0] == 'param']
                if fed:
                    bad.append((body, c, m, fed[0]))
        out.inst(key, not bad, 'no draining call on user-fed iterators', sample={'closure': key_of(cb), 'built_in': key_of(pb), 'captures': [cn for (cn, _, _) in info]})
        for (body, c, m, fed) in bad[:1]:
            out.fail(key, '%s (built by %s) calls `%s` on an iterator fed by the user closure %s: every value of an element is evaluated before the first one is handed on, so an early-exit terminal no longer stops at the match (and never returns for an endless inner iterator)'
                     % (key_of(cb), key_of(pb), m, t_str(fed[2][0])), body.where(c['line']))
    out.floor('composed_closures', n, 20 if not ctx.fixture else 0)
    return out


@rule('C05-ONCE', 'a by-reference user closure is evaluated at most once per element (between two consecutive pulls)')
def c05_once(ctx):
    out = RuleOut('C05-ONCE')
    F = ctx.facts
    S = ctx.slots
    hosts = []
    for (pb, cb, info) in composed_closure_sites(ctx):
        hosts.append(cb)
    for tn in S.tasks + S.seq_kernels:
        hosts.append(F.bodies[tn])
        hosts.extend(F.closures_in(F.bodies[tn]))
    for b in F.bodies.values():
        if b.d.get('trait_default') == 'par::fallible::Fallible':
            hosts.append(b)
    n = 0
    seen = set()
    for b in hosts:
        if b.name in seen:
            continue
        seen.add(b.name)
        cfg = ctx.cfg(b)
        sites = {}
        for bb, t in b.calls():
            u = is_user_closure_call(t, b)
            byref = False
            if u:
                fbs = F.root_of(b).fn_bounds()
                byref = any(fbs.get(u, {}).get('by_ref', []))
            elif decl(t).endswith('Fallible::has_value'):
                u = 'has_value'
                byref = True
            if u and byref:
                # distinguish receivers: the operand local's origin
                sites.setdefault(u, []).append(bb)
        steps = {bb for bb, t in b.calls() if is_step_call(t)}
        for u, bbs in sorted(sites.items()):
            n += 1
            key = 'C05-ONCE/%s/%s' % (key_of(b), u)
            bad = None
            for a in bbs:
                reach = cfg.reach_strict(a, avoid=steps)
                for x in bbs:
                    if x in reach:
                        # for has_value on different receivers (two different stage results) this is fine; compare receivers
                        if u == 'has_value' and _recv(ctx, b, a) != _recv(ctx, b, x):
                            continue
                        # two calls on provably different elements (different argument terms, e.g. key(&x) and key(&y)) are fine
                        if a != x and _arg(ctx, b, a) is not None and _arg(ctx, b, a) != _arg(ctx, b, x):
                            continue
                        bad = (a, x)
            out.inst(key, bad is None, '%d call site(s)' % len(bbs), sample={'body': key_of(b), 'closure': u, 'call_sites': len(bbs)})
            if bad:
                out.fail(key, '%s: the by-reference closure `%s` can be evaluated twice on the same element (a second call is reachable without an intervening pull)' % (key_of(b), u), b.where(b.blocks[bad[1]]['term'].get('line')))
    out.floor('by_ref_closure_uses', n, 15 if not ctx.fixture else 0)
    return out


STAGE_RECEIVERS = ('std::iter::', 'core::iter::', 'std::option::Option::', 'core::option::Option::', 'std::result::Result::', 'core::result::Result::',
                   'std::ops::Fn', 'core::ops::Fn', 'std::clone::Clone::clone', 'std::borrow::Borrow::borrow', 'std::convert::',
                   'std::iter::Extend::extend', 'std::iter::FromIterator::from_iter', 'std::iter::IntoIterator::into_iter')


@rule('C05-STAGEUSE', 'inside the kernels a stage closure is called, or handed to an iterator adaptor / Option combinator / crate function - never to a std routine that decides itself how often to call it')
def c05_stageuse(ctx):
    """C05-ONCE counts the direct calls of a by-reference stage closure between two pulls, C05-AFFINE shows that a by-value stage
    cannot be applied twice.  Both are about calls the kernel makes.  A stage closure handed to a library routine is called by
    that routine: iterator adaptors and Option / Result combinators call it once per item they are given (T1); anything else -
    `Vec::retain(filter)`, `dedup_by`, `sort_by_key`, `partition_point`, `binary_search_by` .. - revisits elements on its own terms
    (`collected.retain(filter)` after every chunk shows the filter every earlier survivor again).  Who-may-receive: in the tasks
    and sequential kernels (and their closures) a stage closure - the parameter itself, a reference to it, or a closure literal
    capturing it - is an argument only of the receivers listed above or of a crate function."""
    out = RuleOut('C05-STAGEUSE')
    F = ctx.facts
    S = ctx.slots
    n = 0
    hosts = []
    for tn in list(S.tasks) + list(S.seq_kernels):
        if tn in F.bodies:
            hosts.append(F.bodies[tn])
            hosts.extend(F.closures_in(F.bodies[tn], recursive=True))
    seen = set()
    for b in hosts:
        if b.name in seen:
            continue
        seen.add(b.name)
        root = F.root_of(b)
        fbs = root.fn_bounds()
        stage = set()
        for l in root.arg_locals():
            tp = local_type_param(root, l)
            if tp in fbs and fbs[tp].get('inputs') != '(usize,)':
                stage.add(root.local_name(l) or '_%d' % l)
        if not stage:
            continue
        r = ctx.run0(b.name)

        def mentions(a):
            for x in subterms(a) if a is not None else ():
                if x[0] == 'param':
                    nm = x[1][4:] if x[1].startswith('cap:') else x[1]
                    if nm.lstrip('*&') in stage:
                        return nm
            return None

        def carries(a):
            """the argument IS a stage closure (possibly by reference) or a closure literal capturing one - not a value computed with it"""
            x = a
            while x is not None and x[0] in ('ref', 'mut'):
                x = x[1]
            if x is None:
                return None
            if x[0] == 'param':
                return mentions(x)
            if x[0] == 'closure':
                for cap in x[2]:
                    got = carries(cap)
                    if got:
                        return got
            return None
        for bb, c in r.call_sites():
            t = c['t']
            d = decl(t)
            who = [carries(a) for a in c['args']]
            who = [w for w in who if w]
            if not who:
                continue
            n += 1
            key = 'C05-STAGEUSE/%s/%s' % (key_of(b), method(t))
            ok = bool(t.get('local')) or callee_of(t) in F.bodies or d.startswith(STAGE_RECEIVERS) or d.startswith(ITER)
            out.inst(key, ok, '%s receives %s' % (res(t), who[0]), sample={'body': key_of(b), 'receiver': res(t), 'closure': who[0]})
            if not ok:
                out.fail(key, '%s hands the stage closure `%s` to %s: how often, and on which elements, that routine calls it is not the kernel\'s decision any more - a by-reference stage (filter, predicate) can be shown elements it has already seen' % (key_of(b), who[0], res(t)), b.where(c['line']))
    out.floor('stage_closure_arguments', n, 10 if not ctx.fixture else 0)
    return out


def _buffered_sites(ctx, hosts):
    F = ctx.facts
    out_ = []
    for tn in sorted(hosts):
        tb = F.bodies.get(tn)
        if tb is None:
            continue
        for b in [tb] + F.closures_in(tb, recursive=True):
            for bb, t in b.calls():
                if is_coniter_call(t, {'buffered_iter', 'buffered_iter_x'}):
                    out_.append((tb, b, t))
    return out_


BUFSITE_WHY = ('a buffered pull allocates `chunk_size` slots up front; for a source of unknown length the resolved chunk size is whatever the user '
               'configured (C15-CHUNKCAP-U), so a huge ChunkSize::Exact / Min makes every worker panic in the allocation (`capacity overflow`) '
               'where num_threads(1) returns the result')


@rule('C15-BUFSITE', 'inventory of the buffered pull sites: each is a place where an unbounded chunk size of an unknown-length source becomes an allocation')
def c15_bufsite(ctx):
    """C15-CHUNKCAP-U records that the resolved chunk size has no bound for sources of unknown length (a known finding: the clamp would
    change the meaning of Exact(c)).  Where that hurts is decided by *how* a task pulls: `next_chunk(_x)` hands out what is there,
    `buffered_iter(_x)` allocates the whole buffer first.  Every buffered pull site is therefore a finding of its own, keyed by the
    task - the ones of today's tree are listed in known_findings.json; a kernel that is switched to buffered pulls is a new one."""
    out = RuleOut('C15-BUFSITE')
    S = ctx.slots
    n = 0
    seen = set()
    for (tb, b, t) in _buffered_sites(ctx, S.tasks):
        n += 1
        # keyed by the kernel (its source file), not by the function: renaming or splitting the task is not a new finding
        stem = (b.file or tb.file or '').rsplit('/', 1)[-1].rsplit('.', 1)[0]
        key = 'C15-BUFSITE/' + (stem or key_of(tb))
        if key in seen:
            continue
        seen.add(key)
        out.inst(key, False, method(t), sample={'task': key_of(tb), 'pull': method(t)})
        out.fail(key, '%s pulls through `%s`: %s' % (key_of(tb), method(t), BUFSITE_WHY), b.where(t.get('line')))
    out.count('buffered_pull_sites', n)
    out.floor('tasks', len(S.tasks), 6 if not ctx.fixture else 0)
    return out


@rule('C07-BUFSITE', 'the unordered-collect tasks pull with next_chunk_x: no buffered pull (an up-front allocation of an unbounded chunk size) in them')
def c07_bufsite(ctx):
    out = RuleOut('C07-BUFSITE')
    _, frag = ordered_tasks(ctx)
    n = 0
    for (tb, b, t) in _buffered_sites(ctx, frag):
        n += 1
        key = 'C07-BUFSITE/' + key_of(tb)
        out.inst(key, False, method(t))
        out.fail(key, '%s (a collect_x task) pulls through `%s`: %s - collect_x no longer returns the elements for these parameters' % (key_of(tb), method(t), BUFSITE_WHY), b.where(t.get('line')))
    for tn in frag:
        out.inst('C07-BUFSITE/%s/ok' % key_of(ctx.facts.bodies[tn]), True, 'no buffered pull')
    out.floor('collect_x_tasks', len(frag), 1 if not ctx.fixture else 0)
    return out


@rule('C13-BUFSITE', 'the tasks that write into the positional bag (kept in ManuallyDrop across the run) make no buffered pull: a library panic there leaks the bag')
def c13_bufsite(ctx):
    """`map_col` leaks its bag on unwind by design, on the assumption that only a user closure can panic inside the run.  A buffered
    pull in its task is a library panic for a configured chunk size (C15-BUFSITE): the bag - with the caller's earlier elements in a
    collect_into target - is then leaked although no closure panicked."""
    from .rules_struct import BAG_HEADS
    out = RuleOut('C13-BUFSITE')
    F = ctx.facts
    S = ctx.slots
    hosts = set()
    for (bn, bb), (clo, fns) in S.task_of_site.items():
        b = F.bodies[bn]
        if any(d['head'] in BAG_HEADS or (d['head'].startswith('adt:std::mem::ManuallyDrop') and any(h.split(':', 1)[1] in d['ty'] for h in BAG_HEADS)) for d in b.locals.values()):
            hosts |= set(fns)
    n = 0
    for (tb, b, t) in _buffered_sites(ctx, hosts):
        n += 1
        key = 'C13-BUFSITE/' + key_of(tb)
        out.inst(key, False, method(t))
        out.fail(key, '%s writes into the bag that is leaked on unwind and pulls through `%s`: %s - and the ManuallyDrop bag, with everything in it, is leaked without any closure having panicked' % (key_of(tb), method(t), BUFSITE_WHY), b.where(t.get('line')))
    for tn in sorted(hosts):
        out.inst('C13-BUFSITE/%s/ok' % key_of(F.bodies[tn]), True, 'no buffered pull')
    out.floor('bag_tasks', len(hosts), 1 if not ctx.fixture else 0)
    return out


@rule('C05-ENTRY', 'a parallel kernel entry only wires the run: on its parallel route it neither pulls from the source nor calls a stage closure itself')
def c05_entry(ctx):
    """Every per-element rule (C05-VISIT, C05-FEED, C05-ACCEPT, C01-KEY ..) is about the worker tasks and the sequential kernels.
    The function that calls the runner - builds the task closure, hands it over, merges what comes back - must not do element work
    of its own: an element it pulls and processes inline ("probe the first element of an unknown-length source before spawning")
    is seen by none of those rules, and whatever it does with it (skipping the filter, pushing it twice) goes unjudged.  On the
    route that is not the sequential-only one, the entry itself makes no call of a stage closure and no pull."""
    out = RuleOut('C05-ENTRY')
    F = ctx.facts
    S = ctx.slots
    n = 0
    for en in sorted(S.par_entries):
        b = F.bodies[en]
        if en in S.tasks or en in S.seq_kernels or en in S.runner_entries:
            continue
        cfg = ctx.cfg(b)
        seq_only = set()
        for (bn, cbb, sbb, tt, ft) in S.seq_switches:
            if bn == en and tt != ft:
                seq_only |= (cfg.reach(tt) - cfg.reach(ft))
        fbs = b.fn_bounds()
        n += 1
        key = 'C05-ENTRY/' + key_of(b)
        bad = []
        for bb, t in b.calls():
            if bb in seq_only or b.blocks[bb].get('cleanup'):
                continue
            u = is_user_closure_call(t, b)
            if u and fbs.get(u, {}).get('inputs') != '(usize,)' and len(fbs.get(u, {}).get('by_ref', [])) == 1:
                bad.append((t, 'calls the stage closure `%s`' % u))
            elif is_pull_call(t) and not is_coniter_call(t, {'into_seq_iter'}):
                bad.append((t, 'pulls from the source with `%s`' % method(t)))
        out.inst(key, not bad, 'wiring only', sample={'entry': key_of(b)})
        for (t, what) in bad[:2]:
            out.fail(key + '/' + what.split('`')[1], '%s %s on its parallel route, outside the worker tasks: that element is processed where none of the per-element rules looks (is it filtered? exactly once? on which thread?)' % (key_of(b), what), b.where(t.get('line')))
    out.floor('parallel_entries', n, 6 if not ctx.fixture else 0)
    return out


@rule('C05-MERGE', 'only the worker tasks evaluate the per-element closures: what a kernel hands to the runner besides the task contains no stage closure')
def c05_merge(ctx):
    """The tasks evaluate each stage closure once per element (C05-ONCE, C05-VISIT).  Everything else a kernel passes to a runner
    entry - the operator that merges per-thread results - runs once per merge step on values that already went through the
    stages.  A unary stage closure (map / filter / predicate / key) reachable from such an argument is evaluated again on
    elements the tasks have already shown it.  The binary operator of the reduce family is the one closure that belongs there."""
    from .rules_struct import user_closure_values
    out = RuleOut('C05-MERGE')
    F = ctx.facts
    S = ctx.slots
    n = 0
    for (bn, bb, entry) in sorted(S.runner_call_sites):
        b = F.bodies[bn]
        r = ctx.run(bn)
        c = r.calls.get(bb)
        if c is None:
            continue
        n += 1
        task_clo = S.task_of_site.get((bn, bb), (None, []))[0]
        fb = b.fn_bounds()
        key = 'C05-MERGE/%s/%s' % (key_of(b), strip_generics(entry).split('::')[-1])
        bad = []
        for i, a in enumerate(c['args']):
            if a is None:
                continue
            if a[0] == 'closure' and a[1] == task_clo:
                continue
            if a[0] == 'ref' and len(a) > 1 and isinstance(a[1], tuple) and a[1][:2] == ('closure', task_clo):
                continue
            for (x, tp) in user_closure_values(ctx, b, a):
                if len(fb.get(tp, {}).get('by_ref', [])) == 1 and fb.get(tp, {}).get('inputs') != '(usize,)':
                    bad.append((i, x, tp))      # (an `Fn(usize)` parameter is the thread task handed through a wrapper of the runner)
        out.inst(key, not bad, 'non-task arguments hold no stage closure', sample={'kernel': key_of(b), 'entry': strip_generics(entry), 'task_closure': task_clo})
        for (i, x, tp) in bad[:1]:
            out.fail(key, '%s hands the stage closure %s (type parameter %s) to %s outside the task (argument %d): it is evaluated again, on the spawning thread, for values the workers already passed through it - more than once per element'
                     % (key_of(b), t_str(x), tp, strip_generics(entry).split('::')[-1], i), b.where(c['line']))
    out.floor('runner_calls', n, 10 if not ctx.fixture else 0)
    return out


def _arg(ctx, b, bb):
    r = ctx.run(b.name)
    c = r.calls.get(bb)
    return c['args'][1] if c and len(c['args']) > 1 else None


def _recv(ctx, b, bb):
    r = ctx.run(b.name)
    c = r.calls.get(bb)
    return c['args'][0] if c and c['args'] else None


# ======================================================================================= C05-VISIT
DRAIN_METHODS = {'count', 'reduce', 'collect', 'for_each', 'fold', 'sum', 'last', 'extend'}


def source_stream_root(I, root):
    """a stream that ends exactly when the shared iterator is exhausted: values()/ids_and_values(), or a
    `from_fn` generator whose closure returns a pull"""
    if is_stream_root(root):
        return True
    g = I.generator_pull(root)
    return g is not None and all(is_pull_term(a) for a in alternatives(g))


def exhaustion_escapes(ctx, b, depth=0):
    """return blocks of b reachable without crossing the `None` edge of a pull, a draining terminal over the source
    stream, or a call of a crate fn that itself always observes exhaustion; plus the cut edges and drain blocks"""
    I = items(ctx)
    cfg = ctx.cfg(b)
    r = ctx.run(b.name)
    cut = []
    for sbb, (d, tg) in r.switches.items():
        if d[0] == 'discr':
            x = d[1]
            is_src = is_pull_term(x) or (x[0] == 'call' and is_next_call(x) and source_stream_root(I, I.spine(x[2][0])[1]))
            if not is_src and x[0] == 'call' and is_iter_method(x, ('find', 'find_map', 'position', 'last', 'max', 'min', 'reduce')) and x[2]:
                # `stream.find_map(f)` is None only when the stream ran dry
                names, root = I.spine(I.normalize(x[2][0]))
                is_src = source_stream_root(I, root) and not any(y in ITER_CARD_CHANGING for y in names)
            if is_src:
                cut.append((sbb, r.switch_target(sbb, 0)))
    drains = set()
    for bb, c in r.call_sites():
        m = method(c['t'])
        if m in DRAIN_METHODS and (decl(c['t']).startswith(ITER) or decl(c['t']).endswith('Extend::extend')):
            ch = c['args'][1] if m == 'extend' and len(c['args']) > 1 else c['args'][0]
            names, root = I.spine(I.normalize(ch))
            if source_stream_root(I, root) and not any(x in ITER_CARD_CHANGING for x in names):
                drains.add(bb)
        elif c['t'].get('local') and callee_of(c['t']) in ctx.facts.bodies and depth < 3:
            cal = ctx.facts.bodies[callee_of(c['t'])]
            # a loop-free helper that was handed the source stream and drains it (`count_accepted(iter.values(), ..)`):
            # its value, as inlined by the analysis, is a draining terminal over that stream
            if not ctx.cfg(cal).loops():
                val = c['res']
                if val is not None and val[0] == 'call' and val[1] == cal.name:
                    val = I.apply(('fn', cal.name), list(c['args']))
                dr = False
                for alt in alternatives(I.normalize(val)) if val is not None else []:
                    if alt[0] == 'call' and is_iter_method(alt, tuple(DRAIN_METHODS)) and alt[2]:
                        names, root = I.spine(I.normalize(alt[2][0]))
                        if source_stream_root(I, root) and not any(x in ITER_CARD_CHANGING for x in names):
                            dr = True
                        else:
                            dr = False
                            break
                    else:
                        dr = False
                        break
                if dr:
                    drains.add(bb)
                    continue
                # ... or it drains the stream for its effect (`extend_with_kept(&mut collected, iter.values(), ..)`): a draining
                # terminal over a chain rooted at the parameter that received the stream lies on every path to its return
                rc = ctx.run(cal.name)
                ccfg = ctx.cfg(cal)
                pnames = [cal.local_name(l) for l in cal.arg_locals()]
                handed = False
                for i_, a_ in enumerate(c['args']):
                    if i_ >= len(pnames) or not pnames[i_] or a_ is None:
                        continue
                    sn_, root_ = I.spine(I.normalize(a_))
                    if not source_stream_root(I, root_) or any(x in ITER_CARD_CHANGING for x in sn_):
                        continue
                    dbs = set()
                    for cbb, cc in rc.call_sites():
                        m2 = method(cc['t'])
                        if m2 in DRAIN_METHODS and (decl(cc['t']).startswith(ITER) or decl(cc['t']).endswith('Extend::extend')):
                            ch2 = cc['args'][1] if m2 == 'extend' and len(cc['args']) > 1 else cc['args'][0]
                            n2, root2 = I.spine(I.normalize(ch2))
                            if root2 == P(pnames[i_]) and not any(x in ITER_CARD_CHANGING for x in n2):
                                dbs.add(cbb)
                    if dbs and not [x for x in ccfg.returns if x in ccfg.reach(0, avoid=dbs)]:
                        handed = True
                        break
                if handed:
                    drains.add(bb)
                    continue
            # a helper that receives the shared iterator and always runs it to exhaustion
            takes_iter = any('ConcurrentIter' in cal.locals[l]['ty'] or cal.locals[l]['head'].startswith(('ref:param:I', 'param:I')) for l in cal.arg_locals())
            if takes_iter and cal.name not in ctx.slots.tasks and ctx.cfg(cal).loops():
                sub_esc, _, _ = exhaustion_escapes(ctx, cal, depth + 1)
                if not sub_esc:
                    drains.add(bb)
    reach = cfg.reach(0, avoid=drains, cut_edges=cut)
    esc = [x for x in cfg.returns if x in reach]
    return esc, cut, drains


def must_visit_tasks(ctx):
    ft = set(early_exit_tasks(ctx))
    return [t for t in ctx.slots.tasks if t not in ft]


@rule('C05-VISIT', 'must-visit tasks observe exhaustion before returning and drop no pulled element or surviving result')
def c05_visit(ctx):
    out = RuleOut('C05-VISIT')
    F = ctx.facts
    I = items(ctx)
    tasks = must_visit_tasks(ctx)
    n = 0
    for tn in sorted(tasks):
        b = F.bodies[tn]
        cfg = ctx.cfg(b)
        r = ctx.run(tn)
        key = 'C05-VISIT/' + key_of(b)
        # (a) exhaustion edges and draining terminals
        esc, cut, drains = exhaustion_escapes(ctx, b)
        n += 1
        out.inst(key + '/exhaustion', not esc, '%d exhaustion edge(s), %d draining terminal(s)' % (len(cut), len(drains)),
                 sample={'task': key_of(b), 'exhaustion_edges': len(cut), 'draining_terminals': len(drains)})
        if esc:
            p = cfg.path(0, esc, avoid=drains, cut_edges=cut)
            out.fail(key + '/exhaustion', '%s can return without having observed the exhaustion of the source (no `None` pull and no draining terminal on that path): remaining elements are never visited' % key_of(b), b.where(), {'path_blocks': p})
        # (b) no pulled element is dropped unprocessed on a normal path
        for bb in sorted(r.visited):
            blk = b.blocks[bb]
            t = blk['term']
            if t['t'] == 'drop' and not blk['cleanup']:
                ty = t['ty']
                if ty.endswith('ConcurrentIterX>::Item') or ty.startswith('orx_concurrent_iter::Next<') or ty.startswith('orx_concurrent_iter::NextChunk<') \
                        or ty.startswith('std::option::Option<orx_concurrent_iter::Next'):
                    out.fail(key + '/drops-element', '%s drops a pulled element/chunk (%s) on a normal path without handing it to the stage closure' % (key_of(b), ty[:80]), b.where(t.get('line')))
        # (c) in collecting tasks a surviving stage result is moved into the buffer, never dropped, on the survivor edge
        if b.d.get('ret_ty', '').startswith('std::vec::Vec<'):
            fbs = b.fn_bounds()
            outs = {fb['output'] for fb in fbs.values() if fb['output'] not in ('bool', '')}
            for bb, c in r.call_sites():
                u = is_user_closure_call(c['t'], b)
                is_filter = bool(u) and fbs.get(u, {}).get('output') == 'bool'
                if not is_filter:
                    continue
                sw = switch_of_call(ctx, b, bb)
                if not sw:
                    continue
                L = cfg.innermost_loop(bb)
                env = r.state.get(sw[1])
                if env is None:
                    continue
                avoid = {L} if L is not None else set()
                r2 = ctx.opa.run(tn, start=sw[1], start_env=env, avoid=avoid)
                n += 1
                bad = []
                for x in sorted(r2.visited):
                    tx = b.blocks[x]['term']
                    if tx['t'] == 'drop' and not b.blocks[x]['cleanup'] and tx['ty'] in outs:
                        bad.append(tx)
                out.inst(key + '/survivor', not bad, 'survivor edge of `%s`' % u, sample={'task': key_of(b), 'filter': u, 'blocks_after_survivor_edge': len(r2.visited)})
                for tx in bad:
                    out.fail(key + '/survivor', '%s: on the path where `%s` accepted the element, the stage result (%s) can be dropped instead of being emitted' % (key_of(b), u, tx['ty']), b.where(tx.get('line')))
    out.floor('must_visit_tasks', len(tasks), 6 if not ctx.fixture else 0)
    return out


@rule('C02-EXHAUST', 'a find task answers "no match" only after it has seen the source run dry')
def c02_exhaust(ctx):
    """C05-VISIT demands of the must-visit tasks that every return has observed exhaustion.  A find task may return early - with a
    match.  Every return that can carry `None` must still be preceded by a `None` pull (or be the value of a search over the whole
    stream, which is `None` only when the stream is dry): otherwise unsearched input remains and a match in it is missed."""
    out = RuleOut('C02-EXHAUST')
    F = ctx.facts
    I = items(ctx)
    n = 0
    for tn in sorted(early_exit_tasks(ctx)):
        b = F.bodies[tn]
        cfg = ctx.cfg(b)
        r = ctx.run(tn)
        esc, cut, drains = exhaustion_escapes(ctx, b)
        n += 1
        key = 'C02-EXHAUST/' + key_of(b)
        bad = []
        if esc:
            reach = cfg.reach(0, avoid=drains, cut_edges=cut)
            # what can be returned on the paths that never saw the source run dry: the analysis confined to the blocks those paths visit
            # (cleanup blocks shared by several `return`s would otherwise merge the `None` of the dry arm into the others)
            r = ctx.opa.run(tn, seeds={'key': ('not-exhausted', tn)}, avoid=set(b.blocks) - set(reach))
            # ... and each returned value judged where it is put into the return place, with the guards of that very block
            edges = []
            for bb_ in sorted(reach):
                blk = b.blocks[bb_]
                if blk.get('cleanup') or bb_ not in r.exit_env:
                    continue
                if any(st.get('lhs') and st['lhs'].get('l') == 0 for st in blk.get('stmts', [])):
                    env = r.exit_env[bb_]
                    edges.append((bb_, ctx.opa.collapse(env.get(0), env), env.get(OPA_PC, frozenset())))
                tm = blk['term']
                if tm.get('t') == 'call' and (tm.get('dest') or {}).get('l') == 0 and tm.get('target') in r.state:
                    env = r.state[tm['target']]
                    edges.append((bb_, ctx.opa.collapse(env.get(0), env), env.get(OPA_PC, frozenset())))
            if not edges:
                edges = [(pred, val, pc) for (pred, rb), (val, pc) in r.ret_edges.items() if pred in reach] or [(bb_, val, pc) for (bb_, val, pc) in r.returns if bb_ in reach]
            for pred, val, pc in edges:
                for alt in alternatives(val):
                    if alt is None:
                        continue
                    # returned on a path on which this very value was found to be Some (`if result.is_some() { .. return result }`)
                    known_some = False
                    from .rules_flow import norm_bool
                    for pt, f in pc:
                        if pt == ('discr', alt) and f == ('eq', 1):
                            known_some = True
                        # any spelling of the test: `is_none() == false`, `!is_none()`, `is_some() != false` ..
                        kind, arg = norm_bool(pt)
                        if kind in ('is_some', 'is_none') and arg in (alt, ('ref', alt)) and lin.fact_truth(f) is not None:
                            if (kind == 'is_some') == lin.fact_truth(f):
                                known_some = True
                        if pt[0] == 'call' and tcallee(pt) == 'std::option::Option::is_some' and pt[2] and pt[2][0] in (alt, ('ref', alt)) and lin.fact_truth(f) is True:
                            known_some = True
                        if pt[0] == 'call' and tcallee(pt) == 'std::option::Option::is_none' and pt[2] and pt[2][0] in (alt, ('ref', alt)) and lin.fact_truth(f) is False:
                            known_some = True
                    if known_some:
                        continue
                    if alt[0] == 'variant' and alt[1] == 'std::option::Option' and alt[2] == 1:
                        continue        # a match
                    x = I.normalize(alt)
                    while x is not None and x[0] == 'call' and tcallee(x) in ('std::option::Option::map', 'std::option::Option::inspect') and x[2]:
                        x = x[2][0]
                    if x is not None and x[0] == 'call' and x[2] and (is_iter_method(x, ('find', 'find_map', 'position', 'next')) or is_next_call(x)):
                        names, root = I.spine(x[2][0])
                        if source_stream_root(I, root) and not [y for y in names if y not in ITER_ELEMENT_FAITHFUL]:
                            continue    # a search over the whole stream: None only when the stream is dry
                    if x is not None and x[0] == 'phi':
                        continue        # a carried search result: its alternatives are judged where they are produced
                    bad.append((pred, alt))
        out.inst(key, not bad, '%d exhaustion edge(s)' % len(cut), sample={'task': key_of(b), 'exhaustion_edges': len(cut)})
        for (pred, alt) in bad[:1]:
            out.fail(key, '%s can return %s without having seen the source run dry (no `None` pull on that path): input that was never searched remains, and a match in it is missed' % (key_of(b), t_str(alt)[:60]), b.where(b.blocks[pred]['term'].get('line')))
    # (b) the same one level down: a closure of the search chain (the argument of flat_map / filter_map / find_map) answers "nothing
    # in this element" with a literal None only where a user test said so (the filter / predicate rejected, has_value was false) or
    # where the result of a search it made is None - never on a test of its own (`size_hint().0 == 0` is a lower bound, not emptiness)
    m_ = 0
    for tn in sorted(early_exit_tasks(ctx)):
        tb = F.bodies[tn]
        for cb in F.closures_in(tb, recursive=True):
            if not str(cb.d.get('ret_ty') or '').startswith('std::option::Option<'):
                continue
            rc = ctx.run0(cb.name)
            sw_terms = [d for (d, tg) in rc.switches.values()]
            if not sw_terms:
                continue        # branch-free: whatever it returns is computed from the element
            m_ += 1
            key = 'C02-EXHAUST/' + key_of(cb)
            bad = None
            for bb_ in sorted(rc.visited):
                blk = cb.blocks[bb_]
                if blk.get('cleanup') or bb_ not in rc.exit_env:
                    continue
                for st in blk.get('stmts', []):
                    rv = st.get('rv') or {}
                    if st.get('lhs') and st['lhs'].get('l') == 0 and not st['lhs'].get('p') and rv.get('r') == 'agg' and rv.get('adt') == 'std::option::Option' and rv.get('variant') == 'None':
                        pc = rc.exit_env[bb_].get(OPA_PC, frozenset())
                        justified = False
                        for pt, f in pc:
                            x = pt
                            if x is not None and x[0] == 'discr':
                                x = x[1]
                            kind, arg = norm_bool(x) if x is not None else (None, None)
                            y = arg if kind in ('not', 'id', 'is_some', 'is_none') else x
                            if kind in ('is_some', 'is_none'):
                                justified = True        # decided by the outcome of a search / an Option the closure computed
                            elif y is not None and y[0] == 'call' and (_user_pred_truth(tb, y) or tcallee(y).endswith('Fallible::has_value') or
                                                                       (sg(y[1]) in FN_CALLS and y[2] and str(_unref_param(y[2][0]))[:4] == 'cap:')):
                                justified = True
                            elif x is not None and x[0] == 'call' and (is_iter_method(x, ('find', 'find_map', 'next', 'position')) or tcallee(x).startswith('std::option::Option::')):
                                justified = True
                        if not justified:
                            bad = (bb_, st.get('line'), pc)
            out.inst(key, bad is None, 'literal None only behind a user test', sample={'closure': key_of(cb)})
            if bad is not None:
                tests = ', '.join(sorted({t_str(pt)[:60] for pt, f in bad[2]})) or 'no test at all'
                out.fail(key, '%s answers None for an element on a path decided by %s - not by the user\'s filter / has_value nor by the outcome of a search: values of that element are never examined, and a match among them is missed' % (key_of(cb), tests), cb.where(bad[1]))
    out.count('search_closures', m_)
    out.floor('find_tasks', n, 1 if not ctx.fixture else 0)
    return out


def _unref_param(t):
    while t is not None and t[0] in ('ref', 'mut'):
        t = t[1]
    return t[1] if t is not None and t[0] == 'param' else ''


WHOLE_VIEWS = {'iter', 'into_iter', 'as_slice', 'as_mut_slice', 'deref', 'as_ref', 'borrow', 'into_con_iter', 'con_iter', 'into_con_iter_x',
               'clone', 'to_vec', 'into_vec', 'into_boxed_slice', 'from', 'into', 'collect', 'make_contiguous', 'cloned', 'copied', 'from_iter'}


@rule('C05-SOURCE', 'a by-value Iterator enters a pipeline only through the dependency\'s serialising concurrent-iterator constructors')
def c05_source(ctx):
    out = RuleOut('C05-SOURCE')
    F = ctx.facts
    S = ctx.slots
    n = 0
    for sn in S.sources:
        b = F.bodies[sn]
        r = ctx.run(sn)
        # what the source is built from: the iterator field of the computation it returns (constructors are inlined), or the
        # argument of a constructor call that the inlining depth left standing
        built = []
        for alt in alternatives(r.ret) if r.ret is not None else []:
            if alt[0] == 'variant' and ('adt:' + alt[1]) in S.par_impl_types:
                try:
                    built.append((alt[3][F.field_index(alt[1], 'iter')], b.d.get('line')))
                except (KeyError, IndexError):
                    pass
            elif alt[0] == 'call' and alt[1] in S.constructors and alt[2]:
                built.append((alt[2][0], b.d.get('line')))
        if not built:
            for bb, c in r.call_sites():
                if callee_of(c['t']) in S.constructors and c['args']:
                    built.append((c['args'][0], c['line']))
        for (a, line_) in built:
            if True:
                c = {'line': line_}
                n += 1
                key = 'C05-SOURCE/' + key_of(b)
                ok = (a == P('self')) or (a[0] == 'call' and tcallee(a).startswith('orx_concurrent_iter::')) or \
                    (a[0] == 'call' and method_of_term(a) in ('into_con_iter', 'con_iter', 'into_con_iter_x'))
                # when self is handed on unchanged it must itself be a concurrent iterator type (impl for ConIterOf*)
                if a == P('self'):
                    ok = 'orx_concurrent_iter::' in b.locals[1]['ty']
                # the whole collection must be handed over: from `self` only through whole-collection views
                part = None
                x = a
                guard_n = 0
                while x != P('self') and guard_n < 12:
                    guard_n += 1
                    if x[0] == 'call' and method_of_term(x) in WHOLE_VIEWS and x[2]:
                        x = x[2][0]
                    else:
                        part = x
                        break
                if part is not None:
                    ok = False
                    out.fail(key + '/partial', '%s builds its source from %s, which is not a view of the whole collection (only `self`, iter()/into_iter()/as_slice()/From conversions are): elements can be left out' % (key_of(b), t_str(part)[:100]), b.where(c['line']))
                out.inst(key, ok, t_str(a)[:100], sample={'source': key_of(b), 'iterator': t_str(a)[:120]})
                if not ok:
                    out.fail(key, '%s builds the pipeline from %s, not from a concurrent-iterator constructor of the dependency: a by-value iterator could be advanced by several threads' % (key_of(b), t_str(a)[:120]), b.where(c['line']))
    out.floor('source_constructions', n, 8 if not ctx.fixture else 0)
    return out


# ======================================================================================= C09-EMPTY
@rule('C09-EMPTY', 'the stage-less pipeline collects sequentially through into_seq_iter')
def c09_empty(ctx):
    out = RuleOut('C09-EMPTY')
    F = ctx.facts
    S = ctx.slots
    I = items(ctx)
    n = 0
    for tn in S.terminals:
        b = F.bodies[tn]
        if b.d['method'] not in ORDERED_COLLECTS:
            continue
        reached = set(ctx.cg.reach(tn))
        if reached & (set(S.tasks) | set(S.seq_kernels)):
            continue
        n += 1
        r = ctx.run(tn)
        key = 'C09-EMPTY/' + key_of(b)
        ok = False
        why = t_str(r.ret)[:160]
        for alt in alternatives(r.ret):
            x = alt
            if x[0] == 'call' and (is_iter_method(x, ('collect',)) or tcallee(x) == 'std::iter::FromIterator::from_iter'):
                names, root = I.spine(x[2][0])
                ok = not [y for y in names if y not in ITER_CARD_PRESERVING] and coniter_term_is(root, {'into_seq_iter'})
            elif x[0] == 'call' and method_of_term(x) == 'seq_extend':
                names, root = I.spine(x[2][1])
                ok = x[2][0] == P(b.local_name(2)) and not [y for y in names if y not in ITER_CARD_PRESERVING] and coniter_term_is(root, {'into_seq_iter'})
            else:
                ok = False
            if not ok:
                break
        out.inst(key, ok, why, sample={'terminal': key_of(b), 'ret': why})
        if not ok:
            out.fail(key, '%s is not `into_seq_iter().collect()` / `output.seq_extend(into_seq_iter())`: %s' % (key_of(b), why), b.where())
    out.floor('kernel_less_collects', n, 3 if not ctx.fixture else 0)
    return out


# ======================================================================================= C02-IDX / C02-FIRST
def find_kernels(ctx):
    """find tasks and the sequential find kernels that return Option<(usize, _)>"""
    F = ctx.facts
    S = ctx.slots
    ks = list(early_exit_tasks(ctx))
    reach = set()
    for tn in S.terminals + S.inherent_terminals:
        if F.bodies[tn].d['method'] in FIND_FAMILY:
            reach |= set(ctx.cg.reach(tn)) & set(S.seq_kernels)
    ks += sorted(reach)
    return [k for k in ks if F.bodies[k].d.get('ret_ty', '').startswith('std::option::Option<(usize,')]


@rule('C02-IDX', 'the index reported with a match is the source position: the pull position, or begin_idx + an enumerate counter taken directly on the chunk')
def c02_idx(ctx):
    out = RuleOut('C02-IDX')
    F = ctx.facts
    I = items(ctx)
    n = 0
    for kn in find_kernels(ctx):
        b = F.bodies[kn]
        r = ctx.run(kn)
        iter_params = {P(b.local_name(l)) for l in b.arg_locals()}
        for alt in alternatives(r.ret):
            if alt[0] == 'variant' and alt[2] == 0:
                continue
            pay = I.payload(I.normalize(alt))
            for p in alternatives(pay):
                n += 1
                idx = ctx.opa.proj(p, 0, None)
                val = ctx.opa.proj(p, 1, None)
                pulls = pull_ids(val) if val is not None else set()
                seq_roots = [x for x in subterms(val) if x[0] == 'elem' and coniter_term_is(x[1], {'into_seq_iter'})] if val is not None else []
                role = 'seq' if seq_roots else ('chunk' if any(not is_stream_root(q) for q in pulls) else 'single')
                key = 'C02-IDX/%s/%s' % (key_of(b), role)
                ok = False
                why = t_str(idx)[:160]
                if seq_roots and idx is not None and idx[0] == 'count':
                    names, root = I.spine(idx[1])
                    ok = not [x for x in names if x not in ITER_CARD_PRESERVING] and coniter_term_is(root, {'into_seq_iter'}) and root[2][0] in iter_params
                    if not ok:
                        why = 'index counts %s (an adaptor that drops elements precedes the enumerate)' % names
                elif len(pulls) == 1 and idx is not None:
                    pull = next(iter(pulls))
                    pos = position_terms(ctx, pull)
                    vals = value_terms(ctx, pull)
                    if idx in pos:
                        ok = True
                    elif idx[0] == 'bin' and idx[1] == 'Add':
                        a, c = idx[2], idx[3]
                        cnt = c if a in pos else (a if c in pos else None)
                        if cnt is not None and cnt[0] == 'count':
                            names, root = I.spine(cnt[1])
                            ok = root in vals and not [x for x in names if x not in ITER_CARD_PRESERVING]
                            if not ok:
                                why = 'begin_idx + a counter over %s rooted at %s: not the in-chunk position' % (names, t_str(root)[:60])
                out.inst(key, ok, why, sample={'kernel': key_of(b), 'index': why, 'value': t_str(val)[:120]})
                if not ok:
                    out.fail(key, '%s reports index %s with a match: not the element\'s position in the source' % (key_of(b), why), b.where(), {'payload': t_str(p)[:300]})
    out.floor('match_payloads', n, 4 if not ctx.fixture else 0)
    return out


def _is_tested_match(a, inner):
    """the returned alternative `a` is the tested Option `inner`, `Some(<its payload>)`, or `Some((<begin> + payload.0, payload.1))` -
    the match taken apart and put together again with the chunk's begin index added (which index that is, C02-IDX decides)"""
    payload = ('field', inner, 1, 0)
    if a == inner or a == some(payload):
        return True
    if a is not None and a[0] == 'variant' and a[1] == 'std::option::Option' and a[2] == 1 and len(a[3]) == 1 and a[3][0][0] == 'tuple' and len(a[3][0][1]) == 2:
        i0, v0 = a[3][0][1]
        p0, p1 = ('field', payload, None, 0), ('field', payload, None, 1)
        if v0 == p1 and (i0 == p0 or (i0[0] == 'bin' and i0[1] == 'Add' and p0 in (i0[2], i0[3]) and
                                      p0 not in set(subterms(i0[3] if i0[2] == p0 else i0[2])))):
            return True
    return False


@rule('C02-FIRST', 'inside a task the match comes from an in-order short-circuit terminal over the pulled elements and is returned as found')
def c02_first(ctx):
    out = RuleOut('C02-FIRST')
    F = ctx.facts
    I = items(ctx)
    from .rules_flow import is_some_switches
    n = 0
    for tn in sorted(early_exit_tasks(ctx)):
        b = F.bodies[tn]
        r = ctx.run(tn)
        cfg = ctx.cfg(b)
        for (sbb, one, zero, inner) in is_some_switches(ctx, b, r):
            n += 1
            key = 'C02-FIRST/' + key_of(b)
            probs = []
            x = I.normalize(inner)
            while x[0] == 'call' and tcallee(x) == 'std::option::Option::map':
                x = x[2][0]
            if not (x[0] == 'call' and (is_iter_method(x, ('find', 'find_map', 'next', 'position')) or is_next_call(x))):
                probs.append('the tested result %s does not come from a short-circuit iterator terminal' % t_str(x)[:100])
            else:
                names, root = I.spine(x[2][0])
                badad = [y for y in names if y not in ITER_ELEMENT_FAITHFUL]
                rooted = is_stream_root(root) or any(root in value_terms(ctx, p) for p in pull_ids(root))
                if badad:
                    probs.append('the match is searched through `%s`, which can discard pulled elements unevaluated or is not in-order / lazy' % badad[0])
                if not rooted:
                    probs.append('the searched chain is not rooted at the pulled elements: %s' % t_str(root)[:80])
            # what is returned on the match edge is the tested value itself
            env1 = r.state.get(one)
            if env1 is not None and len(cfg.pred.get(one, ())) == 1:
                # continue the analysis from the match edge only: everything returned from there is the tested match
                r2 = ctx.opa.run(tn, start=one, start_env=env1)
                val = r2.ret
                if val is None or any(not _is_tested_match(a, inner) for a in alternatives(val)):
                    probs.append('on the match edge the task returns %s, not the match it tested' % t_str(val)[:100])
            else:
                after = cfg.reach(one)
                for (pred, rb), (val, pc) in r.ret_edges.items():
                    if pred in after and pred not in cfg.reach(zero, avoid={sbb}) | set():
                        if any(not _is_tested_match(a, inner) for a in alternatives(val)):
                            probs.append('on the match edge the task returns %s, not the match it tested' % t_str(val)[:100])
            out.inst(key, not probs, t_str(x)[:100], sample={'task': key_of(b), 'search': t_str(x)[:160]})
            for p in probs:
                out.fail(key, '%s: %s' % (key_of(b), p), b.where())
    out.floor('match_tests', n, 3 if not ctx.fixture else 0)
    return out


# ======================================================================================= C02-ACCEPT
def _user_pred_truth(root, d, want_bool=True):
    """is the switch scrutinee `d` the result of a user predicate (an Fn-bounded parameter of `root` with output bool) call"""
    if d is None or d[0] != 'call' or sg(d[1]) not in FN_CALLS or not d[2]:
        return False
    f = d[2][0]
    while f is not None and f[0] in ('ref', 'mut'):
        f = f[1]
    if f is None or f[0] != 'param':
        return False
    nm = f[1][4:] if f[1].startswith('cap:') else f[1]
    nm = nm.lstrip('*&')
    fbs = root.fn_bounds()
    for l in root.arg_locals():
        if (root.local_name(l) or '') == nm:
            return fbs.get(local_type_param(root, l), {}).get('output') == 'bool'
    return False


def _opt_state(t):
    """'some' / 'none' / None (unknown) for an Option-valued term, looking through Option::map"""
    if t is None:
        return None
    if t[0] == 'variant' and t[1] == 'std::option::Option':
        return 'some' if t[2] == 1 else 'none'
    if t[0] == 'call' and tcallee(t) == 'std::option::Option::map' and t[2]:
        return _opt_state(t[2][0])
    if t[0] == 'set':
        st = {_opt_state(x) for x in t[1]}
        return st.pop() if len(st) == 1 else None
    return None


@rule('C02-ACCEPT', 'a search inside a find kernel accepts an element exactly when the user filter accepts it (and the fallible stage produced a value)')
def c02_accept(ctx):
    return _accept_rule(ctx, 'C02-ACCEPT', list(dict.fromkeys(early_exit_tasks(ctx) + list(ctx.slots.seq_kernels))),
                        ('find', 'find_map', 'position', 'any', 'all'), 6)


@rule('C05-ACCEPT', 'a filtering adaptor inside a kernel lets an element through exactly when the user filter accepts it (and the fallible stage produced a value)')
def c05_accept(ctx):
    """The same decision as C02-ACCEPT for the adaptors of the must-visit kernels: `filter(<crate closure>)` must be true exactly
    when the user predicate (or has_value) is, `filter_map(<crate closure>)` must yield Some exactly then.  A stricter closure
    drops survivors before the next stage / the terminal sees them, a laxer one lets rejected elements through."""
    return _accept_rule(ctx, 'C05-ACCEPT', list(dict.fromkeys(list(ctx.slots.tasks) + list(ctx.slots.seq_kernels))),
                        ('filter', 'filter_map', 'take_while', 'skip_while', 'map_while'), 6)


def _accept_rule(ctx, RID, roots, KINDS, floor):
    """C02-FIRST decides that a task's match comes from an in-order short-circuit search.  This rule decides what that search
    accepts: the predicate closure of every `find` / `position`, the step closure of every `find_map`, and every hand-written
    first-match loop (Items.search_loop) is re-executed with the outcome of the user predicate and of `has_value` fixed -
    all true: the element must be accepted (true / Some, and a loop must not go on to the next element);  any false: it must
    be rejected (false / None).  A search that is stricter than the filter skips the first match; a laxer one reports a
    non-match."""
    out = RuleOut(RID)
    F = ctx.facts
    S = ctx.slots
    I = items(ctx)
    bodies = []
    seen = set()

    def add(b, root, depth):
        if b.name in seen:
            return
        seen.add(b.name)
        bodies.append((b, root))
        for cb in F.closures_in(b, recursive=True):
            if cb.name not in seen:
                seen.add(cb.name)
                bodies.append((cb, root))
        if depth < 2:
            for bd in [b] + F.closures_in(b, recursive=True):
                for _, t in bd.calls():
                    if t.get('local') and res_full(t) in F.bodies and not F.bodies[res_full(t)].is_closure() and res_full(t) not in S.tasks:
                        hb = F.bodies[res_full(t)]
                        add(hb, hb, depth + 1)

    def res_full(t):
        return t.get('resolved') or t.get('callee') or ''

    for tn in roots:
        add(F.bodies[tn], F.bodies[tn], 0)

    CASES = (('accepted', True, True), ('filter-rejects', False, True), ('no-value', True, False))

    def seeds_for(root, name, ft, hv, used=None):
        def atoms(d):
            if _user_pred_truth(root, d):
                if used is not None:
                    used.add('filter')
                return ft
            if d is not None and d[0] == 'call' and (sg(d[1]).endswith('Fallible::has_value')):
                if used is not None:
                    used.add('value')
                return hv
            return None
        return {'atoms': atoms, 'key': ('accept', name, ft, hv, id(used))}

    def consulted(root, name, args):
        """which of the two tests the body consults on some path: {'filter', 'value'}"""
        used = set()
        for (cname, ft, hv) in CASES:
            rr = ctx.opa.run(name, args, seeds=seeds_for(root, name, ft, hv, used))
            if _user_pred_truth(root, rr.ret):
                used.add('filter')
            if rr.ret is not None and rr.ret[0] == 'call' and sg(rr.ret[1]).endswith('Fallible::has_value'):
                used.add('value')
        return used

    n = 0
    for (b, root) in bodies:
        fn_root = F.root_of(b) if b.is_closure() else b
        # (1) iterator searches with a crate closure as predicate / step
        r = None
        for bb, t in b.calls():
            d_ = decl(t)
            if not d_.startswith(ITER) or d_[len(ITER):] not in KINDS:
                continue
            r = r or ctx.run(b.name)
            c = r.calls.get(bb)
            if c is None or len(c['args']) < 2:
                continue
            pred = c['args'][1]
            while pred is not None and pred[0] in ('ref', 'mut'):
                pred = pred[1]
            kind = d_[len(ITER):]
            n += 1
            key = '%s/%s/%s' % (RID, key_of(b), kind)
            if pred is None or pred[0] != 'closure' or pred[1] not in F.bodies:
                # the user predicate itself (`.find(filter)`): accepts what it accepts
                okp = pred is not None and pred[0] == 'param'
                out.inst(key, okp or pred is None or pred[0] != 'closure', 'predicate is %s' % t_str(pred)[:80], sample={'body': key_of(b), 'search': kind, 'predicate': t_str(pred)[:120]})
                continue
            cb = F.bodies[pred[1]]
            croot = F.root_of(cb)
            probs = []
            cargs = [pred, ('param', '$element')]
            used = consulted(croot, cb.name, cargs)
            uses_pred = bool(used)
            for (cname, ft, hv) in CASES:
                if (cname == 'filter-rejects' and 'filter' not in used) or (cname == 'no-value' and 'value' not in used):
                    continue
                rr = ctx.opa.run(cb.name, cargs, seeds=seeds_for(croot, cb.name, ft, hv))
                val = rr.ret
                want = ft and hv
                if kind in ('find_map', 'filter_map', 'map_while'):
                    st = _opt_state(val)
                    if want and st != 'some':
                        probs.append('with the filter accepting the element the step yields %s, not Some(..): a match can be passed over' % t_str(val)[:80])
                    if not want and st != 'none' and uses_pred:
                        probs.append('in the case `%s` the step yields %s, not None: a non-match can be reported' % (cname, t_str(val)[:80]))
                else:
                    direct = _user_pred_truth(croot, val) or (val is not None and val[0] == 'call' and sg(val[1]).endswith('Fallible::has_value'))
                    if want and not (val == ('const', 1) or direct):
                        probs.append('with the filter accepting the element the predicate is %s, not true: a match can be passed over' % t_str(val)[:80])
                    if not want and not (val == ('const', 0) or direct) and uses_pred:
                        probs.append('with the filter rejecting the element the predicate is %s, not false: a non-match can be reported' % t_str(val)[:80])
            if not uses_pred and RID == 'C05-ACCEPT':
                # an adaptor over the *stream of pulled chunks* (`chunks.filter_map(|chunk| chunk.map(..).filter(..).reduce(reduce))`)
                # aggregates per chunk; it is no element filter - the accumulator rules judge it
                try:
                    names_, root_ = I.spine(c['args'][0])
                    chunk_stream = source_stream_root(I, root_) and not (is_stream_root(root_) or pull_ids(root_))
                except Exception:
                    chunk_stream = False
                if chunk_stream:
                    out.inst(key, True, 'per-chunk aggregation over the stream of pulls', nontrivial=False)
                    continue
            if not uses_pred and kind in ('filter', 'take_while', 'skip_while', 'filter_map', 'map_while') and RID == 'C05-ACCEPT':
                # a filtering adaptor whose closure consults no user test (`.filter(|c| *c)` after `.map(is_accepted)`, or
                # `.filter(|inner| inner.size_hint().0 > 0)`): decided on the whole chain up to and including it - one symbolic element
                # is pushed through with the user tests fixed; it must come out exactly when they accept
                sem, why = chain_emits_iff_accepted(ctx, b, c['res'])
                okc = sem is True
                out.inst(key, okc, 'chain-level: %s' % why, sample={'body': key_of(b), 'adaptor': kind, 'closure': key_of(cb), 'decided_by': why})
                if not okc:
                    out.fail(key, '%s: the closure of `%s` consults no user test and the chain up to it does not hand on exactly the accepted elements (%s): elements are dropped (or kept) by a criterion of the library\'s own' % (key_of(b), kind, why), cb.where())
                continue
            if not uses_pred:
                # a search that does not consult a user predicate (e.g. `.find_map(|x| inner_search(x))`): its step is checked where it searches
                out.inst(key, True, 'no user predicate in this step', nontrivial=False)
                continue
            out.inst(key, not probs, 'accepts exactly what the user predicate accepts', sample={'body': key_of(b), 'search': kind, 'closure': key_of(cb)})
            for p_ in probs[:1]:
                out.fail(key, '%s: %s of `%s`: %s' % (key_of(b), 'step' if kind in ('find_map', 'filter_map', 'map_while') else 'predicate', kind, p_), cb.where())
        # (2) hand-written first-match loops
        if RID == 'C02-ACCEPT' and not b.is_closure() and I.search_loop(b.name) is not None:
            n += 1
            key = '%s/%s/loop' % (RID, key_of(b))
            cfg = ctx.cfg(b)
            header = next(iter(cfg.loops()))
            latches = [a for (a, h) in cfg.back_edges() if h == header]
            probs = []
            used = consulted(b, b.name, None)
            if not used:
                # the loop accepts on the outcome of an inner search (`if let Some(x) = inner.find(filter)`), which is an instance of
                # its own; nothing to decide here
                out.inst(key, True, 'acceptance decided by an inner search', nontrivial=False)
                continue
            for (cname, ft, hv) in CASES:
                if (cname == 'filter-rejects' and 'filter' not in used) or (cname == 'no-value' and 'value' not in used):
                    continue
                rr = ctx.opa.run(b.name, seeds=seeds_for(b, b.name, ft, hv))
                taken = False
                for a in latches:
                    if a in rr.visited:
                        taken = taken or (header in rr.switches[a][1] if a in rr.switches else True)
                somes = [alt for alt in alternatives(rr.ret) if _opt_state(alt) != 'none']
                if ft and hv and taken:
                    probs.append('with the filter accepting the element the loop can still go on to the next element: a match can be passed over')
                if not (ft and hv) and somes:
                    probs.append('in the case `%s` the loop can return %s: a non-match can be reported' % (cname, t_str(somes[0])[:80]))
            out.inst(key, not probs, 'returns at the first accepted element, never otherwise', sample={'fn': key_of(b)})
            for p_ in probs[:1]:
                out.fail(key, '%s: %s' % (key_of(b), p_), b.where())
    out.floor('searches', n, floor if not ctx.fixture else 0)
    return out


# ======================================================================================= C05-FEED
def _is_value_test(d):
    return d is not None and d[0] == 'call' and sg(d[1]).endswith('Fallible::has_value')


def _feed_seeds(root, name, ft, hv, used=None):
    def atoms(d):
        if _user_pred_truth(root, d):
            if used is not None:
                used.add('filter')
            return ft
        if _is_value_test(d):
            if used is not None:
                used.add('value')
            return hv
        return None
    return {'atoms': atoms, 'key': ('feed', name, ft, hv, id(used))}


STAGE_METHODS = {'has_value', 'value', 'into_option', 'clone', 'next', 'into_iter', 'iter', 'enumerate', 'map', 'filter', 'flat_map', 'filter_map', 'len', 'is_empty',
                 'skip_to_end', 'has_more', 'try_get_len', 'as_ref', 'deref', 'borrow', 'is_some', 'is_none', 'cmp', 'partial_cmp', 'eq', 'ne', 'lt', 'le', 'gt', 'ge'}


@rule('C05-FEED', 'what a kernel loop takes from the source reaches the result: an iteration that passes the user tests updates an accumulator or appends to the target with a value derived from the pulled element - and an iteration that does not, does not')
def c05_feed(ctx):
    """The accumulator rules (C03-THREAD, C04-THREAD) and the append rules (C01-APPEND, C06-MUT) judge the updates that exist.  This rule
    decides that they exist where they must.  For every loop of a must-visit task / sequential kernel / seq_extend that is driven
    by an Option-valued pull (`while let Some(x) = pull` / `for x in chain`):  a *feed* is a statement or call that gives a
    loop-carried local a new value mentioning the pulled value, or a call on a loop-carried / reference-typed target with an
    argument mentioning it.  The body is re-executed with the user predicate and has_value fixed:  all true - every path from the
    Some edge back to the loop head (or out of the loop) passes a feed;  any false - no feed is reachable before the loop head.
    An outer loop whose body only drives an inner pulling loop needs one feed that mentions its pull."""
    out = RuleOut('C05-FEED')
    F = ctx.facts
    S = ctx.slots
    I = items(ctx)
    roots = list(dict.fromkeys(must_visit_tasks(ctx) + list(S.seq_kernels)))
    for b in F.bodies.values():
        if b.d.get('impl_trait') == COLLECT_INTO_CORE and b.d.get('method') == 'seq_extend':
            roots.append(b.name)
    n = 0
    for bn in roots:
        b = F.bodies[bn]
        cfg = ctx.cfg(b)
        loops = cfg.loops()
        if not loops:
            continue
        r = ctx.run(bn)
        ref_params = set()
        for l in b.arg_locals():
            ty = b.locals[l]['ty']
            if ty.startswith('&') and local_type_param(b, l) not in b.fn_bounds() and 'Fn' not in ty:
                ref_params.add(('param', b.local_name(l) or '_%d' % l))
        nkey = {}
        returned_phis = {(x[1], x[2]) for alt in alternatives(r.ret) for x in subterms(alt) if x[0] == 'phi'} if r.ret is not None else set()
        # a phi returned through another phi (the value carried out of an inner loop)
        for _ in range(4):
            for k in list(returned_phis):
                for t_ in list(r.recur.get(k, ())) + [r.init.get(k)]:
                    if t_ is not None:
                        returned_phis |= {(x[1], x[2]) for x in subterms(t_) if x[0] == 'phi'}
        # no chain anywhere in the body goes through an adaptor that discards or reorders elements irrespective of the user filter
        seen_bad = set()
        for x, c in r.call_sites():
            for a in c['args']:
                if a is None or a[0] != 'call' or not (is_iter_method(a) or is_into_iter(a)):
                    continue
                names, root_ = I.spine(a)
                for y in names:
                    if (y in ITER_CARD_CHANGING or y in ('take_while', 'skip_while', 'map_while', 'scan')) and y not in seen_bad:
                        seen_bad.add(y)
                        out.inst('C05-FEED/%s/chain-%s' % (key_of(b), y), False, y)
                        out.fail('C05-FEED/%s/chain-%s' % (key_of(b), y), '%s sends its elements through `%s`, which discards or reorders elements irrespective of the user filter' % (key_of(b), y), b.where(c['line']))
        for header, blocks in sorted(loops.items()):
            blocks = set(blocks) | {header}
            inner = [h for h in loops if h != header and h in blocks]
            # the driving pull: a switch inside the loop on the discriminant of a call made in the loop, one edge of which leaves the loop
            drive = None
            for sbb, (d, tg) in sorted(r.switches.items()):
                if sbb not in blocks or d[0] != 'discr' or d[1][0] != 'call':
                    continue
                if any(sbb in set(loops[h]) | {h} for h in inner):
                    continue
                site = [bb for bb, c in r.call_sites() if bb in blocks and c['res'] == d[1]]
                if not site:
                    continue
                try:
                    some_t, none_t = r.switch_target(sbb, 1), r.switch_target(sbb, 0)
                except Exception:
                    continue
                if header in cfg.reach(none_t, avoid=set()) and none_t in blocks:
                    continue
                drive = (sbb, d[1], some_t, none_t)
                break
            if drive is None:
                continue
            sbb, V, some_t, none_t = drive
            n += 1
            key = 'C05-FEED/%s/%s' % (key_of(b), term_method(V) or 'pull')
            nkey[key] = nkey.get(key, 0) + 1
            if nkey[key] > 1:
                key += '#%d' % nkey[key]
            phis = {L for (h, L) in r.recur if h == header}
            phi_terms = {('phi', header, L) for L in phis}
            # the chain the loop iterates keeps every element: no take / skip / *_while / step_by / rev between the pull and the body
            if is_next_call(V) and V[2]:
                names, root_ = I.spine(V[2][0])
                badad = [y for y in names if y not in ITER_ELEMENT_FAITHFUL]
                if badad:
                    out.inst(key + '/chain', False, badad[0])
                    out.fail(key + '/chain', '%s iterates its elements through `%s`, which discards or reorders elements irrespective of the user filter' % (key_of(b), badad[0]), b.where())

            def base_of_recv(a):
                hops = 0
                while a is not None and hops < 12:
                    hops += 1
                    if a[0] in ('mut', 'ref', 'field'):
                        a = a[1]
                    else:
                        break
                return a

            def mentions(t, v=V):
                return t is not None and any(x == v for x in subterms(t))

            feeds = set()
            for x in blocks:
                st, ex = r.state.get(x, {}), r.exit_env.get(x, {})
                for L in phis:
                    z = ex.get(L)
                    # a new value that mentions the pulled value, or any update of an accumulator that the body returns (a count)
                    if z is not None and z != st.get(L) and (mentions(z) or (header, L) in returned_phis):
                        feeds.add(x)
            for x, c in r.call_sites():
                if x not in blocks or not c['args']:
                    continue
                dest = (c['t'].get('dest') or {}).get('l')
                if dest in phis and (any(mentions(a) for a in c['args']) or mentions(c['res'])):
                    feeds.add(x)
                    continue
                mth = method(c['t'])
                if decl(c['t']) in FN_CALLS and c['args'][0][0] == 'param' and any(mentions(a) for a in c['args'][1:]):
                    # a sink closure (`push: impl FnMut(Out)`, output `()`): handing it the value is the feed
                    fnm = c['args'][0][1][4:] if c['args'][0][1].startswith('cap:') else c['args'][0][1]
                    rootb = F.root_of(b) if b.is_closure() else b
                    tp_ = None
                    for l_ in rootb.arg_locals():
                        if (rootb.local_name(l_) or '') == fnm.lstrip('*&'):
                            tp_ = local_type_param(rootb, l_)
                    if rootb.fn_bounds().get(tp_, {}).get('output') in ('()', ''):
                        feeds.add(x)
                        continue
                f0 = resolve_local_closure(r, c['args'][0])
                if decl(c['t']) in FN_CALLS and f0 is not None and f0[0] == 'closure' and f0[1] in getattr(ctx.opa, '_mutcaps', {}) \
                        and any(mentions(a) for a in c['args'][1:]):
                    # a local closure that captures the target by mutable reference (`let mut emit = |idx, v| collected.extend(..)`)
                    feeds.add(x)
                    continue
                if decl(c['t']) in FN_CALLS or mth in STAGE_METHODS:
                    # the binary operator of a reduction fed with the accumulator is a feed; any other closure call is a stage
                    if decl(c['t']) in FN_CALLS and any(any(y in phi_terms for y in subterms(a)) for a in c['args'][1:]) and any(mentions(a) for a in c['args'][1:]):
                        pass
                    continue
                recv = base_of_recv(c['args'][0])
                if (recv in phi_terms or recv in ref_params or (recv is not None and recv[0] == 'phi')) and any(mentions(a) for a in c['args'][1:]):
                    feeds.add(x)
            pulling_inner = [h for h in inner if any(x in feeds for x in set(loops[h]) | {h})]
            if inner and pulling_inner:
                ok = bool(feeds)
                out.inst(key, ok, 'outer loop: %d feed block(s) in its inner loop(s)' % len(feeds), sample={'body': key_of(b), 'pull': t_str(V)[:120], 'feed_blocks': sorted(feeds)})
                if not ok:
                    out.fail(key, '%s: nothing derived from %s reaches an accumulator or the target inside the loop that pulls it: the pulled elements are discarded' % (key_of(b), t_str(V)[:80]), b.where())
                continue
            root = F.root_of(b) if b.is_closure() else b
            # the user tests this loop's own body consults
            used = set()
            for (ft, hv) in ((True, True), (False, True), (True, False)):
                rr = ctx.opa.run(bn, seeds=_feed_seeds(root, bn, ft, hv))
                for x, (d, tg) in rr.switches.items():
                    if x in blocks:
                        if _user_pred_truth(root, d):
                            used.add('filter')
                        if _is_value_test(d):
                            used.add('value')
            probs = []
            search_loop = False
            # a user predicate that the body evaluates but whose verdict no branch reads
            if 'filter' not in used and any(x in blocks and _user_pred_truth(root, c['res']) for x, c in r.call_sites()):
                probs.append('the user filter is evaluated inside the loop but no branch depends on its verdict: rejected elements are treated like accepted ones')
            for (cname, ft, hv) in (('accepted', True, True), ('filter-rejects', False, True), ('no-value', True, False)):
                if (cname == 'filter-rejects' and 'filter' not in used) or (cname == 'no-value' and 'value' not in used):
                    continue
                sd = _feed_seeds(root, bn, ft, hv)
                rr = ctx.opa.run(bn, seeds=sd)
                succ = {}
                for x in cfg.succ:
                    if x in rr.switches:
                        succ[x] = list(rr.switches[x][1])
                    elif x in r.switches:
                        # not reached from the entry under these answers (e.g. behind an outer test): decide the branch on its own
                        tv = sd['atoms'](r.switches[x][0])
                        succ[x] = [r.switch_target(x, int(tv))] if tv is not None else list(r.switches[x][1])
                    else:
                        succ[x] = [y for y in cfg.succ[x] if not b.blocks[y].get('cleanup')]
                if cname == 'accepted':
                    seen = cfg.reach(some_t, avoid=feeds, succ=succ)
                    full = cfg.reach(some_t, succ=succ, avoid={header})
                    if used and header not in cfg.reach(some_t, succ=succ):
                        # a search loop: an accepted element always ends the loop (`break` / `return`); what happens to it afterwards is
                        # the business of the accumulator rules - here: a rejected element must never end it
                        search_loop = True
                        continue
                    esc = header in seen or any(x not in blocks for x in seen)
                    if esc:
                        probs.append('with the user tests passing, an iteration can end without feeding the result (no accumulator update / append on that path): a surviving element is dropped')
                elif search_loop:
                    seen = cfg.reach(some_t, avoid={header}, succ=succ)
                    if any(x not in blocks for x in seen):
                        probs.append('in the case `%s` the iteration can leave the search loop as if the element had been accepted' % cname)
                else:
                    seen = cfg.reach(some_t, avoid={header}, succ=succ)
                    hit = sorted(x for x in feeds if x in seen and x in blocks)
                    if hit:
                        probs.append('in the case `%s` the iteration still feeds the result (%s): a rejected element is counted / emitted' % (cname, b.where(b.blocks[hit[0]]['term'].get('line'))))
            if not feeds and not search_loop and not probs:
                probs.append('nothing derived from the pulled value reaches an accumulator or the target inside the loop: the pulled elements are processed and then discarded')
            out.inst(key, not probs, '%s%d feed block(s); cases %s' % ('search loop; ' if search_loop else '', len(feeds), sorted(used) or ['none']), sample={'body': key_of(b), 'pull': t_str(V)[:120], 'feed_blocks': sorted(feeds), 'tests': sorted(used)})
            for p_ in probs[:1]:
                out.fail(key, '%s, loop over %s: %s' % (key_of(b), t_str(V)[:70], p_), b.where())
    out.floor('pulling_loops', n, 8 if not ctx.fixture else 0)
    return out


@rule('C05-CONSUME', 'a value that carries the elements - the runner\'s result in a kernel, the iterator handed to a sequential kernel or to seq_extend - is passed on along every path, never just dropped')
def c05_consume(ctx):
    """Function-level companion of C05-FEED.  (1) In a kernel that calls a runner entry returning data (the per-thread vectors, the
    reduced value), every path from that call to a normal return hands the result to another call, or the kernel returns a
    value built from it.  (2) In a sequential kernel and in every `seq_extend`, the by-value parameter that is the element source
    (a bare, non-Fn type parameter) is an argument of some call on every path from the entry to a normal return."""
    out = RuleOut('C05-CONSUME')
    F = ctx.facts
    S = ctx.slots
    n = 0

    def must_pass(b, r, start, carriers, what, key):
        cfg = ctx.cfg(b)
        uses = set()
        for x, c in r.call_sites():
            if any(any(y in carriers for y in subterms(a)) for a in c['args'] if a is not None):
                uses.add(x)
        succ = {x: [y for y in cfg.succ[x] if not b.blocks[y].get('cleanup')] for x in cfg.succ}
        seen = cfg.reach(start, avoid=uses, succ=succ)
        esc = [x for x in cfg.returns if x in seen]
        if esc:
            # returning a value built from the carrier - or decided by looking at it (`match result { (_, None) => None, .. }`) - passes it on
            def touches(t):
                return t is not None and any(y in carriers for y in subterms(t))
            pr = ctx.path_returns(b.name, inlining=True)
            if pr:
                # loop-free body: every path with its own guards (the arms of a match are joined before the return block)
                edges = [(pth[-1], val, pc) for (val, pc, pth) in pr if not (set(pth) & uses) and start in pth]
            else:
                edges = [(pred, val, pc) for (pred, rb), (val, pc) in r.ret_edges.items() if pred in seen or rb in seen] or \
                        [(bb_, val, pc) for (bb_, val, pc) in r.returns if bb_ in seen]
            if edges and all(all(touches(alt) or any(touches(pt) for pt, f in pc) for alt in alternatives(val)) for (_, val, pc) in edges):
                esc = []
        out.inst(key, not esc, '%d call(s) receive %s' % (len(uses), what), sample={'fn': key_of(b), 'value': what, 'using_call_blocks': sorted(uses)})
        if esc:
            out.fail(key, '%s can return without passing %s on to anything: the elements it carries are dropped' % (key_of(b), what), b.where())

    for (bn, bb, entry) in sorted(S.runner_call_sites):
        b = F.bodies[bn]
        eb = F.bodies[entry]
        rty = eb.d.get('ret_ty') or ''
        if rty in ('usize', '()', ''):
            continue
        r = ctx.run(bn)
        c = r.calls.get(bb)
        if c is None or c['res'] is None:
            continue
        n += 1
        R = c['res']
        tgt = c['t'].get('target')
        if tgt is None:
            continue
        must_pass(b, r, tgt, {R}, 'the result of %s' % strip_generics(entry).split('::')[-1], 'C05-CONSUME/%s/%s' % (key_of(b), strip_generics(entry).split('::')[-1]))
    hosts = list(S.seq_kernels)
    for b in F.bodies.values():
        if b.d.get('impl_trait') == COLLECT_INTO_CORE and b.d.get('method') == 'seq_extend':
            hosts.append(b.name)
    for hn in sorted(set(hosts)):
        b = F.bodies[hn]
        fbs = b.fn_bounds()
        tps = set(b.d.get('type_params') or [])
        for l in b.arg_locals():
            ty = b.locals[l]['ty']
            if ty in tps and ty not in fbs:
                nm = b.local_name(l) or '_%d' % l
                r = ctx.run(hn)
                n += 1
                must_pass(b, r, 0, {('param', nm)}, 'its parameter `%s`' % nm, 'C05-CONSUME/%s/%s' % (key_of(b), nm))
    out.floor('carriers', n, 8 if not ctx.fixture else 0)
    return out


@rule('C05-FALLIBLE', 'every impl of Fallible reports a value exactly when it has one: has_value is is_some / is_ok of self, value is its unwrap')
def c05_fallible(ctx):
    """The rules treat `has_value()` as the test that decides whether a filter_map stage produced an element (C05-ACCEPT, C05-FEED,
    C01-COMPOSE).  That is the meaning of the trait only if its impls say so: for each impl, `has_value(&self)` must be exactly the
    discriminant test of `self` for the payload-carrying variant (Option::is_some / Result::is_ok) and `value(self)` the
    unwrap / expect of the same `self`."""
    out = RuleOut('C05-FALLIBLE')
    F = ctx.facts
    n = 0
    OKTEST = {'std::option::Option::is_some', 'std::result::Result::is_ok'}
    OKVAL = {'std::option::Option::unwrap', 'std::option::Option::expect', 'std::result::Result::unwrap', 'std::result::Result::expect',
             'std::option::Option::unwrap_unchecked', 'std::result::Result::unwrap_unchecked'}
    for b in F.fn_bodies():
        if not (b.d.get('impl_trait') or '').endswith('fallible::Fallible'):
            continue
        m = b.d.get('method')
        if m not in ('has_value', 'value'):
            continue
        n += 1
        r = ctx.run(b.name)
        key = 'C05-FALLIBLE/%s' % key_of(b)
        ret = r.ret
        base = ret[2][0] if ret is not None and ret[0] == 'call' and ret[2] else None
        while base is not None and base[0] in ('ref', 'mut'):
            base = base[1]
        if m == 'has_value' and ret is not None:
            # `!self.is_none()`, `self.is_none() == false` ..: the boolean normal form
            from .rules_flow import norm_bool
            kind, inner = norm_bool(ret)
            if kind in ('is_some', 'is_none') and inner is not None:
                bi = inner
                while bi is not None and bi[0] in ('ref', 'mut'):
                    bi = bi[1]
                if kind == 'is_some' and bi == P('self'):
                    ret = ('call', 'std::option::Option::is_some', (P('self'),))
                    base = P('self')
        ok = ret is not None and ret[0] == 'call' and tcallee(ret) in (OKTEST if m == 'has_value' else OKVAL) and base == P('self')
        if not ok and m == 'has_value':
            # a hand-written discriminant test (`matches!(self, Some(_))`, `match self { Ok(_) => true, Err(_) => false }`): decided by
            # re-executing the body with the variant of `self` fixed - true for the payload-carrying variant, false for the other
            ty = b.locals[1]['ty'] if 1 in b.locals else ''
            payload_variant = 1 if 'Option<' in ty else (0 if 'Result<' in ty else None)
            if payload_variant is not None:
                got = {}
                for v in (0, 1):
                    seeds_ = {'discr': {t_str(P('self')): v, t_str(('deref', P('self'))): v}, 'key': ('C05-FALLIBLE', b.name, v)}
                    rv = ctx.opa.run(b.name, seeds=seeds_).ret
                    got[v] = rv[1] if rv is not None and rv[0] == 'const' else None
                if got.get(payload_variant) in (1, True) and got.get(1 - payload_variant) in (0, False) and got.get(1 - payload_variant) is not None:
                    ok = True
        out.inst(key, ok, t_str(ret)[:100], sample={'impl': key_of(b), 'returns': t_str(ret)[:120]})
        if not ok:
            out.fail(key, '%s returns %s: %s' % (key_of(b), t_str(ret)[:100], 'has_value must be is_some / is_ok of self' if m == 'has_value' else 'value must be the unwrap of self'), b.where())
    out.floor('fallible_methods', n, 2 if not ctx.fixture else 0)
    return out


# ======================================================================================= C01-NOSHUFFLE / C01-KEEP
SHUFFLE_ITER = {'rev', 'skip', 'take', 'step_by', 'take_while', 'skip_while', 'map_while', 'cycle', 'chain', 'zip', 'last', 'nth', 'scan', 'dedup', 'peekable'}


@rule('C01-NOSHUFFLE', 'the API layer (sources, transformations, terminals, collect_into impls) passes collections and results through untouched: no reordering, truncating, skipping or deduplicating std operation')
def c01_noshuffle(ctx):
    """The kernels produce the elements in the right order and number (C01-KEY, C01-MERGE, C05-*).  Between the user and the kernels
    the library only wires things together: a source is wrapped whole (C05-SOURCE), a terminal returns what its kernel returns, an
    eager transformation feeds the intermediate vector on as it is.  None of these bodies has any business calling `rev`, `skip`,
    `take`, `step_by`, `*_while`, `chain`, `zip` ... on an iterator or `reverse`, `sort*`, `truncate`, `retain`, `dedup`, `swap`,
    `drain`, `remove`, `insert` ... on a collection."""
    out = RuleOut('C01-NOSHUFFLE')
    F = ctx.facts
    S = ctx.slots
    hosts = set(S.sources) | set(S.transformations) | set(S.terminals) | set(S.inherent_terminals) | set(getattr(S, 'inherent_transformations', ()) or ()) \
        | set(getattr(S, 'inherent_helpers', ()) or ())
    for b in F.bodies.values():
        if b.d.get('impl_trait') == COLLECT_INTO_CORE:
            hosts.add(b.name)
    n = 0
    trs_ = set(S.transformations) | set(getattr(S, 'inherent_transformations', ()) or ())
    for hn in sorted(hosts):
        hb = F.bodies.get(hn)
        if hb is None:
            continue
        for b in [hb] + F.closures_in(hb, recursive=True):
            n += 1
            bad = []
            for bb, t in b.calls():
                if t.get('exp') or t.get('local'):
                    continue
                d_ = decl(t)
                m = method(t)
                p = res(t)
                if d_.startswith(ITER) and m in SHUFFLE_ITER:
                    bad.append((t, 'Iterator::' + m))
                elif m in BUF_DISTURB and m not in ('take', 'insert') and p.startswith(('std::vec::', 'std::slice::', 'alloc::', 'core::slice::', 'std::collections::')):
                    bad.append((t, p.split('::')[-2] + '::' + m if '::' in p else m))
                elif m == 'insert' and p.startswith(('std::vec::', 'alloc::vec::')):
                    bad.append((t, 'Vec::insert'))
            if hn in trs_:
                # a transformation that materialises its input must do so in order: the positions in the intermediate vector are what the
                # following stages take for the input order
                for bb, t in b.calls():
                    if method(t) == 'collect_x' and not decl(t).startswith(ITER):
                        bad.append((t, 'Par::collect_x'))
            key = 'C01-NOSHUFFLE/' + key_of(b)
            out.inst(key, not bad, '%d calls' % len(list(b.calls())), nontrivial=False)
            for (t, what) in bad[:2]:
                out.fail(key + '/' + what.split('::')[-1], '%s calls `%s`: the API layer must hand collections and results on as they are - the order or number of elements a kernel produced (or will consume) changes here%s' % (key_of(b), what, ' (collect_x returns the elements in an order that depends on the schedule)' if what == 'Par::collect_x' else ''), b.where(t.get('line')))
    out.floor('api_bodies', n, 60 if not ctx.fixture else 0)
    return out


TERMINAL_METHODS = {'collect_vec', 'collect', 'collect_x', 'collect_into', 'count', 'reduce', 'fold', 'sum', 'min', 'max', 'min_by', 'max_by', 'min_by_key', 'max_by_key',
                    'find', 'first', 'any', 'all', 'for_each', 'find_with_index', 'first_with_index'}


@rule('C01-KEEP', 'no stage closure is lost on the way: a transformation\'s result holds its own closure and every closure of self; a terminal hands all of them to its kernel')
def c01_keep(ctx):
    """C01-COMPOSE judges how a composed closure uses the closures it captures - it cannot see one that is no longer captured.
    For every transformation and terminal: each stage closure in reach (the method's own Fn-bounded parameter, every Fn-typed
    field of `self`) must be part of the value the method returns (transformations) or of the arguments of a call it makes
    (terminals: the kernel / the delegate terminal) - on every alternative of the result."""
    from .rules_struct import user_closure_values
    out = RuleOut('C01-KEEP')
    F = ctx.facts
    S = ctx.slots
    n = 0

    def closure_fields(b):
        """terms self.<i> whose field type is an Fn-bounded type parameter of the impl"""
        outl = []
        st = b.d.get('impl_self') or ''
        if not st.startswith('adt:'):
            return outl
        adt = F.adts.get(st[4:])
        if not adt or len(adt.get('variants', [])) != 1:
            return outl
        fbs = b.fn_bounds()
        for i, f in enumerate(adt['variants'][0]['fields']):
            if f.get('ty') in fbs:
                outl.append((('field', P('self'), None, i), f.get('name') or str(i), f.get('ty')))
        return outl

    def mentions(t, c):
        """c occurs in t; for a field of self also: self occurs as a whole (moved into a delegate / constructor) - a projection
        `self.<j>` of another field does not count"""
        st, seen_ = [t], set()
        while st:
            x = st.pop()
            if x is None or x in seen_:
                continue
            seen_.add(x)
            if x == c:
                return True
            if x[0] == 'field' and x[1] == P('self'):
                continue
            if c[0] == 'field' and x == P('self'):
                return True
            st.extend(children(x))
        return False

    trs = set(S.transformations) | set(getattr(S, 'inherent_transformations', ()) or ())
    for tn in sorted(trs | set(S.terminals) | set(S.inherent_terminals) | set(getattr(S, 'inherent_helpers', ()) or ())):
        b = F.bodies.get(tn)
        if b is None or not any((b.local_name(l) or '') == 'self' for l in b.arg_locals()):
            continue
        fbs = b.fn_bounds()
        own = [(P(b.local_name(l)), b.local_name(l), local_type_param(b, l)) for l in b.arg_locals() if local_type_param(b, l) in fbs and (b.local_name(l) or '') != 'self']
        stages = own + closure_fields(b)
        if not stages:
            continue
        r = ctx.run(tn)
        is_tr = tn in trs
        n += 1
        key = 'C01-KEEP/' + key_of(b)
        lost = []
        for (c, nm, tp) in stages:
            if is_tr:
                ok = r.ret is not None and all(mentions(alt, c) for alt in alternatives(r.ret))
                if not ok:
                    # an eager transformation consumes self in a terminal call and stores only the new closure
                    term_calls = [cc for _, cc in r.call_sites() if cc['t'].get('method') in TERMINAL_METHODS or (cc['t'].get('resolved') or '') in S.terminals
                                  or (cc['t'].get('resolved') or '') in S.inherent_terminals]
                    ok = c[0] == 'field' and any(mentions(a, c) for cc in term_calls for a in cc['args'] if a is not None)
            elif r.ret is not None and all(mentions(alt, c) for alt in alternatives(r.ret)):
                ok = True       # a private helper that returns the pieces of the new computation (`compose`)
            else:
                helpers = set(getattr(S, 'inherent_helpers', ()) or ())
                real_calls = [cc for _, cc in r.call_sites() if (cc['t'].get('resolved') or '') not in helpers and method(cc['t']) not in ('destruct', 'destruct_x', 'params')]
                ok = any(mentions(a, c) for cc in real_calls for a in cc['args'] if a is not None)
            if not ok:
                lost.append(nm)
        out.inst(key, not lost, '%d stage closure(s) kept' % len(stages), sample={'method': key_of(b), 'stage_closures': [nm for (_, nm, _) in stages]})
        for nm in lost[:2]:
            out.fail(key + '/' + nm, '%s does not pass the stage closure `%s` on: it is neither part of the returned computation nor of any call - the stage silently disappears from the pipeline' % (key_of(b), nm), b.where())
    out.floor('methods_with_stage_closures', n, 30 if not ctx.fixture else 0)
    return out


@rule('C02-EAGERIDX', 'a transformation that materialises its input does not return a type whose *_with_index terminals report positions')
def c02_eageridx(ctx):
    """`find_with_index` / `first_with_index` report the position the kernel numbers elements by: the position in the source the
    computation was *built on*.  A transformation that collects its input into an intermediate vector and restarts the pipeline
    from it (the eager sites of D4) changes that source; if its return type is a concrete `Par` type with inherent *_with_index
    methods, the index a user gets is a position in the intermediate vector, not in the original source."""
    out = RuleOut('C02-EAGERIDX')
    F = ctx.facts
    S = ctx.slots
    idx_types = {}
    for tn in S.inherent_terminals:
        b = F.bodies[tn]
        if 'with_index' in (b.d.get('method') or key_of(b)):
            head = key_of(b).rsplit('::', 1)[0]
            idx_types.setdefault(head, []).append(key_of(b).rsplit('::', 1)[1])
    n = 0
    for tn in sorted(set(S.transformations) | set(getattr(S, 'inherent_transformations', ()) or ())):
        b = F.bodies[tn]
        n += 1
        mat = [t for _, t in b.calls() if method(t) in ('collect_vec', 'collect', 'collect_x', 'collect_into') and not decl(t).startswith(ITER)]
        if not mat:
            continue
        rty = b.d.get('ret_ty') or ''
        head = strip_generics(rty.split('<', 1)[0]) if rty else ''
        hit = [h for h in idx_types if head == h or head.endswith('::' + h.split('::')[-1]) and h.split('::')[-1] == head.split('::')[-1]]
        key = 'C02-EAGERIDX/%s' % key_of(b)
        out.inst(key, not hit, 'materialises through %s; returns %s' % (method(mat[0]), rty[:60]), sample={'transformation': key_of(b), 'returns': rty[:120]})
        if hit:
            out.fail(key, '%s collects its input into an intermediate vector and returns %s, whose %s report positions in that vector: after this transformation a reported index is no longer the element\'s position in the original source'
                     % (key_of(b), rty[:70], ' / '.join(sorted(idx_types[hit[0]]))), b.where(mat[0].get('line')))
    out.floor('transformations', n, 20 if not ctx.fixture else 0)
    return out


# ======================================================================================= C03-THREAD / C04-THREAD / C04-CHAIN
def from_current_pull(ctx, t):
    """does the term derive from an element / chunk delivered by a pull (or from the whole-source stream)"""
    return bool(pull_ids(t))


def acc_tasks(ctx, want_usize):
    outl = []
    for (b, bb, c, ridx, tasks) in runner_reduce_sites(ctx):
        for tn in tasks:
            tb = ctx.facts.bodies[tn]
            if (tb.d.get('ret_ty') == 'usize') == want_usize and tn not in early_exit_tasks(ctx):
                outl.append(tb)
    return outl


def check_accumulators(ctx, out, rid, tb, combine_ok, whole_terminal, init_ok):
    """generic accumulator-threading check on the no-inlining terms of a task"""
    I = items(ctx)
    r = ctx.run0(tb.name)
    key = '%s/%s' % (rid, key_of(tb))
    n = 0
    ucp = user_closure_params(tb)

    def phi_ok(phi, seen):
        nonlocal n
        k = (phi[1], phi[2])
        if k in seen:
            return []
        seen.add(k)
        probs = []
        init = I.normalize(r.init.get(k))
        if init is not None and init[0] == 'phi':
            probs += phi_ok(init, seen)
        elif not init_ok(init):
            probs.append('accumulator starts as %s' % t_str(init)[:100])
        for rec in r.recur.get(k, ()):
            for alt in alternatives(I.normalize(rec)):
                n += 1
                if alt == phi:
                    continue
                if alt[0] == 'phi':
                    probs += phi_ok(alt, seen)      # value carried out of an inner loop
                    continue
                why = combine_ok(alt, phi)
                if why:
                    probs.append(why)
        return probs

    allp = []
    for alt in alternatives(I.normalize(r.ret)):
        x = alt
        while x[0] == 'variant' and x[4] == 'Some':
            x = x[3][0]
        if x[0] == 'phi':
            allp += phi_ok(x, set())
        elif x[0] == 'variant' and x[4] == 'None':
            continue
        elif x[0] == 'const':
            continue
        else:
            n += 1
            why = whole_terminal(x)
            if why:
                allp.append(why)
    out.inst(key, not allp, '%d accumulator updates / whole-source terminals' % n, sample={'task': key_of(tb), 'ret': t_str(I.normalize(r.ret))[:200],
             'recurrences': {('bb%d,_%d' % k): [t_str(I.normalize(x))[:200] for x in v] for k, v in r.recur.items()}})
    for p in allp:
        out.fail(key, '%s: %s' % (key_of(tb), p), tb.where())
    return n


def binary_closure_param(tb):
    red = [P(tb.local_name(l)) for l in tb.arg_locals() if local_type_param(tb, l) in user_closure_params(tb) and len(tb.fn_bounds()[local_type_param(tb, l)]['by_ref']) == 2]
    return red[0] if red else None


def check_reduce_body(ctx, out, tb, depth=0):
    """accumulator threading of one reduce task / helper; recurses into crate helpers that do part of the work"""
    I = items(ctx)
    I0 = items0(ctx)
    R = binary_closure_param(tb)

    def chain_reduce_ok(x):
        if x[0] == 'call' and is_iter_method(x, ('fold',)) and len(x[2]) == 3:
            # fold(stream of pulls, init, |acc, chunk| combine(acc, reduce-of-chunk))
            names, root = I.spine(x[2][0])
            if [y for y in names if y not in ITER_ELEMENT_FAITHFUL] or not source_stream_root(I, root):
                return 'the fold is not over the stream of pulled chunks'
            if not init_ok(I.normalize(x[2][1])):
                return 'the fold starts from %s' % t_str(x[2][1])[:60]
            ACC = P('$acc')
            got = I0.apply(x[2][2], [ACC, I.elem(x[2][0])])
            for alt in alternatives(got):
                if alt == ACC:
                    continue
                why = combine_ok(alt, ACC)
                if why:
                    return why
            return None
        if x[0] == 'call' and x[1] in ctx.facts.bodies and depth < 3:
            cal = ctx.facts.bodies[x[1]]
            if not ctx.cfg(cal).loops() and not cal.is_closure():
                # a loop-free helper (`reduce_mapped(values, map, filter, reduce)`): judge what it returns for these arguments
                y = I.apply(('fn', x[1]), list(x[2]))
                if y is not None and not is_top(y) and y != x and not (y[0] == 'call' and y[1] == x[1]):
                    for alt in alternatives(y):
                        why = chain_reduce_ok(alt)
                        if why:
                            return why
                    return None
            Rc = binary_closure_param(cal)
            idx = [i for i, l in enumerate(cal.arg_locals()) if P(cal.local_name(l)) == Rc]
            if Rc is None or not idx or idx[0] >= len(x[2]) or x[2][idx[0]] != R:
                return 'the helper %s is not handed the user\'s reduce operator' % key_of(cal)
            check_reduce_body(ctx, out, cal, depth + 1)
            return None
        if not (x[0] == 'call' and is_iter_method(x, ('reduce',))):
            return 'per-pull value %s is not an Iterator::reduce over the pulled elements' % t_str(x)[:100]
        if x[2][1] != R:
            return 'elements are combined with %s, not with the user\'s reduce operator' % t_str(x[2][1])[:80]
        names, root = I.spine(x[2][0])
        bad = [y for y in names if y not in ITER_ELEMENT_FAITHFUL]
        if bad:
            return 'the chunk is reduced through `%s`, which can drop or reorder elements' % bad[0]
        if not (is_stream_root(root) or pull_ids(root)):
            # a reduction over the *stream of pulled chunks* whose items are the per-chunk reductions
            # (`chunks.filter_map(|chunk| chunk.map(..).filter(..).reduce(reduce)).reduce(reduce)`)
            if source_stream_root(I, root) and inner_depth[0] < 2:
                inner_depth[0] += 1
                try:
                    e = I.elem(x[2][0])
                    if e is None or is_top(e):
                        return 'the per-chunk value of the reduced stream is unknown'
                    for alt in alternatives(e):
                        why = chain_reduce_ok(alt if not (alt[0] == 'field' and alt[2] == 1) else alt[1])
                        if why:
                            return why
                    return None
                finally:
                    inner_depth[0] -= 1
            return 'the reduced chain is not rooted at the pulled elements'
        return None

    inner_depth = [0]

    def combine_ok(alt, phi):
        if alt[0] == 'call' and tcallee(alt).endswith('utils::maybe_reduce') and len(alt[2]) == 3:
            op, a, b_ = alt[2]
            if op != R:
                return 'partial results are combined with %s, not the user\'s reduce operator' % t_str(op)[:80]
            other = b_ if a == phi else (a if b_ == phi else None)
            if other is None:
                return 'the accumulator update %s does not take the previous accumulator as an operand: earlier chunks are forgotten' % t_str(alt)[:140]
            return chain_reduce_ok(other)
        if alt[0] == 'call' and tcallee(alt) == 'std::ops::Fn::call' and alt[2][0] == R and alt[2][1][0] == 'tuple' and len(alt[2][1][1]) == 2:
            a, b_ = alt[2][1][1]
            other = b_ if a == phi else (a if b_ == phi else None)
            if other is None:
                return 'the accumulator update %s does not take the previous accumulator as an operand' % t_str(alt)[:140]
            if not from_current_pull(ctx, other):
                return 'the value folded into the accumulator (%s) does not come from the current pull' % t_str(other)[:100]
            return None
        return 'unrecognised accumulator update %s' % t_str(alt)[:140]

    def init_ok(init):
        return init is not None and (init == none() or from_current_pull(ctx, init))

    return check_accumulators(ctx, out, 'C03-THREAD', tb, combine_ok, chain_reduce_ok, init_ok)


def check_reduce_seed(ctx, out, tb):
    """The element that *seeds* an accumulator (`let mut acc = first; for x in rest { acc = reduce(acc, x) }`) must itself have passed
    every user test of the kernel.  For each returned loop-carried accumulator whose initial value derives from a pull, the task is
    re-executed with one test rejecting everything: if the loop is still reached with a pulled seed, the seed must have been drawn
    from a chain that applies that very test (decided by chain_emits_iff_accepted)."""
    F = ctx.facts
    I = items(ctx)
    r = ctx.run(tb.name)
    fbs = tb.fn_bounds()
    required = set()
    if any(fbs.get(local_type_param(tb, l), {}).get('output') == 'bool' for l in tb.arg_locals()):
        required.add('filter')
    bodies = [tb] + F.closures_in(tb, recursive=True)
    if any(decl(t).endswith('Fallible::has_value') or 'Fallible' in (t.get('callee_full') or '') and method(t) == 'has_value' for bd in bodies for _, t in bd.calls()):
        required.add('value')
    phis = set()
    for alt in alternatives(r.ret):
        for x in subterms(alt):
            if x[0] == 'phi':
                phis.add((x[1], x[2]))
    for _ in range(3):
        for k in list(phis):
            for t_ in list(r.recur.get(k, ())) + [r.init.get(k)]:
                if t_ is not None:
                    phis |= {(x[1], x[2]) for x in subterms(t_) if x[0] == 'phi'}
    for k in sorted(phis):
        init = r.init.get(k)
        if init is None or init == none() or const_int(init) or init[0] == 'phi' or not from_current_pull(ctx, I.normalize(init)):
            continue
        key = 'C05-SEED/%s' % key_of(tb)
        probs = []
        for test in sorted(required):
            ft, hv = (test != 'filter'), (test != 'value')
            rr = ctx.opa.run(tb.name, seeds=_feed_seeds(tb, tb.name, ft, hv))
            i2 = rr.init.get(k)
            if i2 is None:
                # under this answer the accumulator may never change, so it is no loop phi in this run: its value at the loop head
                i2 = rr.state.get(k[0], {}).get(k[1])
            if k[0] in rr.visited and i2 is not None and i2 != none() and from_current_pull(ctx, I.normalize(i2)):
                # drawn from a chain that applies the test?
                chain = None
                for x in subterms(i2):
                    if x[0] == 'call' and (is_next_call(x) or is_iter_method(x, ('find', 'find_map', 'reduce', 'last', 'nth'))) and x[2]:
                        chain = x[2][0]
                        break
                okc = False
                if chain is not None:
                    sem, why = chain_emits_iff_accepted(ctx, tb, chain)
                    okc = sem is True and test in getattr(chain_emits_iff_accepted, 'last_used', set())
                if not okc:
                    probs.append('the accumulator is seeded with %s although %s rejects every element: the seed never passed that test, so a rejected element contributes to the result and the test is not evaluated on it'
                                 % (t_str(i2)[:90], 'the user filter' if test == 'filter' else 'has_value'))
        out.inst(key, not probs, 'seed %s; tests %s' % (t_str(init)[:60], sorted(required)), sample={'task': key_of(tb), 'seed': t_str(init)[:160], 'tests': sorted(required)})
        for p_ in probs[:1]:
            out.fail(key, '%s: %s' % (key_of(tb), p_), tb.where())


@rule('C05-SEED', 'the element that seeds an accumulator has passed every user test of the kernel')
def c05_seed(ctx):
    out = RuleOut('C05-SEED')
    tasks = acc_tasks(ctx, False)
    for tb in tasks:
        check_reduce_seed(ctx, out, tb)
    out.floor('reduce_tasks', len(tasks), 1 if not ctx.fixture else 0)
    return out


@rule('C03-THREAD', 'reduce tasks thread their accumulator: every update combines the previous value with the current pull\'s reduction')
def c03_thread(ctx):
    out = RuleOut('C03-THREAD')
    total = 0
    tasks = acc_tasks(ctx, False)
    for tb in tasks:
        total += check_reduce_body(ctx, out, tb)
    out.floor('reduce_tasks', len(tasks), 3 if not ctx.fixture else 0)
    out.floor('updates', total, 3 if not ctx.fixture else 0)
    return out


def local_type_param_of(b, pterm):
    for l in b.arg_locals():
        if (b.local_name(l) or '_%d' % l) == pterm[1]:
            return local_type_param(b, l)
    return None


def some_only_if_accepted(ctx, name, depth=0):
    """does the Option-valued body `name` (a closure or helper) return Some only on paths on which a user filter (a
    bool-valued user closure) accepted - directly, or by returning the value of a helper with that property"""
    F = ctx.facts
    b = F.bodies.get(name)
    if b is None or depth > 3:
        return False
    root = F.root_of(b)
    fbs = root.fn_bounds()
    cfg = ctx.cfg(b)
    r = ctx.run0(name)
    accept = []
    for bb, c in r.call_sites():
        t = c['t']
        u = is_user_closure_call(t, b) or is_user_closure_call(t, root)
        if t.get('callee') in ('std::ops::Fn::call', 'std::ops::FnMut::call_mut', 'std::ops::FnOnce::call_once') and b.locals[t['dest']['l']]['ty'] == 'bool':
            sw = switch_of_call(ctx, b, bb)
            if sw and sw[1] != sw[2]:
                accept.append((sw[0], sw[1]))
    per_path = ctx.path_returns(name)
    if per_path is not None:
        edges = [(pth[-2] if len(pth) > 1 else pth[-1], term, pth) for (term, pc, pth) in per_path]
    else:
        edges = [(pred, term, None) for (pred, rb), (term, pc) in r.ret_edges.items()] or [(rb, term, None) for (rb, term, pc) in r.returns]
    if not edges:
        return False
    for pred, term, pth in edges:
        for alt in alternatives(term):
            if alt[0] == 'variant' and alt[1] == 'std::option::Option' and alt[2] == 0:
                continue
            if alt[0] == 'call' and alt[1] in F.bodies and some_only_if_accepted(ctx, alt[1], depth + 1):
                continue
            if alt[0] == 'variant' and alt[1] == 'std::option::Option' and alt[2] == 1:
                if pth is not None and any(a in pth and pth.index(a) + 1 < len(pth) and pth[pth.index(a) + 1] == t_ for (a, t_) in accept):
                    continue
                if pth is None and any(cfg.edge_dominates(a, t_, pred) for (a, t_) in accept):
                    continue
            return False
    return True


def _loop_is_pull_driven(ctx, b, r, header):
    """the loop is left on the None edge of an Option-valued call made inside it (`while let Some(x) = pull` / `for x in chain`)"""
    cfg = ctx.cfg(b)
    blocks = set(cfg.loops().get(header, ())) | {header}
    for sbb, (d, tg) in r.switches.items():
        if sbb in blocks and d[0] == 'discr' and d[1][0] == 'call' and any(bb in blocks and c['res'] == d[1] for bb, c in r.call_sites()):
            try:
                none_t = r.switch_target(sbb, 0)
            except Exception:
                continue
            if none_t not in blocks or header not in cfg.reach(none_t):
                return True
    return False


def chain_emits_iff_accepted(ctx, b, chain):
    """Does the iterator chain (a term in body b) hand on exactly one item per element of its root for which the user filter accepts
    (and the fallible stage has a value), and none otherwise?  Decided per case by pushing one symbolic element through the
    adaptors with the user predicate / has_value fixed.  Returns (True/False/None = cannot tell, explanation)."""
    I = items(ctx)
    F = ctx.facts
    root_body = F.root_of(b) if b.is_closure() else b
    names = []
    cur = I.normalize(chain)
    steps = []
    guard = 0
    while cur is not None and cur[0] == 'call' and guard < 40 and (is_iter_method(cur) or is_into_iter(cur)):
        guard += 1
        m = tcallee(cur)[len(ITER):] if is_iter_method(cur) else 'into_iter'
        steps.append((m, cur[2][1] if len(cur[2]) > 1 else None))
        cur = cur[2][0] if cur[2] else None
        while cur is not None and cur[0] == 'mut':
            cur = cur[1]
    steps.reverse()
    used_total = set()

    def run_case(ft, hv):
        used = set()

        def atoms(d):
            if _user_pred_truth(root_body, d):
                used.add('filter')
                return ft
            if _is_value_test(d):
                used.add('value')
                return hv
            return None
        sd = {'atoms': atoms, 'key': ('chain-case', ft, hv, id(used))}

        def call(f, args):
            if f is None:
                return None
            g = f
            while g[0] in ('ref', 'mut'):
                g = g[1]
            if g[0] == 'param':
                t_ = ('call', 'std::ops::Fn::call', (g, ('tuple', tuple(args))))
                if _user_pred_truth(root_body, t_):
                    used.add('filter')
                    return ('const', int(ft))
                return t_
            if g[0] == 'closure' and g[1] in F.bodies:
                return ctx.opa.run(g[1], [g] + list(args), seeds=sd).ret
            if g[0] == 'fn':
                nm = sg(g[1])
                if nm.endswith('Fallible::has_value'):
                    used.add('value')
                    return ('const', int(hv))
                if nm.endswith('Fallible::value'):
                    return ('call', g[1], tuple(args))
                if g[1] in F.bodies:
                    return ctx.opa.run(g[1], list(args), seeds=sd).ret
            return None

        def truth(v):
            if v is None:
                return None
            if const_int(v):
                return bool(v[1])
            if _user_pred_truth(root_body, v):
                used.add('filter')
                return ft
            if _is_value_test(v):
                used.add('value')
                return hv
            return None
        elem = ('param', '$element')
        emit = True
        for (m, f) in steps:
            if m in ('into_iter', 'iter', 'enumerate', 'inspect', 'by_ref', 'peekable', 'fuse', 'cloned', 'copied'):
                continue
            if m == 'map':
                v = call(f, [elem])
                elem = v if v is not None else ('param', '$mapped')
            elif m == 'filter':
                tv = truth(call(f, [elem]))
                if tv is None:
                    return None, used
                emit = emit and tv
            elif m == 'filter_map':
                v = call(f, [elem])
                st = _opt_state(v)
                if st is None:
                    return None, used
                if st == 'none':
                    emit = False
                else:
                    pay = I.payload(v) if v is not None else None
                    elem = pay if pay is not None else ('param', '$mapped')
            elif m in ('flat_map', 'flatten'):
                elem = ('param', '$inner')
            else:
                return None, used
            if not emit:
                break
        return emit, used

    res_all, used = run_case(True, True)
    used_total |= used
    if res_all is not True:
        return (False if res_all is False else None), 'with the user tests passing the element is %s' % ('dropped' if res_all is False else 'of unknown fate')
    # which tests does the chain consult at all?
    for (ft, hv) in ((False, True), (True, False)):
        _, u = run_case(ft, hv)
        used_total |= u
    if 'filter' in used_total:
        rr, _ = run_case(False, True)
        if rr is not False:
            return (False if rr is True else None), 'an element the user filter rejects is %s' % ('still handed on' if rr is True else 'of unknown fate')
    if 'value' in used_total:
        rr, _ = run_case(True, False)
        if rr is not False:
            return (False if rr is True else None), 'an element without a value is %s' % ('still handed on' if rr is True else 'of unknown fate')
    chain_emits_iff_accepted.last_used = set(used_total)
    if not used_total:
        return None, 'the chain consults no user test'
    return True, 'one item per accepted element (tests: %s)' % ', '.join(sorted(used_total))


def check_count_body(ctx, out, tb, depth=0):
    I = items(ctx)
    I0 = items0(ctx)

    def chain_count_ok(x):
        if x[0] == 'call' and is_iter_method(x, ('sum',)):
            # sum of per-pull counts over the stream of pulled chunks
            names, root = I.spine(x[2][0])
            if [y for y in names if y not in ITER_ELEMENT_FAITHFUL] or not source_stream_root(I, root):
                return 'the sum is not over the stream of pulled chunks'
            e = I.elem(x[2][0])
            for alt in alternatives(e):
                why = chain_count_ok(alt)
                if why:
                    return why
            return None
        if x[0] == 'call' and is_iter_method(x, ('fold',)) and len(x[2]) == 3:
            names, root = I.spine(x[2][0])
            if [y for y in names if y not in ITER_ELEMENT_FAITHFUL] or not source_stream_root(I, root):
                return 'the fold is not over the stream of pulled chunks'
            if I.normalize(x[2][1]) != ('const', 0):
                return 'the fold starts from %s' % t_str(x[2][1])[:60]
            ACC = P('$acc')
            got = I0.apply(x[2][2], [ACC, I.elem(x[2][0])])
            for alt in alternatives(got):
                if alt == ACC:
                    continue
                why = combine_ok(alt, ACC)
                if why:
                    return why
            return None
        if x[0] == 'call' and x[1] in ctx.facts.bodies and depth < 3 and ctx.facts.bodies[x[1]].d.get('ret_ty') == 'usize':
            hb = ctx.facts.bodies[x[1]]
            if not ctx.cfg(hb).loops() and not hb.is_closure():
                # a loop-free helper (`count_accepted(values, map, filter)`): judge what it returns for these arguments
                y = I.apply(('fn', x[1]), list(x[2]))
                if y is not None and not is_top(y) and y != x:
                    for alt in alternatives(y):
                        why = chain_count_ok(alt)
                        if why:
                            return why
                    return None
            check_count_body(ctx, out, hb, depth + 1)
            return None
        if x[0] == 'bin' and x[1] == 'Add' and ('const', 1) in (x[2], x[3]):
            # 1 + count(rest): the 1 must be on a survivor edge (checked below on the MIR statement that adds it)
            return chain_count_ok(x[3] if x[2] == ('const', 1) else x[2])
        if not (x[0] == 'call' and is_iter_method(x, ('count',))):
            return 'per-pull value %s is not an Iterator::count over the pulled elements' % t_str(x)[:100]
        names, root = I.spine(x[2][0])
        bad = [y for y in names if y not in ITER_ELEMENT_FAITHFUL]
        if bad:
            return 'the chunk is counted through `%s`, which can drop elements' % bad[0]
        if not (is_stream_root(root) or pull_ids(root)):
            return 'the counted chain is not rooted at the pulled elements'
        return None

    def combine_ok(alt, phi):
        if alt[0] == 'bin' and alt[1] == 'Add':
            other = alt[3] if alt[2] == phi else (alt[2] if alt[3] == phi else None)
            if other is None:
                return 'the counter update %s does not add to the previous count' % t_str(alt)[:140]
            if other == ('const', 1):
                return None
            return chain_count_ok(other)
        return 'unrecognised counter update %s' % t_str(alt)[:140]

    def init_ok(init):
        return init in (('const', 0), ('const', 1))

    total = check_accumulators(ctx, out, 'C04-THREAD', tb, combine_ok, chain_count_ok, init_ok)
    # `+= 1` / initial 1 only on a survivor edge: the counting block is reached from the true edge of the user filter (or from
    # the Some edge of a helper that returns Some only for survivors) without stepping to another element in between
    r = ctx.run(tb.name)
    cfg = ctx.cfg(tb)
    fbs = tb.fn_bounds()
    accept_edges = []
    for bb, c in r.call_sites():
        u = is_user_closure_call(c['t'], tb)
        if u and fbs.get(u, {}).get('output') == 'bool':
            sw = switch_of_call(ctx, tb, bb)
            if sw and sw[1] != sw[2]:
                accept_edges.append((sw[0], sw[1]))
    for sbb, (d, tg) in r.switches.items():
        if d[0] == 'discr' and d[1][0] == 'call' and d[1][1] in ctx.facts.bodies:
            sm = helper_pull_summary(ctx, d[1][1])
            if sm and sm['survivors']:
                accept_edges.append((sbb, r.switch_target(sbb, 1)))
    # the Some edge of `stream.find_map(f)` when f yields Some only for elements the user filter accepted
    for sbb, (d, tg) in r.switches.items():
        if d[0] == 'discr' and d[1][0] == 'call' and is_iter_method(d[1], ('find_map',)) and len(d[1][2]) == 2:
            f = d[1][2][1]
            if f[0] == 'closure' and some_only_if_accepted(ctx, f[1]):
                accept_edges.append((sbb, r.switch_target(sbb, 1)))
    # `for x in stream.filter(f)` / `.filter_map(accept)`: the Some edge of the loop's next() is a survivor edge
    for sbb, (d, tg) in r.switches.items():
        if d[0] == 'discr' and d[1][0] == 'call' and is_next_call(d[1]) and d[1][2]:
            ch = I.normalize(d[1][2][0])
            while ch[0] == 'call' and term_method(ch) in ('into_iter', 'by_ref') and ch[2]:
                ch = ch[2][0]
            if ch[0] == 'call' and is_iter_method(ch, ('filter_map',)) and len(ch[2]) == 2 and ch[2][1][0] == 'closure' and some_only_if_accepted(ctx, ch[2][1][1]):
                accept_edges.append((sbb, r.switch_target(sbb, 1)))
            elif ch[0] == 'call' and is_iter_method(ch, ('filter',)) and len(ch[2]) == 2 and ch[2][1][0] == 'param' and \
                    fbs.get(local_type_param_of(tb, ch[2][1]), {}).get('output') == 'bool':
                accept_edges.append((sbb, r.switch_target(sbb, 1)))
    steps = {x for x, t in tb.calls() if is_step_call(t) or (t.get('local') and helper_pull_summary(ctx, callee_of(t)))}
    for bb, blk in tb.blocks.items():
        for st in blk['stmts']:
            rv = st['rv']
            one_inc = rv['r'] == 'bin' and rv['op'].startswith('Add') and ((rv['b'].get('k') == 'int' and rv['b'].get('v') == '1') or
                                                                          (rv['a'].get('k') == 'int' and rv['a'].get('v') == '1'))
            one_init = rv['r'] == 'use' and rv['o'].get('k') == 'int' and rv['o'].get('v') == '1' and tb.locals[st['lhs']['l']]['ty'] == 'usize' and tb.locals[st['lhs']['l']].get('name')
            if one_inc and bb in r.visited and cfg.innermost_loop(bb) is not None and _loop_is_pull_driven(ctx, tb, r, cfg.innermost_loop(bb)):
                # an increment inside a loop driven by an Option-valued pull: C05-FEED decides, by re-executing the loop body with the
                # user tests fixed, that it happens exactly for accepted elements (whatever shape the acceptance test has)
                out.inst('C04-THREAD/%s/survivor-inc' % key_of(tb), True, 'in-loop increment: acceptance decided by C05-FEED', nontrivial=False)
                continue
            if (one_inc or one_init) and bb in r.visited:
                # same element: no step to another element between the acceptance and the increment - or neither of them is inside a
                # loop, so each executes at most once (`Some(first) => 1 + count(rest)`)
                ok = any(cfg.edge_dominates(a, t_, bb) and (bb in cfg.reach(t_, avoid=steps - {bb}) or
                                                            (cfg.innermost_loop(bb) is None and cfg.innermost_loop(a) is None)) for (a, t_) in accept_edges)
                out.inst('C04-THREAD/%s/survivor-%s' % (key_of(tb), 'inc' if one_inc else 'init'), ok, 'counting 1 on the survivor edge')
                if not ok:
                    out.fail('C04-THREAD/%s/survivor' % key_of(tb), '%s counts 1 on a path that is not guarded by the user filter accepting the element' % key_of(tb), tb.where(st.get('line')))
            # a counter that starts at 0 right after an element has been accepted (`Some(_first) => { let mut acc = 0; ..rest.. }`) forgets it
            zero_init = rv['r'] == 'use' and rv['o'].get('k') == 'int' and rv['o'].get('v') == '0' and tb.locals[st['lhs']['l']]['ty'] == 'usize' and tb.locals[st['lhs']['l']].get('name')
            if zero_init and bb in r.visited and any(cfg.edge_dominates(a, t_, bb) for (a, t_) in accept_edges):
                out.inst('C04-THREAD/%s/survivor-init0' % key_of(tb), False, 'counter starts at 0 on a survivor edge')
                out.fail('C04-THREAD/%s/survivor-init0' % key_of(tb), '%s starts a counter at 0 on a path on which the user filter has just accepted an element: that element is never counted' % key_of(tb), tb.where(st.get('line')))
    # a constant count is returned only for "nothing accepted" (0) - or for exactly the one accepted element (1, on a survivor edge)
    for (pred, rb), (val, pc) in r.ret_edges.items():
        for alt in alternatives(val):
            if const_int(alt):
                dominated = any(cfg.edge_dominates(a, t_, pred) for (a, t_) in accept_edges)
                okc = (alt[1] == 0 and not dominated) or (alt[1] == 1 and dominated)
                out.inst('C04-THREAD/%s/const-%d' % (key_of(tb), alt[1]), okc, 'constant count %d %s a survivor edge' % (alt[1], 'on' if dominated else 'off'))
                if not okc:
                    out.fail('C04-THREAD/%s/const' % key_of(tb), '%s returns the constant count %d on a path on which %s' % (key_of(tb), alt[1], 'an element has been accepted' if dominated else 'no element has been accepted'), tb.where())
    return total


@rule('C04-THREAD', 'count tasks thread their counter: every update adds the current pull\'s count (or 1 per survivor) to the previous value')
def c04_thread(ctx):
    out = RuleOut('C04-THREAD')
    total = 0
    tasks = acc_tasks(ctx, True)
    for tb in tasks:
        total += check_count_body(ctx, out, tb)
    out.floor('count_tasks', len(tasks), 3 if not ctx.fixture else 0)
    out.floor('updates', total, 3 if not ctx.fixture else 0)
    return out


@rule('C04-CHAIN', 'counting chains end in Iterator::count after the user filter; no terminal that can skip the closures')
def c04_chain(ctx):
    out = RuleOut('C04-CHAIN')
    F = ctx.facts
    S = ctx.slots
    I = items(ctx)
    hosts = [tb.name for tb in acc_tasks(ctx, True)]
    reach = set()
    for tn in S.terminals:
        if F.bodies[tn].d['method'] == 'count':
            reach |= set(ctx.cg.reach(tn)) & set(S.seq_kernels)
    hosts += sorted(reach)
    n = 0
    for hn in hosts:
        b = F.bodies[hn]
        r = ctx.run(hn)
        fbs = b.fn_bounds()
        filters = {P(b.local_name(l)) for l in b.arg_locals() if fbs.get(local_type_param(b, l), {}).get('output') == 'bool'}
        for bb, c in r.call_sites():
            d = decl(c['t'])
            if not d.startswith(ITER):
                continue
            m = d[len(ITER):]
            if m == 'sum':
                e = I.elem(I.normalize(c['args'][0]))
                if all(a[0] == 'call' and is_iter_method(a, ('count',)) for a in alternatives(e)):
                    continue      # a sum of per-pull counts
            if m == 'fold' and len(c['args']) == 3:
                # fold(0, |acc, chunk_count| acc + chunk_count) over per-pull counts is a sum
                e = I.elem(I.normalize(c['args'][0]))
                ACC = P('$acc')
                got = items0(ctx).apply(c['args'][2], [ACC, P('$x')])
                if I.normalize(c['args'][1]) == ('const', 0) and got in (('bin', 'Add', ACC, P('$x')), ('bin', 'Add', P('$x'), ACC)) and \
                        all(a[0] == 'call' and is_iter_method(a, ('count',)) for a in alternatives(e)):
                    continue
                # fold(0, |acc, chunk| acc + <count over the chunk>) over the stream of pulled chunks: `.map(<count>).sum()` spelled as a fold
                if I.normalize(c['args'][1]) == ('const', 0) and got is not None and got[0] == 'bin' and got[1] == 'Add' and ACC in (got[2], got[3]):
                    other = got[3] if got[2] == ACC else got[2]
                    if other is not None and other[0] == 'call' and other[1] in F.bodies and not ctx.cfg(F.bodies[other[1]]).loops():
                        other = I.apply(('fn', other[1]), list(other[2]))       # a loop-free crate helper that spells the count
                    other = I.normalize(other)
                    if ACC not in set(subterms(other)) and other[0] == 'call' and is_iter_method(other, ('count',)) and other[2]:
                        _, root_o = I.spine(I.normalize(other[2][0]))
                        names_s, root_s = I.spine(I.normalize(c['args'][0]))
                        if root_o == P('$x') and not names_s and root_s is not None and root_s[0] == 'call' and tcallee(root_s).endswith('iter::from_fn'):
                            n += 1
                            ch_o = other[2][0]
                            okf_ = ch_o[0] == 'call' and is_iter_method(ch_o, ('filter',)) and (ch_o[2][1] in filters)
                            out.inst('C04-CHAIN/%s/fold-count' % key_of(b), okf_, 'fold of per-chunk counts')
                            if okf_:
                                continue
            if m in ITER_SKIPPING or (m in ITER_EXHAUSTIVE and m != 'count') or m in ITER_CARD_CHANGING:
                n += 1
                out.inst('C04-CHAIN/%s/%s' % (key_of(b), m), False, m)
                out.fail('C04-CHAIN/%s/%s' % (key_of(b), m), '%s uses Iterator::%s in a counting kernel: the per-element closures can be skipped or elements dropped from the count' % (key_of(b), m), b.where(c['line']))
            if m == 'count':
                n += 1
                names, root = I.spine(I.normalize(c['args'][0]))
                key = 'C04-CHAIN/%s/count' % key_of(b)
                # the user filter is the adaptor applied last (closest to count)
                ch = I.normalize(c['args'][0])
                okf = ch[0] == 'call' and is_iter_method(ch, ('filter',)) and (ch[2][1] in filters)
                if not okf and ch[0] == 'call' and is_iter_method(ch, ('filter_map',)) and ch[2][1][0] == 'closure':
                    # filter_map(f) where f yields Some only for elements the user filter accepted
                    okf = some_only_if_accepted(ctx, ch[2][1][1])
                why = ''
                if not okf:
                    # any other spelling (`.map(is_accepted).filter(|c| *c)`, a closure around the user filter ..): decided semantically
                    sem, why = chain_emits_iff_accepted(ctx, b, c['args'][0])
                    okf = sem is True
                out.inst(key, okf, 'count over %s %s' % (names, why), sample={'kernel': key_of(b), 'chain': names})
                if not okf:
                    out.fail(key, '%s counts a chain that does not hand on exactly the elements the user filter accepts (%s): %s' % (key_of(b), why or 'last adaptor is not `filter(<user filter>)`', names[:3]), b.where(c['line']))
    out.floor('count_chains', n, 1 if not ctx.fixture else 0)
    return out


@rule('C05-NOSKIP', 'skip_to_end (discarding the rest of the input) is called only by the early-exit tasks, after a match')
def c05_noskip(ctx):
    out = RuleOut('C05-NOSKIP')
    F = ctx.facts
    allowed = set(early_exit_tasks(ctx))
    must = set(must_visit_tasks(ctx))
    n = 0
    for b in F.fn_bodies():
        root = F.root_of(b)
        for bb, t in b.calls():
            if is_coniter_call(t, {'skip_to_end'}):
                n += 1
                key = 'C05-NOSKIP/%s' % key_of(root)
                # an early-exit task is a task that returns an Option (a match) - decided by C10-SIGNAL / C02-FIRST
                ok = root.name in allowed and root.d.get('ret_ty', '').startswith('std::option::Option<')
                out.inst(key, ok, 'in %s' % key_of(b), sample={'site': key_of(b)})
                if not ok:
                    out.fail(key, '%s calls skip_to_end(): outside the find tasks this discards input that a must-visit terminal (collect, count, reduce, for_each) still has to process' % key_of(b), b.where(t.get('line')))
    out.floor('skip_to_end_sites', n, 3 if not ctx.fixture else 0)
    return out


# ======================================================================================= C01-FRESH
@rule('C01-FRESH', 'positions delivered by the source start at 0: no source can be handed over half-consumed')
def c01_fresh(ctx):
    """Kernels use the positions a concurrent iterator reports (Next.idx / NextChunk.begin_idx) as output positions and as
    reported indices, and size their buffers with try_get_len() (the REMAINING length).  Both agree only for an iterator that
    has not been advanced.  Collections, slices, ranges and std iterators are converted by the library itself (fresh); an
    IntoPar impl whose receiver is already a concurrent iterator passes on whatever state the caller left it in."""
    out = RuleOut('C01-FRESH')
    F = ctx.facts
    S = ctx.slots
    n = 0
    for sn in sorted(S.sources):
        b = F.bodies[sn]
        if not b.arg_locals():
            continue
        n += 1
        ty = b.locals[b.arg_locals()[0]]['ty']
        ready_made = ty.startswith('orx_concurrent_iter::') and not ty.startswith('orx_concurrent_iter::IntoConcurrentIter')
        key = 'C01-FRESH/' + key_of(b)
        out.inst(key, not ready_made, ty[:80], sample={'source': key_of(b), 'receiver': ty[:100]})
        if ready_made:
            out.fail(key, '%s accepts a ready-made concurrent iterator (%s), which the caller may already have advanced: the ordered collect then writes at the '
                          'iterator\'s absolute positions into a buffer sized for the remaining elements (panic "Out of capacity" / "surely contains gaps", with a '
                          'destructor run over never-written slots while unwinding) and *_with_index reports absolute positions in parallel but remaining-relative '
                          'ones with num_threads(1)' % (key_of(b), ty[:60]), b.where())
    out.floor('sources', n, 8 if not ctx.fixture else 0)
    return out


# ======================================================================================= C02-FRESHSEQ
@rule('C02-FRESHSEQ', 'a sequential kernel numbers elements from 0: it is never handed an iterator that the same function has already pulled from')
def c02_freshseq(ctx):
    out = RuleOut('C02-FRESHSEQ')
    F = ctx.facts
    S = ctx.slots
    kernels = set(S.seq_kernels) | set(S.seq_delegates)
    n = 0
    for b in F.fn_bodies():
        if b.name in S.tasks or b.name in kernels:
            continue
        seq_uses = [(bb, t) for bb, t in b.calls() if callee_of(t) in kernels or is_coniter_call(t, {'into_seq_iter'})]
        if not seq_uses:
            continue
        n += 1
        pulls = [(bb, t) for bb, t in b.calls() if is_pull_call(t)]
        key = 'C02-FRESHSEQ/' + key_of(b)
        bad = None
        if pulls:
            cfg = ctx.cfg(b)
            r = ctx.run0(b.name)
            for pbb, pt in pulls:
                pc = r.calls.get(pbb)
                pit = base_strip(pc['args'][0]) if pc and pc['args'] else None
                after = cfg.reach(pbb)
                for sbb, st in seq_uses:
                    sc = r.calls.get(sbb)
                    if sbb in after and sbb != pbb and sc is not None and any(base_strip(a) == pit for a in sc['args']):
                        bad = (pt, st)
        out.inst(key, bad is None, '%d sequential use(s), %d pull(s)' % (len(seq_uses), len(pulls)), sample={'fn': key_of(b), 'sequential_uses': len(seq_uses), 'pulls': len(pulls)})
        if bad:
            out.fail(key, '%s pulls from the iterator (%s) and afterwards hands the same iterator to the sequential route (%s): the sequential kernels number the '
                          'remaining elements from 0, so every reported index is off by the number of elements already pulled'
                     % (key_of(b), method(bad[0]), res(bad[1])), b.where(bad[1].get('line')))
    out.floor('sequential_routes', n, 6 if not ctx.fixture else 0)
    return out
