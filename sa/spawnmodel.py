"""Where and how worker threads are spawned - derived from the program, robust to where the spawn loop lives.

  spawn sites     direct `Scope::spawn` calls (any body under a runner entry)
  spawners        closures whose body spawns exactly once per call (`|chunk| handles.push(s.spawn(..))`)
  loop hosts      bodies that call the guard `do_spawn`: the scope closure itself, or a helper with the spawn loop
  spawn events    inside a host: a direct spawn, or a call of a closure-typed parameter / local that is a spawner

Each event knows the chunk-size term the worker receives (in the host's terms) and the spawn site that realises it.
"""
from .facts import strip_generics, callee_of
from .lib import *
from .terms import *
from .terms import TOP
from .slots import SCOPE_SPAWN
from .opa import FN_CALLS


SPAWN_SCOPED = 'std::thread::Builder::spawn_scoped'
UNWRAPS = ('std::result::Result::expect', 'std::result::Result::unwrap')


def spawn_of_term(t):
    """(closure handed to the new thread, builder configuration or None) when the term is the handle of a scoped spawn:
    `Scope::spawn(s, f)` or `Builder::spawn_scoped(builder, s, f).expect(..)` - also as the inlined value of a crate wrapper"""
    if t is None or t[0] != 'call':
        return None
    c = sg(t[1])
    if c == SCOPE_SPAWN and len(t[2]) > 1:
        return t[2][1], None
    if c in UNWRAPS and t[2] and t[2][0][0] == 'call' and sg(t[2][0][1]).startswith('std::thread::') and sg(t[2][0][1]).endswith('::spawn_scoped') and len(t[2][0][2]) >= 3:
        return t[2][0][2][2], t[2][0][2][0]
    return None


def is_spawn_record(c):
    """a call record whose value is a spawn handle: the spawn primitive itself, the unwrap of a builder spawn, or a loop-free crate
    wrapper around either (inlined by the analysis)"""
    if spawn_of_term(c['res']) is None:
        return False
    cal = sg(c['callee'])
    return cal == SCOPE_SPAWN or cal in UNWRAPS or bool(c['t'].get('local'))


def closure_term_in(r, name):
    """the ('closure', name, caps) term as created in the body whose opa result is r"""
    seen = set()
    for c in r.calls.values():
        for a in c['args']:
            for x in subterms(a):
                if x[0] == 'closure' and x[1] == name:
                    return x
    if r.ret is not None:
        for x in subterms(r.ret):
            if x[0] == 'closure' and x[1] == name:
                return x
    return None


class SpawnSite:
    def __init__(self, body, bb, c):
        self.body = body
        self.bb = bb
        self.c = c                      # call record whose value is the spawn handle
        sp = spawn_of_term(c['res'])
        self.spawned = sp[0] if sp else (c['args'][1] if len(c['args']) > 1 else None)    # the closure handed to the worker
        self.config = sp[1] if sp else None


class Event:
    def __init__(self, host, bb, c, kind, chunk, site):
        self.host = host
        self.bb = bb
        self.c = c
        self.kind = kind                # 'direct' | 'via-closure'
        self.chunk = chunk              # chunk-size term in the host
        self.site = site                # SpawnSite


class SpawnModel:
    def __init__(self, ctx):
        self.ctx = ctx
        F = ctx.facts
        S = ctx.slots
        self.problems = []              # (key, msg, where, kind)
        self.entry_bodies = {}          # runner entry -> [bodies under its scope closure, scope closure first]
        self.sites = {}                 # runner entry -> [SpawnSite]
        self.hosts = {}                 # host body name -> {'entries': set, 'events': [Event], 'guards': [...]}
        for entry, clo in sorted(S.scope_closures.items()):
            cb = F.bodies[clo]
            bodies = [cb] + F.closures_in(cb)
            self.entry_bodies[entry] = bodies
            sl = []
            for bd in bodies:
                r = ctx.run(bd.name)
                for bb, c in r.call_sites():
                    if is_spawn_record(c):
                        sl.append(SpawnSite(bd, bb, c))
            self.sites[entry] = sl
        # hosts: bodies that call do_spawn
        for b in F.fn_bodies():
            r = None
            guards = []
            for bb, t in b.calls():
                if sg(callee_of(t)).endswith('::do_spawn'):
                    r = r or ctx.run(b.name)
                    c = r.calls.get(bb)
                    if c is None:
                        continue
                    sw = ctx.slots.switch_on_call_result(b, bb, t)
                    guards.append((bb, c, sw))
            if guards:
                self.hosts[b.name] = {'body': b, 'guards': guards, 'events': [], 'entries': set()}
        for hn, h in self.hosts.items():
            self._events(h)

    # ------------------------------------------------------------------
    def spawner_of(self, closure_term):
        """SpawnSite if the closure spawns exactly once per call (its spawn dominates the return, not in a loop)"""
        if closure_term is None or closure_term[0] != 'closure':
            return None
        F = self.ctx.facts
        cb = F.bodies.get(closure_term[1])
        if cb is None:
            return None
        r = self.ctx.run(cb.name)
        sp = [(bb, c) for bb, c in r.call_sites() if is_spawn_record(c)]
        if len(sp) != 1:
            return None
        bb, c = sp[0]
        cfg = self.ctx.cfg(cb)
        if cfg.innermost_loop(bb) is not None or not all(cfg.dominates(bb, x) for x in cfg.returns):
            return None
        return SpawnSite(cb, bb, c)

    def _events(self, h):
        b = h['body']
        ctx = self.ctx
        F = ctx.facts
        r = ctx.run(b.name)
        root = F.root_of(b)
        for entry in ctx.slots.runner_entries:
            if root.name == entry:
                h['entries'].add(entry)
        callers = ctx.cg.callers(b.name, kinds=('direct', 'cha')) if not b.is_closure() else []
        for bb, c in r.call_sites():
            if is_spawn_record(c):
                sp = spawn_of_term(c['res'])[0]
                chunk = None
                if sp is not None and sp[0] == 'closure':
                    sb = F.bodies.get(sp[1])
                    caps = sb.d.get('captures', []) if sb else []
                    cts = [sp[2][i] for i, cn in enumerate(caps) if i < len(sp[2]) and sb.locals and self._cap_is_usize(sb, i)]
                    chunk = cts[0] if len(cts) == 1 else None
                h['events'].append(Event(b, bb, c, 'direct', chunk, SpawnSite(b, bb, c)))
            elif c['decl'] in FN_CALLS and c['args'] and c['args'][0][0] == 'param':
                pname = c['args'][0][1]
                # the parameter must receive a spawner closure at every call site of the host
                idx = [i for i, l in enumerate(b.arg_locals()) if (b.local_name(l) or '_%d' % l) == pname]
                if not idx or not callers:
                    continue
                sites = []
                ok = True
                for (cn, k, cbb) in callers:
                    cr = ctx.run(cn)
                    cc = cr.calls.get(cbb)
                    if cc is None:
                        continue
                    site = self.spawner_of(cc['args'][idx[0]]) if idx[0] < len(cc['args']) else None
                    if site is None:
                        ok = False
                    else:
                        sites.append(site)
                        rootc = F.root_of(F.bodies[cn])
                        if rootc.name in ctx.slots.runner_entries:
                            h['entries'].add(rootc.name)
                if ok and sites:
                    arg = c['args'][1]
                    chunk = arg[1][0] if arg[0] == 'tuple' and len(arg[1]) == 1 else None
                    for site in sites:
                        h['events'].append(Event(b, bb, c, 'via-closure', chunk, site))

    @staticmethod
    def _cap_is_usize(sb, i):
        # captures are fields of the closure environment (local 1); their types are not listed separately, so use the
        # capture's name: the chunk size is the only by-value integer a spawned closure captures
        caps = sb.d.get('captures', [])
        return 'chunk' in caps[i] or caps[i] in ('c', 'size')

    # ------------------------------------------------------------------
    def events_of_entry(self, entry):
        outl = []
        for hn, h in self.hosts.items():
            if entry in h['entries']:
                outl.extend(h['events'])
        return outl
