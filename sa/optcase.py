"""What does a function return when a given Option-valued term T is None / Some(v)?

Used to compare wrappers semantically (`x.unwrap_or_else(f)` == `match x { Some(v) => v, None => f() }` ==
`if let Some(v) = x { v } else { f() }`), instead of by the spelling of one combinator."""
from .terms import *
from .terms import TOP
from .lib import sg
from . import lin

OPT = 'std::option::Option'


def callee(t):
    return sg(t[1]) if t is not None and t[0] == 'call' else ''


def opt_eval(ctx, t, T, case, V, depth=0):
    """evaluate term t assuming T is None (case=False) or Some(V) (case=True)"""
    if t is None or depth > 40:
        return t
    if t == T:
        return some(V) if case else none()
    k = t[0]
    ev = lambda x: opt_eval(ctx, x, T, case, V, depth + 1)
    if k == 'set':
        return mk_set([ev(x) for x in t[1]], 32)
    if k == 'field':
        b = ev(t[1])
        return ctx.opa.proj(b, t[3], t[2]) if b is not None else None
    if k == 'call':
        c = callee(t)
        a = [ev(x) for x in t[2]]
        a0 = a[0] if a else None
        if a0 is not None and a0[0] == 'variant' and a0[1] == OPT and c.startswith(OPT + '::'):
            m = c.split('::')[-1]
            is_some = a0[2] == 1
            pay = a0[3][0] if is_some else None
            if m in ('unwrap_or',):
                return pay if is_some else a[1]
            if m in ('unwrap_or_else',):
                return pay if is_some else apply_term(a[1], [])
            if m == 'unwrap_or_default':
                return pay if is_some else ('call', 'std::default::Default::default', ())
            if m in ('unwrap', 'expect'):
                return pay if is_some else ('call', 'diverges', ())
            if m == 'flatten':
                return pay if is_some else none()
            if m == 'map':
                return some(apply_term(a[1], [pay])) if is_some else none()
            if m == 'map_or':
                return apply_term(a[2], [pay]) if is_some else a[1]
            if m == 'map_or_else':
                return apply_term(a[2], [pay]) if is_some else apply_term(a[1], [])
            if m == 'and_then':
                return apply_term(a[1], [pay]) if is_some else none()
            if m in ('or', 'or_else'):
                return a0 if is_some else (a[1] if m == 'or' else apply_term(a[1], []))
            if m == 'is_some':
                return ('const', int(is_some))
            if m == 'is_none':
                return ('const', int(not is_some))
        return ('call', t[1], tuple(a))
    if k == 'variant':
        return ('variant', t[1], t[2], tuple(ev(x) for x in t[3]), t[4])
    if k == 'tuple':
        return ('tuple', tuple(ev(x) for x in t[1]))
    if k == 'un':
        a = ev(t[2])
        if t[1] == 'Not' and a is not None and a[0] == 'const' and a[1] in (0, 1):
            return ('const', 1 - a[1])
        return ('un', t[1], a)
    return t


def apply_term(f, args):
    return ('call', 'std::ops::Fn::call', (f, ('tuple', tuple(args))))


def case_returns(ctx, r, T):
    """{'none': set of return terms when T is None, 'some': ... when T is Some(V)}, V = T.Some.0"""
    V = ('field', T, 1, 0)
    out = {'none': set(), 'some': set()}
    edges = list(r.ret_edges.values()) or [(r.ret, frozenset())]
    for (val, pc) in edges:
        cases = {True, False}
        for (pt, f) in pc:
            if pt == ('discr', T):
                if f == ('eq', 0):
                    cases &= {False}
                elif f == ('eq', 1) or (f[0] == 'ne' and 0 in f[1]):
                    cases &= {True}
            elif pt[0] == 'call' and callee(pt) in (OPT + '::is_some', OPT + '::is_none') and pt[2][0] == T:
                tv = lin.fact_truth(f)
                if tv is not None:
                    isome = tv if callee(pt).endswith('is_some') else (not tv)
                    cases &= {isome}
        for case in cases:
            got = opt_eval(ctx, val, T, case, V)
            for alt in alternatives(got):
                out['some' if case else 'none'].add(alt)
    return out, V


def case_returns_rerun(ctx, name, T, build=None):
    """like case_returns, but by re-running the body with the call result T replaced by None / Some(V) (seeds), so that
    branches on T are pruned inside the body - robust to values being joined before the return block.
    `build(opt)` wraps the Option into the shape of the call result when T is only a component of it."""
    V = ('param', '$payload')
    out = {'none': set(), 'some': set()}
    for case, opt in (('none', none()), ('some', some(V))):
        repl = build(opt) if build else opt
        rr = ctx.opa.run(name, seeds={'subst': {T: repl}, 'key': ('optcase', case, T)})
        got = opt_eval(ctx, rr.ret, T, case == 'some', V)
        for alt in alternatives(got):
            out[case].add(alt)
    return out, V
