"""opa - origin-propagation analysis.

A forward, sparse-conditional (Wegman-Zadeck style) dataflow over one MIR body whose abstract values
are the origin terms of terms.py.  No path enumeration, no solver: finite input domains are supplied
as *seeds* (known discriminants, an oracle for boolean atoms), under which propagation follows only
the feasible edges.  Loop-carried values become phi terms with recorded recurrences.
"""
from .terms import *
from .terms import TOP
from .cfg import CFG, term_succs
from .facts import strip_generics
import re
BOOL_TO_INT_RE = re.compile(r'<(?:usize|isize|u\d+|i\d+) as std::convert::From<bool>>|<bool as std::convert::Into<(?:usize|isize|u\d+|i\d+)>>')

IDENTITY_DECLS = {
    'std::clone::Clone::clone', 'std::ops::Deref::deref', 'std::ops::DerefMut::deref_mut',
    'std::borrow::Borrow::borrow', 'std::borrow::BorrowMut::borrow_mut', 'std::convert::AsRef::as_ref',
    'std::convert::AsMut::as_mut', 'std::hint::black_box', 'std::convert::identity',
}
# Into/From are identity-preserving for origin purposes only between an integer and its NonZero wrapper
NONZERO_RE = re.compile(r'NonZero<usize>')

# callees that advance a cursor: the receiver keeps its identity as a term (see mark_mutations)
CURSOR_METHODS = {'next', 'next_x', 'next_back', 'next_chunk', 'next_chunk_x', 'next_id_and_value', 'size_hint',
                  'call_mut', 'call', 'call_once'}

FN_CALLS = ('std::ops::Fn::call', 'std::ops::FnMut::call_mut', 'std::ops::FnOnce::call_once')

PC = '$pc'


class Result:
    def __init__(self):
        self.ret = None
        self.returns = []      # (bb, term, pc) - latest state per return block
        self.ret_edges = {}    # (pred bb, return bb) -> (value of _0 on that edge, pc on that edge)
        self.calls = {}        # bb -> dict
        self.stores = {}       # (bb, stmt_idx) -> dict
        self.asserts = {}      # bb -> dict
        self.state = {}        # bb -> env at block entry
        self.exit_env = {}     # bb -> env before the terminator
        self.switches = {}     # bb -> (discr term, [targets followed])
        self.switch_arms = {}  # bb -> (effective [(value, target)], otherwise) in terms of the recorded discr term
        self.recur = {}        # (header, local) -> set of back-edge terms
        self.recur_edges = {}  # (header, local) -> list of (back-edge term, path facts on that edge)
        self.init = {}         # (header, local) -> term on loop entry
        self.why_top = None
        self.visited = set()

    def deep_subterms(self, t):
        """sub-terms of t, looking through phi terms into their initial values and recurrences"""
        seen = set()
        out = []
        st = [t]
        while st:
            x = st.pop()
            if x is None or x in seen:
                continue
            seen.add(x)
            out.append(x)
            if x[0] == 'phi':
                k = (x[1], x[2])
                if k in self.init:
                    st.append(self.init[k])
                st.extend(self.recur.get(k, ()))
            else:
                st.extend(children(x))
        return out

    def switch_target(self, bb, value):
        arms, other = self.switch_arms[bb]
        for v, tgt in arms:
            if v == value:
                return tgt
        return other

    def call_sites(self, pred=None):
        for bb, c in sorted(self.calls.items()):
            if pred is None or pred(c):
                yield bb, c


class Opa:
    def __init__(self, facts, inline_depth=3, width=8, max_blocks_inline=80):
        self.facts = facts
        self.inline_depth = inline_depth
        self.width = width
        self.max_blocks_inline = max_blocks_inline
        self._cfg = {}
        self._mutcaps = {}      # closure def -> [(local, path)] captured by mutable reference at its creation site
        self.field_info = {}    # opaque field term -> (field name, field type) as seen at a place projection
        self._memo = {}
        self._stack = []
        self.stats = {'runs': 0, 'inlined': 0, 'top_widenings': 0}

    # ------------------------------------------------------------------ helpers
    def cfg(self, body, unwind=False):
        k = (body.name, unwind)
        if k not in self._cfg:
            self._cfg[k] = CFG(body, unwind)
        return self._cfg[k]

    def default_args(self, body):
        """symbolic inputs: ('param', <name or _i>) per argument; a closure's environment is a closure
        term whose captures are ('param', 'cap:<name>')"""
        args = []
        for i in body.arg_locals():
            nm = body.local_name(i)
            if body.is_closure() and i == 1:
                caps = tuple(('param', 'cap:' + c) for c in body.d.get('captures', []))
                args.append(('closure', body.name, caps))
            else:
                args.append(('param', nm if nm else '_%d' % i))
        return args

    def inlinable(self, body):
        if body.d.get('derived') and body.d.get('impl_trait') != 'std::default::Default':
            return False
        if len(body.blocks) > self.max_blocks_inline:
            return False
        return not self.cfg(body).back_edges()

    # ------------------------------------------------------------------ main entry
    def run(self, name, args=None, seeds=None, depth=0, unwind=False, start=None, start_env=None, avoid=()):
        """Analyse body `name`.  Returns a Result.  `seeds`: {'discr': {t_str(term): variant}, 'atoms':
        callable(term)->True/False/None, 'key': hashable}."""
        body = self.facts.bodies[name]
        seeds = seeds or {}
        if args is None:
            args = self.default_args(body)
        self.stats['runs'] += 1
        phis = {}   # header -> set(locals)
        for _round in range(40):
            res, new_phis = self._run_once(body, args, seeds, depth, unwind, phis, start, start_env, frozenset(avoid))
            if not new_phis:
                return res
            for h, ls in new_phis.items():
                phis.setdefault(h, set()).update(ls)
        res.why_top = 'phi discovery did not converge'
        res.ret = TOP
        return res

    def _run_once(self, body, args, seeds, depth, unwind, phis, start, start_env, avoid=frozenset()):
        cfg = self.cfg(body, unwind)
        backs = set(cfg.back_edges())
        headers = {h for _, h in backs}
        res = Result()
        env0 = {}
        if start_env is not None:
            env0 = dict(start_env)
        else:
            for i, a in enumerate(args):
                env0[i + 1] = a
            env0[PC] = frozenset()
        entry = 0 if start is None else start
        state = {entry: env0}
        work = [entry]
        new_phis = {}
        recur_src = {}
        edge_out = {}
        iters = 0
        while work:
            bb = work.pop()
            iters += 1
            if iters > 20000:
                res.why_top = 'iteration bound'
                res.ret = TOP
                return res, {}
            env = dict(state[bb])
            res.visited.add(bb)
            if bb in headers and bb in phis:
                for l in phis[bb]:
                    env[l] = ('phi', bb, l)
            res.state[bb] = dict(env)
            blk = body.blocks[bb]
            for si, st in enumerate(blk['stmts']):
                v = self.rvalue(st['rv'], env)
                self.write_place(st['lhs'], v, env, res, (bb, si), st.get('line'))
            res.exit_env[bb] = dict(env)
            t = blk['term']
            k = t['t']
            edges = []   # (target, fact or None, env override or None)
            if k == 'goto':
                edges = [(t['target'], None)]
            elif k == 'return':
                r = self.collapse(env.get(0), env)
                if r is None:
                    r = ('tuple', ()) if body.d.get('ret_head') == 'unit' else TOP
                res.returns = [x for x in res.returns if x[0] != bb] + [(bb, r, env.get(PC, frozenset()))]
                res.ret = join(res.ret, r, self.width)
            elif k == 'switch':
                d = self.collapse(self.operand(t['discr'], env), env) or TOP
                if d[0] == 'discr' and d[1][0] == 'call' and d[1][1] == 'try_branch_option':
                    # Continue(0) <=> Some(1), Break(1) <=> None(0)
                    d = ('discr', d[1][2][0])
                    # a known Option (e.g. substituted by a case analysis): its discriminant is its variant index
                    if d[1][0] == 'variant' and d[1][1] == 'std::option::Option':
                        d = ('const', d[1][2])
                    elif d[1][0] == 'set' and all(x[0] == 'variant' and x[1] == 'std::option::Option' for x in d[1][1]):
                        d = mk_set([('const', x[2]) for x in d[1][1]], self.width)
                    arms = [[str(1 - int(v)), tgt] for v, tgt in t['arms'] if int(v) in (0, 1)]
                    other = t['otherwise']
                    have = {int(v) for v, _ in arms}
                    if len(have) == 1:
                        arms.append([str(1 - next(iter(have))), other])
                    t = {'t': 'switch', 'discr': t['discr'], 'arms': arms, 'otherwise': other}
                edges = self.decide_switch(d, t, env, seeds)
                res.switches[bb] = (d, [e[0] for e in edges])
                res.switch_arms[bb] = ([(int(v), tgt) for v, tgt in t['arms']], t['otherwise'])
            elif k == 'assert':
                cond = self.collapse(self.operand(t['cond'], env), env) or TOP
                ops = {}
                for x in re.findall(r'_(\d+)', t['msg']):
                    ops[int(x)] = self.collapse(self.read_place({'l': int(x), 'p': []}, env), env)
                res.asserts[bb] = {'msg': t['msg'], 'ops': ops, 'cond': cond, 'expected': t['expected'],
                                   'line': t['line'], 'pc': env.get(PC, frozenset())}
                edges = [(t['target'], None)]
                if unwind and isinstance(t.get('unwind'), int):
                    edges.append((t['unwind'], None))
            elif k == 'drop':
                edges = [(t['target'], None)]
                if unwind and isinstance(t.get('unwind'), int):
                    edges.append((t['unwind'], None))
            elif k == 'call':
                raw = [self.operand(a, env) or TOP for a in t['args']]
                argv = [self.collapse(a, env) or TOP for a in raw]
                env_before = dict(env) if unwind else None
                rv, inlined = self.call(t, argv, env, seeds, depth)
                if seeds.get('subst') and rv is not None:
                    rv = seeds['subst'].get(rv, rv)
                res.calls[bb] = {'callee': t.get('resolved') or t.get('callee') or '?', 'decl': t.get('callee') or '?',
                                 'args': argv, 'raw': raw, 'dest': t['dest'], 'res': rv, 'line': t['line'],
                                 'inlined': inlined, 't': t, 'pc': env.get(PC, frozenset())}
                if not inlined and env.get(PC):
                    # a new evaluation of the same (uninterpreted, possibly stateful) call invalidates what was
                    # known about the previous one: drop path facts that mention this call's result term
                    keep = frozenset(f for f in env[PC] if rv not in subterms(f[0]))
                    if len(keep) != len(env[PC]):
                        env[PC] = keep
                self.mark_mutations(t, raw, argv, rv, env)
                self.write_place(t['dest'], rv, env, res, (bb, 'call'), t.get('line'))
                if t['target'] is not None:
                    edges = [(t['target'], None)]
                if unwind and isinstance(t.get('unwind'), int):
                    edges.append((t['unwind'], None, env_before))
            for e in edges:
                s, fact = e[0], e[1]
                if s in avoid:
                    continue
                out = env if len(e) < 3 or e[2] is None else e[2]
                if fact is not None:
                    out = dict(out)
                    out[PC] = out.get(PC, frozenset()) | {fact}
                if body.blocks[s]['term']['t'] == 'return' and not body.blocks[s]['stmts']:
                    res.ret_edges[(bb, s)] = (self.collapse(out.get(0), out), out.get(PC, frozenset()))
                if (bb, s) in backs:
                    # back edge: record recurrences, discover phis; never changes the header state
                    old = state.get(s)
                    if old is None:
                        state[s] = dict(out)
                        work.append(s)
                        continue
                    hp = phis.get(s, set())
                    for l, v in out.items():
                        if l == PC:
                            continue
                        if l in hp:
                            cv = self.collapse(v, out)
                            # keep only the latest (most joined) value per back-edge source
                            recur_src.setdefault((s, l), {})[bb] = (cv, out.get(PC, frozenset()))
                        elif l in old and old[l] is not None and v is not None and v != old[l]:
                            new_phis.setdefault(s, set()).add(l)
                    continue
                # the in-state of s is the join of the *latest* out-states of its forward predecessors
                # (re-processing a predecessor replaces its contribution, so no stale partial values survive)
                edge_out[(bb, s)] = out
                contrib = [o for (p2, s2), o in edge_out.items() if s2 == s]
                if len(contrib) == 1:
                    new = dict(contrib[0])
                else:
                    new = {}
                    keys = set()
                    for o in contrib:
                        keys |= set(o)
                    for l in keys:
                        if l == PC:
                            j = None
                            for o in contrib:
                                j = o.get(PC, frozenset()) if j is None else (j & o.get(PC, frozenset()))
                        else:
                            j = None
                            for o in contrib:
                                j = join(j, o.get(l), self.width)
                        new[l] = j
                if s in headers:
                    for l in phis.get(s, ()):
                        iv = None
                        for o in contrib:
                            iv = join(iv, self.collapse(o.get(l), o), self.width)
                        res.init[(s, l)] = iv
                if state.get(s) != new:
                    state[s] = new
                    work.append(s)
        for k2, by_src in recur_src.items():
            res.recur[k2] = {v for (v, _) in by_src.values()}
            res.recur_edges[k2] = list(by_src.values())
        # the return value is the join of the *final* states of the return blocks (no stale partial joins)
        if res.returns:
            rt = None
            for (_, term, _) in res.returns:
                rt = join(rt, term, self.width)
            res.ret = rt
        if res.ret is None:
            res.ret = ('never',)
        return res, new_phis

    # ------------------------------------------------------------------ places
    def read_place(self, pl, env):
        t = env.get(pl['l'])
        if t is None:
            t = TOP
        variant = None
        for pr in pl['p']:
            if t is None:
                return None
            if pr == '*':
                if t[0] == 'ref':
                    t = self._read_path(t[1], t[2], env)
                continue
            if isinstance(pr, dict) and 'v' in pr:
                variant = pr['v']
                continue
            if isinstance(pr, dict) and 'f' in pr:
                if t[0] == 'ref':
                    t = self._read_path(t[1], t[2], env)
                before = t
                t = self.proj(t, pr['f'], variant)
                if t is not None and pr.get('t') is not None and t == ('field', before, variant, pr['f']):
                    self.field_info.setdefault(t, (pr.get('n', ''), pr['t']))
                variant = None
                continue
            if isinstance(pr, dict) and 'idx' in pr:
                if t[0] == 'ref':
                    t = self._read_path(t[1], t[2], env)
                t = ('index', t, self.collapse(env.get(pr['idx']) or TOP, env))
                continue
            t = TOP
        return t

    def _read_path(self, local, path, env, guard=0):
        t = env.get(local)
        if t is None:
            t = TOP
        if guard > 20:
            return TOP
        if t[0] == 'ref' and t[1] != local:
            t = self._read_path(t[1], t[2], env, guard + 1)
        for (variant, f) in path:
            if t is None:
                return None
            if f == '*':
                if t[0] == 'ref':
                    t = self._read_path(t[1], t[2], env, guard + 1)
                continue
            if t[0] == 'ref':
                t = self._read_path(t[1], t[2], env, guard + 1)
            t = self.proj(t, f, variant)
        return t

    def proj(self, t, f, variant):
        if t is None:
            return None
        k = t[0]
        if k == 'set':
            return mk_set([self.proj(x, f, variant) for x in t[1]], self.width)
        if k == 'tuple' and variant is None:
            return t[1][f] if f < len(t[1]) else TOP
        if k == 'closure' and variant is None:
            return t[2][f] if f < len(t[2]) else TOP
        if k == 'variant':
            if variant is None or variant == t[2]:
                return t[3][f] if f < len(t[3]) else TOP
            return None   # downcast to another variant: infeasible alternative (guarded by a discriminant switch)
        if k == 'upd':
            if t[2] == (variant, f):
                return t[3]
            return self.proj(t[1], f, variant)
        if k == 'top':
            return TOP
        if k == 'call' and t[1] == 'try_branch_option':
            # ControlFlow::Continue (variant 0) carries the Some payload; Break (variant 1) carries the residual None
            if variant == 0 and f == 0:
                return self.proj(t[2][0], 0, 1)
            if variant == 1 and f == 0:
                return none()
        return ('field', t, variant, f)

    def set_field(self, t, variant, f, v):
        if t is None:
            t = TOP
        k = t[0]
        if k == 'tuple' and variant is None and f < len(t[1]):
            fs = list(t[1])
            fs[f] = v
            return ('tuple', tuple(fs))
        if k == 'variant' and (variant is None or variant == t[2]) and f < len(t[3]):
            fs = list(t[3])
            fs[f] = v
            return ('variant', t[1], t[2], tuple(fs), t[4])
        if k == 'upd' and t[2] == (variant, f):
            return ('upd', t[1], t[2], v)
        return ('upd', t, (variant, f), v)

    def _upd_path(self, t, path, v):
        if not path:
            return v
        (variant, f) = path[0]
        if f == '*':
            return self._upd_path(t, path[1:], v)
        cur = self.proj(t if t is not None else TOP, f, variant)
        return self.set_field(t, variant, f, self._upd_path(cur, path[1:], v))

    def write_place(self, pl, v, env, res=None, where=None, line=None):
        if not pl['p']:
            env[pl['l']] = v
            return
        # normalise the projection into a path of (variant, field) / '*'
        local = pl['l']
        path = []
        variant = None
        ok = True
        for pr in pl['p']:
            if pr == '*':
                path.append((None, '*'))
            elif isinstance(pr, dict) and 'v' in pr:
                variant = pr['v']
            elif isinstance(pr, dict) and 'f' in pr:
                path.append((variant, pr['f']))
                variant = None
            else:
                ok = False
                break
        base = env.get(local)
        # redirect through a tracked reference to a local place
        hops = 0
        while base is not None and base[0] == 'ref' and path and path[0][1] == '*' and hops < 10:
            local, path = base[1], list(base[2]) + path[1:]
            base = env.get(local)
            hops += 1
        through_ptr = any(p[1] == '*' for p in path)
        if res is not None and (through_ptr or not ok):
            res.stores[where] = {'ptr': self.collapse(base, env) if base is not None else TOP,
                                 'path': tuple(path), 'value': self.collapse(v, env), 'line': line, 'local': local,
                                 'pc': env.get(PC, frozenset())}
        if not ok:
            env[local] = TOP
            return
        env[local] = self._upd_path(base if base is not None else TOP, path, v)

    # ------------------------------------------------------------------ operands / rvalues
    def operand(self, o, env):
        k = o['k']
        if k in ('copy', 'move'):
            return self.read_place(o['pl'], env)
        if k == 'int':
            ty = o.get('ty')
            if ty in self.facts.adts and self.facts.adts[ty].get('enum'):
                vi = self.facts.variant_of_discr(ty, int(o['v']))
                if vi is not None and not self.facts.adts[ty]['variants'][vi]['fields']:
                    return ('variant', ty, vi, (), self.facts.adts[ty]['variants'][vi]['name'])
            return ('const', int(o['v']))
        if k == 'fn':
            return ('fn', o['path'], o.get('full', o['path']))
        if k == 'constref':
            return self.const_ref(o)
        return ('const', o.get('s', '?'))

    def const_ref(self, o):
        """a named constant: its initialiser's term if it is a crate-local const, else its scalar value"""
        d = o['def']
        b = self.facts.bodies.get(d)
        if b is not None and b.kind.startswith('Const') and d not in self._stack and len(self._stack) < 8:
            key = ('const', d)
            if key not in self._memo:
                self._stack.append(d)
                try:
                    r = self.run(d, [], {}, depth=0)
                finally:
                    self._stack.pop()
                self._memo[key] = r.ret
            if self._memo[key] not in (None, TOP, ('never',)):
                return self._memo[key]
        if o.get('v') is not None:
            return ('const', int(o['v']))
        return ('const', d)

    def collapse(self, t, env, guard=0):
        """replace references to local places by the current value of the place (refs never escape)"""
        if t is None:
            return None
        if guard > 12:
            return TOP
        k = t[0]
        if k == 'ref':
            return self.collapse(self._read_path(t[1], t[2], env), env, guard + 1)
        if k in ('top', 'param', 'const', 'fn', 'phi'):
            return t
        if not self._has_ref(t):
            return t
        c = lambda x: self.collapse(x, env, guard + 1)
        if k == 'tuple':
            return ('tuple', tuple(c(x) for x in t[1]))
        if k == 'variant':
            return ('variant', t[1], t[2], tuple(c(x) for x in t[3]), t[4])
        if k == 'closure':
            return ('closure', t[1], tuple(c(x) for x in t[2]))
        if k == 'call':
            return ('call', t[1], tuple(c(x) for x in t[2]))
        if k == 'field':
            return self.proj(c(t[1]), t[3], t[2])
        if k == 'index':
            return ('index', c(t[1]), c(t[2]))
        if k == 'upd':
            return ('upd', c(t[1]), t[2], c(t[3]))
        if k == 'bin':
            return ('bin', t[1], c(t[2]), c(t[3]))
        if k == 'un':
            return ('un', t[1], c(t[2]))
        if k == 'discr':
            return ('discr', c(t[1]))
        if k == 'set':
            return mk_set([c(x) for x in t[1]], self.width)
        return t

    def _has_ref(self, t):
        st = [t]
        n = 0
        while st:
            x = st.pop()
            n += 1
            if n > 5000:
                return True
            if x is None:
                continue
            if x[0] == 'ref':
                return True
            st.extend(children(x))
        return False

    def rvalue(self, rv, env):
        r = rv['r']
        if r == 'use':
            return self.operand(rv['o'], env)
        if r in ('ref', 'rawptr'):
            pl = rv['pl']
            # reference to (a field path of) a local: keep it as a tracked reference
            path = []
            variant = None
            simple = True
            for pr in pl['p']:
                if pr == '*':
                    path.append((None, '*'))
                elif isinstance(pr, dict) and 'v' in pr:
                    variant = pr['v']
                elif isinstance(pr, dict) and 'f' in pr:
                    path.append((variant, pr['f']))
                    variant = None
                else:
                    simple = False
                    break
            if simple:
                base = env.get(pl['l'])
                # &*r  or  &(*r).f  with r a tracked ref: rebase
                local = pl['l']
                hops = 0
                while base is not None and base[0] == 'ref' and path and path[0][1] == '*' and hops < 10:
                    local, path = base[1], list(base[2]) + path[1:]
                    base = env.get(local)
                    hops += 1
                if not any(p[1] == '*' for p in path):
                    if path:
                        self.read_place(pl, env)    # records field names / types of the referenced place
                    return ('ref', local, tuple(path), bool(rv.get('mut')) or r == 'rawptr')
            return self.read_place(pl, env)
        if r == 'bin':
            a = self.operand(rv['a'], env)
            b = self.operand(rv['b'], env)
            a = self.collapse(a, env)
            b = self.collapse(b, env)
            if a is None or b is None:
                return None
            op = rv['op']
            if op.endswith('WithOverflow'):
                return ('tuple', (self.binop(op[:-12], a, b), ('const', 0)))
            return self.binop(op, a, b)
        if r == 'un':
            a = self.collapse(self.operand(rv['a'], env), env)
            if a is None:
                return None
            if rv['op'] == 'Not' and a[0] == 'const' and a[1] in (0, 1):
                return ('const', 1 - a[1])
            if rv['op'] == 'Not' and a[0] == 'un' and a[1] == 'Not':
                return a[2]
            if rv['op'] == 'PtrMetadata':
                return ('call', 'len', (a,))
            return ('un', rv['op'], a)
        if r == 'discr':
            p = self.collapse(self.read_place(rv['pl'], env), env)
            if p is None:
                return None
            if p[0] == 'variant':
                return ('const', self.facts.discr_of(p[1], p[2]))
            if p[0] == 'set' and all(x[0] == 'variant' for x in p[1]):
                return mk_set([('const', self.facts.discr_of(x[1], x[2])) for x in p[1]], self.width)
            return ('discr', p)
        if r == 'cast':
            return self.operand(rv['o'], env)
        if r == 'agg':
            if rv['ak'] == 'closure':
                # remember which local places the closure captures by mutable reference: a call that receives the
                # closure may mutate them (see mark_mutations)
                mc = []
                for o in rv['ops']:
                    raw = self.operand(o, env)
                    if raw is not None and raw[0] == 'ref' and len(raw) > 3 and raw[3]:
                        mc.append((raw[1], raw[2]))
                if mc:
                    self._mutcaps[rv['def']] = mc
            ops = tuple(self.collapse(self.operand(o, env), env) or TOP for o in rv['ops'])
            if rv['ak'] == 'tuple':
                return ('tuple', ops)
            if rv['ak'] == 'adt':
                return ('variant', rv['adt'], rv['vidx'], ops, rv['variant'])
            if rv['ak'] == 'closure':
                eta = self.eta_capture(rv['def'])
                if eta is not None and eta < len(ops):
                    # `|a, b| f(a, b)` around a captured closure f is f itself (eta-reduction): rules see the user closure, not a wrapper
                    inner = ops[eta]
                    while inner is not None and inner[0] == 'ref':
                        inner = inner[1] if isinstance(inner[1], tuple) else inner
                        if inner[0] == 'ref' and not isinstance(inner[1], tuple):
                            break
                    if inner is not None and inner[0] in ('param', 'closure', 'fn', 'field'):
                        return inner
                return ('closure', rv['def'], ops)
            if rv['ak'] == 'array':
                return ('call', 'array', ops)
            return TOP
        return TOP

    def eta_capture(self, cname):
        """index of the capture f if the closure body is exactly `f(p1, .., pn)` with its own parameters in order, else None"""
        memo = self.__dict__.setdefault('_eta', {})
        if cname in memo:
            return memo[cname]
        memo[cname] = None
        body = self.facts.bodies.get(cname)
        if body is None or len(body.blocks) > 6 or self.cfg(body).back_edges():
            return None
        calls = list(body.calls())
        if len(calls) != 1 or (calls[0][1].get('callee') or '') not in FN_CALLS:
            return None
        try:
            r = self.run(cname, None, {'key': 'eta'}, self.inline_depth)     # depth limit reached: nothing is inlined
        except Exception:
            return None
        ret = r.ret
        known_closure = ret is not None and ret[0] == 'call' and ret[1] in self.facts.bodies and self.facts.bodies[ret[1]].is_closure()
        if ret is None or ret[0] != 'call' or (ret[1] not in FN_CALLS and not known_closure) or len(ret[2]) != 2 or ret[2][1][0] != 'tuple':
            return None
        f = ret[2][0]
        while f is not None and f[0] in ('ref', 'mut') and isinstance(f[1], tuple):
            f = f[1]
        if f is None or f[0] != 'param' or not f[1].startswith('cap:'):
            return None
        params = [('param', body.local_name(l) or '_%d' % l) for l in body.arg_locals()[1:]]
        if list(ret[2][1][1]) != params:
            return None
        caps = body.d.get('captures', [])
        nm = f[1][4:].lstrip('*&')
        for i, c in enumerate(caps):
            if c.lstrip('*&') == nm:
                memo[cname] = i
        return memo[cname]

    def binop(self, op, a, b):
        if const_int(a) and not const_int(b) and op in ('Eq', 'Ne', 'Lt', 'Le', 'Gt', 'Ge'):
            # canonical orientation of comparisons with a constant: the constant on the right
            a, b = b, a
            op = {'Lt': 'Gt', 'Gt': 'Lt', 'Le': 'Ge', 'Ge': 'Le'}.get(op, op)
        # identity elements: 0 + x, x + 0, x - 0, 1 * x, x * 1, x / 1, x << 0, x >> 0
        if op == 'Add' and a == ('const', 0):
            return b
        if op in ('Add', 'Sub', 'Shl', 'Shr') and b == ('const', 0):
            return a
        if op == 'Mul' and a == ('const', 1):
            return b
        if op in ('Mul', 'Div') and b == ('const', 1):
            return a
        if const_int(a) and const_int(b):
            x, y = a[1], b[1]
            try:
                if op == 'Eq': return ('const', int(x == y))
                if op == 'Ne': return ('const', int(x != y))
                if op == 'Lt': return ('const', int(x < y))
                if op == 'Le': return ('const', int(x <= y))
                if op == 'Gt': return ('const', int(x > y))
                if op == 'Ge': return ('const', int(x >= y))
                if op == 'Add': return ('const', x + y)
                if op == 'Sub' and x >= y: return ('const', x - y)
                if op == 'Mul': return ('const', x * y)
                if op == 'Shl' and y < 64: return ('const', x << y)
                if op == 'Shr': return ('const', x >> y)
                if op == 'Div' and y: return ('const', x // y)
                if op == 'BitAnd': return ('const', x & y)
                if op == 'BitOr': return ('const', x | y)
            except Exception:
                pass
        return ('bin', op, a, b)

    # ------------------------------------------------------------------ control
    def decide_switch(self, d, t, env, seeds):
        arms = [(int(v), tgt) for v, tgt in t['arms']]
        other = t['otherwise']
        vals = [v for v, _ in arms]

        def edge_for(val):
            for v, tgt in arms:
                if v == val:
                    return [(tgt, (d, ('eq', v)))]
            return [(other, (d, ('ne', tuple(vals))))]

        val = None
        if const_int(d):
            val = d[1]
        elif d[0] == 'set' and all(const_int(x) for x in d[1]):
            out = []
            for x in d[1]:
                for e in edge_for(x[1]):
                    if e[0] not in [o[0] for o in out]:
                        out.append((e[0], None))
            return out
        if val is None and d[0] == 'discr':
            val = seeds.get('discr', {}).get(t_str(d[1]))
            if val is None and seeds.get('discr_method') and d[1][0] == 'call':
                # every observation made through this method reports the same variant (e.g. has_more() = Yes for the whole run)
                val = seeds['discr_method'].get(strip_generics(d[1][1]).split('::')[-1])
        if val is None:
            f = seeds.get('atoms')
            if f is not None:
                tv = f(d)
                if tv is not None:
                    val = int(tv) if not isinstance(tv, bool) else (1 if tv else 0)
        excluded = set()
        if val is None:
            for (pt, fact) in env.get(PC, ()):
                if pt == d:
                    if fact[0] == 'eq':
                        val = fact[1]
                        break
                    if fact[0] == 'ne':
                        excluded |= set(fact[1])
        if val is not None:
            return edge_for(val)
        out = []
        for v, tgt in arms:
            if v in excluded:
                continue
            out.append((tgt, (d, ('eq', v))))
        # boolean / two-valued refinement for the otherwise edge
        out.append((other, (d, ('ne', tuple(vals)))))
        # merge duplicate targets (facts are dropped when two edges share a target)
        seen = {}
        for tgt, fact in out:
            if tgt in seen:
                seen[tgt] = None
            else:
                seen[tgt] = fact
        return [(tgt, fact) for tgt, fact in seen.items()]

    # ------------------------------------------------------------------ calls
    def mark_mutations(self, t, raw, argv, rv, env):
        """a call that receives `&mut <local place>` may change that place: its value becomes
        ('mut', old value, the call term).  Cursor-style callees (pulls, Iterator::next) are exempt so
        that an iterator keeps a stable term and adaptor chains stay visible."""
        callee = strip_generics(t.get('resolved') or t.get('callee') or '?')
        if callee.split('::')[-1] in CURSOR_METHODS:
            return
        nm = t.get('callee') if (t.get('trait') and not t.get('local')) else (t.get('resolved') or t.get('callee') or '?')
        ct = ('call', nm, tuple(argv))
        targets = []
        for a in raw:
            if a is not None and a[0] == 'ref' and len(a) > 3 and a[3]:
                targets.append((a[1], a[2]))
        for a in argv:
            if a is not None and a[0] == 'closure' and a[1] in self._mutcaps:
                targets.extend(self._mutcaps[a[1]])
        for (loc, path) in targets:
            old = self._read_path(loc, path, env)
            new = ('mut', old if old is not None else TOP, ct)
            base = env.get(loc)
            env[loc] = self._upd_path(base if base is not None else TOP, list(path), new)

    def call(self, t, argv, env, seeds, depth):
        decl = t.get('callee') or '?'
        res = t.get('resolved') or decl
        full = t.get('callee_full') or ''
        # calls through Fn* on a known closure / fn item
        if decl in FN_CALLS and argv:
            f = argv[0]
            cargs = list(argv[1][1]) if len(argv) > 1 and argv[1][0] == 'tuple' else None
            if f[0] == 'closure' and cargs is not None:
                r = self.inline(f[1], [f] + cargs, seeds, depth)
                if r is not None:
                    return r, True
                return ('call', f[1], tuple([f] + cargs)), False
            if f[0] == 'fn' and cargs is not None:
                r = self.call_path(f[1], cargs, seeds, depth)
                return r, False
        if t.get('local') and res in self.facts.bodies:
            r = self.inline(res, argv, seeds, depth)
            if r is not None:
                return r, True
            return ('call', res, tuple(argv)), False
        if decl in IDENTITY_DECLS and len(argv) == 1:
            return argv[0], False
        if strip_generics(res) == 'std::num::NonZero::get' and len(argv) == 1:
            return argv[0], False       # the integer inside a NonZero: same origin
        if decl in ('std::convert::Into::into', 'std::convert::From::from') and len(argv) == 1 and NONZERO_RE.search(full) \
                and ('usize as std::convert::From' in full or 'as std::convert::Into<usize>' in full):
            return argv[0], False
        if strip_generics(res) in ('std::option::Option::inspect', 'std::result::Result::inspect') and len(argv) == 2:
            return argv[0], False       # the value passes through unchanged (what the closure does is seen where its body is analysed)
        if decl in ('std::convert::Into::into', 'std::convert::From::from') and len(argv) == 1 and BOOL_TO_INT_RE.search(full):
            return argv[0], False       # bool -> integer: false = 0, true = 1, which is how booleans are represented here
        # Option::map_or(opt, default, f) / map_or_else(opt, d, f) with a known closure: `match opt { Some(v) => f(v), None => default }`
        if strip_generics(res) in ('std::option::Option::map_or', 'std::option::Option::map_or_else') and len(argv) == 3 and argv[2][0] == 'closure':
            opt = argv[0]
            which = None
            if opt[0] == 'variant' and opt[1] == 'std::option::Option':
                which = opt[2]
            else:
                which = seeds.get('discr', {}).get(t_str(opt))
                if which is None:
                    for (pt, fact) in env.get(PC, ()):
                        if pt == ('discr', opt) and fact[0] == 'eq':
                            which = fact[1]
            payload = opt[3][0] if opt[0] == 'variant' and opt[3] else ('field', opt, 1, 0)
            alts = []
            if which in (None, 1):
                r = self.inline(argv[2][1], [argv[2], payload], seeds, depth)
                alts.append(r if r is not None else ('call', argv[2][1], (argv[2], payload)))
            if which in (None, 0):
                d_ = argv[1]
                if strip_generics(res).endswith('map_or_else'):
                    d_ = (self.inline(d_[1], [d_], seeds, depth) if d_[0] == 'closure' else None) or ('call', 'default', (d_,))
                alts.append(d_)
            return (alts[0] if len(alts) == 1 else mk_set(alts, self.width)), False
        # `x?` on an Option: branch(x) is Continue(payload) iff x is Some; from_residual(None) is None
        if decl == 'std::ops::Try::branch' and len(argv) == 1 and 'std::option::Option<' in full.split(' as ')[0]:
            return ('call', 'try_branch_option', (argv[0],)), False
        if decl == 'std::ops::FromResidual::from_residual' and 'std::option::Option<' in full.split(' as ')[0]:
            return none(), False
        # external trait methods are named by their declared (trait) path so that terms are uniform
        name = decl if (t.get('trait') and not t.get('local')) else res
        if not argv:
            return ('call', name, (('const', 'site:bb%s' % t.get('target')),)), False
        return self.interpret(name, argv), False

    def call_path(self, path, argv, seeds, depth):
        if path in self.facts.bodies:
            r = self.inline(path, argv, seeds, depth)
            if r is not None:
                return r
        return self.interpret(path, list(argv))

    def interpret(self, callee, argv):
        """a handful of std callees with an exact meaning on fully known arguments"""
        p = strip_generics(callee)
        a0 = argv[0] if argv else None
        if p in ('std::cmp::PartialEq::eq', 'std::cmp::PartialEq::ne') and len(argv) == 2:
            ev = []
            for x in argv:
                while x is not None and x[0] in ('ref', 'mut'):
                    x = x[1]
                ev.append(x)
            if all(x is not None and x[0] == 'variant' and not x[3] for x in ev) and ev[0][1] == ev[1][1]:
                same = ev[0][2] == ev[1][2]
                return ('const', int(same if p.endswith('::eq') else not same))
        if p in ('std::option::Option::is_some', 'std::option::Option::is_none') and a0 is not None:
            if a0[0] == 'variant' and a0[1] == 'std::option::Option':
                v = a0[2] == 1
                return ('const', int(v if p.endswith('is_some') else not v))
        if p == 'std::option::Option::flatten' and a0 is not None and a0[0] == 'variant':
            if a0[2] == 0:
                return none()
            return a0[3][0]
        if p in ('std::option::Option::unwrap_or', 'std::option::Option::unwrap_or_else', 'std::option::Option::unwrap',
                 'std::option::Option::expect') and a0 is not None and a0[0] == 'variant' and a0[2] == 1:
            return a0[3][0]
        if p == 'std::option::Option::unwrap_or' and a0 is not None and a0[0] == 'variant' and a0[2] == 0:
            return argv[1]
        if p in ('std::option::Option::or', 'std::option::Option::xor') and len(argv) == 2 and a0 is not None and a0[0] == 'variant' and a0[1] == 'std::option::Option':
            # a.or(b): a if a is Some, else b   (xor differs only for (Some, Some), which is left uninterpreted)
            if a0[2] == 0:
                return argv[1]
            if p.endswith('::or'):
                return a0
        if p == 'std::option::Option::and' and len(argv) == 2 and a0 is not None and a0[0] == 'variant' and a0[1] == 'std::option::Option':
            return none() if a0[2] == 0 else argv[1]
        return ('call', callee, tuple(argv))

    def inline(self, name, argv, seeds, depth):
        body = self.facts.bodies.get(name)
        if body is None or depth >= self.inline_depth or name in self._stack or not self.inlinable(body):
            return None
        key = (name, tuple(argv), seeds.get('key', id(seeds) if seeds else 0), self.inline_depth - depth)
        if key in self._memo:
            return self._memo[key]
        self._stack.append(name)
        try:
            r = self.run(name, list(argv), seeds, depth + 1)
        finally:
            self._stack.pop()
        self.stats['inlined'] += 1
        out = r.ret
        if out == ('never',):
            out = ('call', 'diverges', ())
        if out == TOP:
            out = None
        self._memo[key] = out
        return out
