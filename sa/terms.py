"""Origin terms: the abstract values of the origin-propagation analysis (opa).

A term is a hashable tuple:
  ('top',)                           unknown
  ('param', name)                    a parameter / capture of the analysed body (symbolic input)
  ('const', v)                       integer, or a string for non-integer constants
  ('fn', path, full)                 a fn item (zero-sized FnDef constant)
  ('tuple', (t..))
  ('variant', adt, vidx, (t..), vname)   ADT aggregate (structs are variant 0)
  ('field', base, variant|None, idx) projection out of an opaque term
  ('index', base, idx_term)
  ('upd', base, (variant, idx), v)   functional field update of an opaque term
  ('bin', op, a, b) / ('un', op, a)
  ('discr', t)
  ('closure', def, (captures..))
  ('call', callee, (args..))         uninterpreted call
  ('phi', bb, local)                 loop-carried value at loop header bb
  ('ref', local, path)               reference to a place of the *current* body (never escapes a body)
  ('set', frozenset(terms))          finite set of alternatives at a merge
  ('mut', old, call)                 value of a local place after `call` received a `&mut` to it
"""

TOP = ('top',)


def is_top(t):
    return t == TOP


def short(path):
    """last path segments without generics, for printing"""
    from .facts import strip_generics
    p = strip_generics(path)
    parts = p.split('::')
    return '::'.join(parts[-2:]) if len(parts) > 1 else p


def t_str(t, depth=0):
    if t is None:
        return 'undef'
    if depth > 40:
        return '...'
    k = t[0]
    d = depth + 1
    if k == 'top':
        return 'T'
    if k == 'param':
        return str(t[1])
    if k == 'const':
        return str(t[1])
    if k == 'fn':
        return 'fn<%s>' % short(t[1])
    if k == 'tuple':
        return '(' + ', '.join(t_str(x, d) for x in t[1]) + ')'
    if k == 'variant':
        return '%s::%s(' % (t[1].split('::')[-1], t[4]) + ', '.join(t_str(x, d) for x in t[3]) + ')'
    if k == 'field':
        return t_str(t[1], d) + ('.v%s' % t[2] if t[2] is not None else '') + '.%s' % t[3]
    if k == 'index':
        return '%s[%s]' % (t_str(t[1], d), t_str(t[2], d))
    if k == 'upd':
        return 'upd(%s, %s, %s)' % (t_str(t[1], d), t[2][1], t_str(t[3], d))
    if k == 'bin':
        return '%s(%s, %s)' % (t[1], t_str(t[2], d), t_str(t[3], d))
    if k == 'un':
        return '%s(%s)' % (t[1], t_str(t[2], d))
    if k == 'discr':
        return 'discr(%s)' % t_str(t[1], d)
    if k == 'closure':
        return 'closure<%s>[%s]' % (short(t[1]), ', '.join(t_str(x, d) for x in t[2]))
    if k == 'call':
        return '%s(' % short(t[1]) + ', '.join(t_str(x, d) for x in t[2]) + ')'
    if k == 'phi':
        return 'phi(bb%s,_%s)' % (t[1], t[2])
    if k == 'ref':
        return '&_%s%s' % (t[1], ''.join('.%s' % (p,) for p in t[2]))
    if k == 'set':
        return '{' + ' | '.join(sorted(t_str(x, d) for x in t[1])) + '}'
    if k == 'mut':
        return 'mut(%s <- %s)' % (t_str(t[1], d), t_str(t[2], d))
    if k == 'elem':
        return 'elem<%s>' % t_str(t[1], d)
    if k == 'count':
        return 'count<%s>' % t_str(t[1], d)
    return str(t)


def children(t):
    k = t[0]
    if k in ('top', 'param', 'const', 'fn', 'phi', 'ref'):
        return ()
    if k == 'tuple':
        return t[1]
    if k == 'variant':
        return t[3]
    if k == 'field':
        return (t[1],)
    if k == 'index':
        return (t[1], t[2])
    if k == 'upd':
        return (t[1], t[3])
    if k == 'bin':
        return (t[2], t[3])
    if k == 'un':
        return (t[2],)
    if k == 'discr':
        return (t[1],)
    if k == 'closure':
        return t[2]
    if k == 'call':
        return t[2]
    if k == 'set':
        return tuple(t[1])
    if k == 'mut':
        return (t[1], t[2])
    if k in ('elem', 'count'):
        return (t[1],)
    return ()


def subterms(t, _seen=None):
    """all sub-terms including t itself (pre-order, deduplicated)"""
    seen = set() if _seen is None else _seen
    out = []
    st = [t]
    while st:
        x = st.pop()
        if x is None or x in seen:
            continue
        seen.add(x)
        out.append(x)
        st.extend(children(x))
    return out


def leaves(t):
    return [x for x in subterms(t) if not children(x)]


def mentions(t, pred):
    return any(pred(x) for x in subterms(t))


def find_calls(t, pred=None):
    """all ('call', ..) sub-terms whose callee satisfies pred(callee)"""
    return [x for x in subterms(t) if x[0] == 'call' and (pred is None or pred(x[1]))]


def alternatives(t):
    """the finite alternatives of a term (a set term expands, anything else is itself)"""
    if t is None:
        return []
    if t[0] == 'set':
        out = []
        for x in t[1]:
            out.extend(alternatives(x))
        return out
    return [t]


def mk_set(items, width=8):
    s = set()
    for x in items:
        if x is None:
            continue
        if x[0] == 'set':
            s |= set(x[1])
        else:
            s.add(x)
    if not s:
        return None
    if TOP in s or len(s) > width:
        return TOP
    if len(s) == 1:
        return next(iter(s))
    return ('set', frozenset(s))


def join(a, b, width=8):
    if a == b:
        return a
    if a is None:
        return b
    if b is None:
        return a
    return mk_set([a, b], width)


def callee_is(term, *suffixes):
    """term is a call whose (generic-stripped) callee path ends with one of the suffixes"""
    if term is None or term[0] != 'call':
        return False
    from .facts import strip_generics
    p = strip_generics(term[1])
    return any(p == s or p.endswith('::' + s) or p.endswith(s) for s in suffixes)


def const_int(t):
    return t is not None and t[0] == 'const' and isinstance(t[1], int)


def some(x):
    return ('variant', 'std::option::Option', 1, (x,), 'Some')


def none():
    return ('variant', 'std::option::Option', 0, (), 'None')


def subst_terms(t, mapping, _memo=None):
    """structural replacement: every sub-term that is a key of `mapping` becomes its value (outermost match first)"""
    if t is None:
        return None
    if _memo is None:
        _memo = {}
    if t in mapping:
        return mapping[t]
    if t in _memo:
        return _memo[t]
    k = t[0]
    s_ = lambda x: subst_terms(x, mapping, _memo)
    if k in ('top', 'param', 'const', 'fn', 'phi', 'ref'):
        r = t
    elif k == 'tuple':
        r = ('tuple', tuple(s_(x) for x in t[1]))
    elif k == 'variant':
        r = ('variant', t[1], t[2], tuple(s_(x) for x in t[3]), t[4])
    elif k == 'field':
        r = ('field', s_(t[1]), t[2], t[3])
    elif k == 'index':
        r = ('index', s_(t[1]), s_(t[2]))
    elif k == 'upd':
        r = ('upd', s_(t[1]), t[2], s_(t[3]))
    elif k == 'bin':
        r = ('bin', t[1], s_(t[2]), s_(t[3]))
    elif k == 'un':
        r = ('un', t[1], s_(t[2]))
    elif k == 'discr':
        r = ('discr', s_(t[1]))
    elif k == 'closure':
        r = ('closure', t[1], tuple(s_(x) for x in t[2]))
    elif k == 'call':
        r = ('call', t[1], tuple(s_(x) for x in t[2]))
    elif k == 'set':
        r = mk_set([s_(x) for x in t[1]], 32)
    elif k == 'mut':
        r = ('mut', s_(t[1]), s_(t[2]))
    elif k in ('elem', 'count'):
        r = (k, s_(t[1]))
    else:
        r = t
    _memo[t] = r
    return r
