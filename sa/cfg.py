"""Control-flow graph helpers over one MIR body (facts.Body)."""
from collections import defaultdict


def term_succs(t, unwind=False):
    """successor edges of a terminator as list of (target, label)"""
    k = t['t']
    out = []
    if k == 'goto':
        out = [(t['target'], 'goto')]
    elif k == 'switch':
        for v, tgt in t['arms']:
            out.append((tgt, ('val', int(v))))
        out.append((t['otherwise'], 'otherwise'))
    elif k in ('drop', 'assert', 'call'):
        if t.get('target') is not None:
            out.append((t['target'], 'ok'))
        if unwind and isinstance(t.get('unwind'), int):
            out.append((t['unwind'], 'unwind'))
    return out


class CFG:
    def __init__(self, body, unwind=False):
        self.body = body
        self.blocks = body.blocks
        self.unwind = unwind
        self.succ = {}
        self.pred = defaultdict(list)
        for bb, b in self.blocks.items():
            ss = []
            for tgt, _ in term_succs(b['term'], unwind):
                if tgt not in ss:
                    ss.append(tgt)
            self.succ[bb] = ss
        for a, ss in self.succ.items():
            for s in ss:
                self.pred[s].append(a)
        self._dom = None
        self._pdom = None
        self._loops = None
        self.returns = [bb for bb, b in self.blocks.items() if b['term']['t'] == 'return']

    # ---------------------------------------------------------------- reachability
    def reach(self, start, avoid=(), succ=None, cut_edges=()):
        succ = succ or self.succ
        seen = set()
        st = list(start) if isinstance(start, (list, set, tuple, frozenset)) else [start]
        cut = set(cut_edges)
        while st:
            n = st.pop()
            if n in seen or n in avoid:
                continue
            seen.add(n)
            for s in succ.get(n, ()):
                if (n, s) in cut:
                    continue
                st.append(s)
        return seen

    def reach_strict(self, start, avoid=(), cut_edges=()):
        """blocks reachable from start by at least one edge"""
        out = set()
        cut = set(cut_edges)
        for s in self.succ.get(start, ()):
            if (start, s) in cut or s in avoid:
                continue
            out |= self.reach(s, avoid=avoid, cut_edges=cut_edges)
        return out

    def path(self, a, targets, avoid=(), cut_edges=()):
        """a shortest path (list of bbs) from a to any of targets, or None"""
        targets = set(targets)
        cut = set(cut_edges)
        prev = {a: None}
        q = [a]
        while q:
            n = q.pop(0)
            if n in targets and (n != a or prev[n] is not None or a in targets):
                p = []
                while n is not None:
                    p.append(n)
                    n = prev[n]
                return p[::-1]
            for s in self.succ.get(n, ()):
                if s in prev or s in avoid or (n, s) in cut:
                    continue
                prev[s] = n
                q.append(s)
        return None

    # ---------------------------------------------------------------- dominance
    def dominators(self, entry=0):
        if self._dom is not None and entry == 0:
            return self._dom
        nodes = self.reach(entry)
        order = self._rpo(entry)
        dom = {n: None for n in nodes}
        dom[entry] = {entry}
        changed = True
        while changed:
            changed = False
            for n in order:
                if n == entry:
                    continue
                ps = [dom[p] for p in self.pred[n] if p in nodes and dom[p] is not None]
                if not ps:
                    continue
                new = set.intersection(*ps) | {n}
                if new != dom[n]:
                    dom[n] = new
                    changed = True
        for n in nodes:
            if dom[n] is None:
                dom[n] = {n}
        if entry == 0:
            self._dom = dom
        return dom

    def _rpo(self, entry=0):
        seen = set()
        post = []
        stack = [(entry, iter(self.succ.get(entry, ())))]
        seen.add(entry)
        while stack:
            n, it = stack[-1]
            adv = False
            for s in it:
                if s not in seen:
                    seen.add(s)
                    stack.append((s, iter(self.succ.get(s, ()))))
                    adv = True
                    break
            if not adv:
                post.append(n)
                stack.pop()
        return post[::-1]

    def dominates(self, a, b):
        d = self.dominators()
        return b in d and a in d[b]

    def postdominators(self):
        """post-dominators w.r.t. `return` exits on this graph (virtual exit = -1)"""
        if self._pdom is not None:
            return self._pdom
        nodes = set(self.blocks)
        exits = set(self.returns)
        # only nodes that can reach a return matter
        can = set()
        st = list(exits)
        while st:
            n = st.pop()
            if n in can:
                continue
            can.add(n)
            st.extend(self.pred[n])
        pdom = {n: set(can) for n in can}
        for e in exits:
            pdom[e] = {e}
        changed = True
        while changed:
            changed = False
            for n in can:
                if n in exits:
                    continue
                ss = [pdom[s] for s in self.succ[n] if s in can]
                new = (set.intersection(*ss) if ss else set()) | {n}
                if new != pdom[n]:
                    pdom[n] = new
                    changed = True
        self._pdom = pdom
        return pdom

    def postdominates(self, a, b):
        """a post-dominates b: every path b -> return passes a (on this graph)."""
        p = self.postdominators()
        return b in p and a in p[b]

    def edge_dominates(self, a, b, target, entry=0):
        """every path entry->target uses edge a->b (remove the edge and test reachability)"""
        return target not in self.reach(entry, cut_edges=[(a, b)])

    def edges_dominate(self, edges, target, entry=0):
        """every path entry->target uses one of the edges"""
        return target not in self.reach(entry, cut_edges=list(edges))

    # ---------------------------------------------------------------- loops
    def back_edges(self):
        dom = self.dominators()
        out = []
        for a, ss in self.succ.items():
            if a not in dom:
                continue
            for s in ss:
                if s in dom[a]:
                    out.append((a, s))
        return out

    def loops(self):
        """header -> set of blocks of the natural loop(s) with that header"""
        if self._loops is not None:
            return self._loops
        loops = {}
        for a, h in self.back_edges():
            body = {h}
            st = [a]
            while st:
                n = st.pop()
                if n in body:
                    continue
                body.add(n)
                st.extend(self.pred[n])
            loops.setdefault(h, set()).update(body)
        self._loops = loops
        return loops

    def loop_exits(self, header):
        body = self.loops()[header]
        out = []
        for n in body:
            for s in self.succ[n]:
                if s not in body:
                    out.append((n, s))
        return out

    def innermost_loop(self, bb):
        best = None
        for h, body in self.loops().items():
            if bb in body and (best is None or len(body) < len(self.loops()[best])):
                best = h
        return best

    # ---------------------------------------------------------------- misc
    def switch_edge(self, bb, value):
        """target of the switch in bb for integer `value` (follows otherwise)"""
        t = self.blocks[bb]['term']
        assert t['t'] == 'switch'
        for v, tgt in t['arms']:
            if int(v) == value:
                return tgt
        return t['otherwise']
