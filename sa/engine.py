"""Rule infrastructure: context, rule outputs, registry, floors."""
import time
from .facts import Facts, short_file, strip_generics
from .opa import Opa
from .callgraph import CallGraph
from .cfg import CFG

RULES = {}          # rule id -> function(ctx) -> RuleOut
RULE_DOC = {}


def rule(rid, doc=''):
    def deco(f):
        RULES[rid] = f
        RULE_DOC[rid] = doc or (f.__doc__ or '').strip().split('\n')[0]
        return f
    return deco


class Finding:
    def __init__(self, rule, key, msg, where='', detail=None, kind='violation'):
        self.rule = rule
        self.key = key              # stable: no line numbers, no block ids
        self.msg = msg
        self.where = where
        self.detail = detail or {}
        self.kind = kind            # 'violation' | 'anchor-missing' | 'undecided'

    def to_json(self):
        return {'rule': self.rule, 'key': self.key, 'msg': self.msg, 'where': self.where, 'kind': self.kind,
                'detail': self.detail}


class RuleOut:
    def __init__(self, rid):
        self.rule = rid
        self.instances = []     # dicts: {'key':..., 'ok': bool, 'nontrivial': bool, 'note': str, 'sample': any}
        self.findings = []
        self.counts = {}
        self.wall_s = 0.0

    def inst(self, key, ok=True, note='', nontrivial=True, sample=None):
        self.instances.append({'key': key, 'ok': ok, 'note': note, 'nontrivial': nontrivial, 'sample': sample})

    def fail(self, key, msg, where='', detail=None, kind='violation'):
        self.findings.append(Finding(self.rule, key, msg, where, detail, kind))

    def count(self, name, n):
        self.counts[name] = n

    def floor(self, name, n, minimum):
        """record a slot-set size and fail closed when it is below the hand-counted floor"""
        self.counts[name] = n
        if n < minimum:
            self.fail('%s/floor/%s' % (self.rule, name),
                      'anchor missing: %s = %d, expected at least %d (the rule would pass vacuously)' % (name, n, minimum),
                      kind='anchor-missing', detail={'slot': name, 'found': n, 'floor': minimum})


class Ctx:
    def __init__(self, facts, tier='quick', fixture=False):
        self.facts = facts
        self.tier = tier
        self.fixture = fixture
        depth, width = (3, 8) if tier == 'quick' else (6, 32)
        self.opa = Opa(facts, inline_depth=depth, width=width)
        self.opa0 = Opa(facts, inline_depth=0, width=width)     # no inlining: calls of crate fns stay visible as terms
        self._opa0_res = {}
        self._cg = None
        self._cfg = {}
        self._slots = None
        self._opa_res = {}
        self.cache = {}

    @property
    def cg(self):
        if self._cg is None:
            self._cg = CallGraph(self.facts)
        return self._cg

    def cfg(self, body, unwind=False):
        k = (body.name, unwind)
        if k not in self._cfg:
            self._cfg[k] = CFG(body, unwind)
        return self._cfg[k]

    @property
    def slots(self):
        if self._slots is None:
            from .slots import Slots
            self._slots = Slots(self)
        return self._slots

    def run(self, name, **kw):
        """memoised default opa run of a body (symbolic params, no seeds)"""
        if kw:
            return self.opa.run(name, **kw)
        if name not in self._opa_res:
            self._opa_res[name] = self.opa.run(name)
        return self._opa_res[name]

    def path_returns(self, name, seeds=None, inlining=False, limit=96):
        """for a small loop-free body: [(returned term, path facts, [blocks of the path])], one entry per CFG path, each analysed
        on its own (the analysis is confined to the blocks of the path) so that every value keeps the guards of its own path -
        joins before the return block otherwise merge the arms of a `match` / `if`.  None when the body has loops or too many paths."""
        key = ('path_returns', name, repr(sorted((seeds or {}).items(), key=str)), inlining)
        if key in self.cache:
            return self.cache[key]
        b = self.facts.bodies[name]
        cfg = self.cfg(b)
        res_ = None
        if not cfg.loops():
            paths = []

            def walk(bb, acc):
                if len(paths) > limit:
                    return
                acc = acc + [bb]
                succs = [s_ for s_ in cfg.succ[bb] if not b.blocks[s_].get('cleanup')]
                if b.blocks[bb]['term']['t'] == 'return' or not succs:
                    if b.blocks[bb]['term']['t'] == 'return':
                        paths.append(acc)
                    return
                for s_ in succs:
                    walk(s_, acc)
            walk(0, [])
            if 0 < len(paths) <= limit:
                res_ = []
                allb = set(b.blocks)
                engine = self.opa if inlining else self.opa0
                for pth in paths:
                    sd = dict(seeds or {})
                    sd['key'] = ('path', name, tuple(pth), sd.get('key'))
                    rr = engine.run(name, seeds=sd, avoid=allb - set(pth))
                    got = [(term, pc) for (_, _), (term, pc) in rr.ret_edges.items()] or [(term, pc) for (_, term, pc) in rr.returns]
                    for term, pc in got:
                        res_.append((term, pc, pth))
        self.cache[key] = res_
        return res_

    def run0(self, name):
        if name not in self._opa0_res:
            self._opa0_res[name] = self.opa0.run(name)
        return self._opa0_res[name]

    def where(self, body, line=None):
        return body.where(line)


import threading
CURRENT = threading.local()      # the Ctx whose rules are running in this thread (for term predicates that need summaries)


def current_ctx():
    return getattr(CURRENT, 'ctx', None)


def run_rules(ctx, rule_ids):
    CURRENT.ctx = ctx
    outs = []
    for rid in rule_ids:
        t0 = time.time()
        f = RULES[rid]
        try:
            out = f(ctx)
        except KeyError as e:
            out = RuleOut(rid)
            out.fail('%s/anchor' % rid, 'anchor missing: %s' % (e,), kind='anchor-missing')
        out.wall_s = time.time() - t0
        outs.append(out)
    return outs


def key_of(body):
    """stable key of a body: generic-stripped def path"""
    return strip_generics(body.name)
