"""Rule slots derived from the program (never from a frozen name list).

RunnerEntries   root fns whose body (or a closure of it) calls std::thread::scope
ParEntries      bodies that directly call a RunnerEntry
Tasks           fns called by the closure passed as the `thread_task` argument of a RunnerEntry call
SeqKernels      crate fns called on the *true* edge of a `Params::is_sequential()` switch
Par methods     transformations / setters / terminals of the `Par` trait, by signature
"""
from .facts import strip_generics, callee_of
from .terms import subterms, alternatives
from .lib import is_coniter_call, is_buffered_next

PAR_TRAIT = 'par_iter::Par'
THREAD_SCOPE = 'std::thread::scope'
SCOPE_SPAWN = 'std::thread::Scope::spawn'
IS_SEQ = 'params::Params::is_sequential'

TRANSFORM_NAMES = ('map', 'flat_map', 'filter', 'filter_map')
SETTER_NAMES = ('num_threads', 'chunk_size')


def sg(path):
    return strip_generics(path or '')


class Slots:
    def __init__(self, ctx):
        self.ctx = ctx
        F = ctx.facts
        self.F = F
        # ---- runner entries
        self.runner_entries = []
        self.scope_closures = {}      # runner entry name -> closure body name passed to thread::scope
        for b in F.fn_bodies():
            for bb, t in b.calls():
                if sg(callee_of(t)) == THREAD_SCOPE:
                    root = F.root_of(b)
                    if root.name not in self.runner_entries:
                        self.runner_entries.append(root.name)
                    r = ctx.run(b.name)
                    c = r.calls.get(bb)
                    if c and c['args'] and c['args'][0][0] == 'closure':
                        self.scope_closures[root.name] = c['args'][0][1]
        # ---- par entries and runner call sites
        self.runner_call_sites = []   # (body name, bb, runner entry)
        for b in F.fn_bodies():
            for bb, t in b.calls():
                if callee_of(t) in self.runner_entries:
                    self.runner_call_sites.append((b.name, bb, callee_of(t)))
        self.par_entries = sorted({x[0] for x in self.runner_call_sites})
        # ---- tasks: what the thread_task closure calls
        self.task_of_site = {}        # (body, bb) -> (task closure name, [task fn names])
        self.tasks = []
        self.task_parent = {}         # helper task -> (dispatcher, call block in the dispatcher)
        self.dispatchers = []
        for (bn, bb, entry) in self.runner_call_sites:
            r = ctx.run(bn)
            c = r.calls.get(bb)
            clo = None
            if c:
                eb = F.bodies[entry]
                # the thread_task parameter: the argument whose parameter type carries an Fn(usize) bound
                idx = self.thread_task_param(eb)
                if idx is not None and idx < len(c['args']) and c['args'][idx][0] == 'closure':
                    clo = c['args'][idx][1]
            def task_fns(clo_):
                fns_ = []
                if clo_ and clo_ in F.bodies:
                    for _, t in F.bodies[clo_].calls():
                        cal = callee_of(t)
                        if t.get('local') and cal in F.bodies:
                            fns_.append(cal)
                return self.expand_dispatchers(ctx, fns_)
            fns = task_fns(clo)
            if clo is None and c and idx is not None and idx < len(c['args']) and bn not in self.runner_entries:
                # a wrapper around the runner (`fn run_and_append(params, iter, thread_task, output) { let v = Runner::run_map(.., thread_task); .. }`):
                # the task closures are the literals its callers hand to that parameter
                a = c['args'][idx]
                while a is not None and a[0] in ('ref', 'mut'):
                    a = a[1]
                hb = F.bodies[bn]
                pnames = [hb.local_name(l) for l in hb.arg_locals()]
                if a is not None and a[0] == 'param' and a[1] in pnames and not hb.is_closure():
                    pi = pnames.index(a[1])
                    lifted = []
                    for cb2 in F.bodies.values():
                        for cbb2, t2 in cb2.calls():
                            if callee_of(t2) != bn:
                                continue
                            c2 = ctx.run(cb2.name).calls.get(cbb2)
                            a2 = c2['args'][pi] if c2 is not None and pi < len(c2['args']) else None
                            while a2 is not None and a2[0] in ('ref', 'mut'):
                                a2 = a2[1]
                            if a2 is not None and a2[0] == 'closure' and a2[1] in F.bodies:
                                f2 = task_fns(a2[1])
                                self.task_of_site[(cb2.name, cbb2)] = (a2[1], f2)
                                lifted.extend(f2)
                            else:
                                lifted = None
                                break
                        if lifted is None:
                            break
                    if lifted:
                        clo = '<wrapper>'
                        fns = list(dict.fromkeys(lifted))
                        self.runner_wrappers = getattr(self, 'runner_wrappers', []) + [bn]
            self.task_of_site[(bn, bb)] = (clo, fns)
            for f in fns:
                if f not in self.tasks:
                    self.tasks.append(f)
        # ---- is_sequential switches
        self.seq_switches = []        # (body name, call bb, switch bb, true target, false target)
        self.seq_kernels = []
        self.seq_inline = []          # bodies whose sequential-only route does the sequential work inline
        for b in F.fn_bodies():
            for bb, t in b.calls():
                if sg(callee_of(t)) == IS_SEQ:
                    sw = self.switch_on_call_result(b, bb, t)
                    if sw is None:
                        # the result is stored / negated first (`let is_parallel = !params.is_sequential(); if is_parallel ..`):
                        # find the switch whose scrutinee term is the call's value under an even / odd number of negations
                        r = ctx.run0(b.name)
                        c = r.calls.get(bb)
                        for sbb2, (d, tg) in (r.switches.items() if c is not None else ()):
                            neg = False
                            x = d
                            while x is not None and x[0] == 'un' and x[1] == 'Not':
                                neg = not neg
                                x = x[2]
                            if x == c['res'] and len(tg) > 1:
                                t1, t0 = r.switch_target(sbb2, 1), r.switch_target(sbb2, 0)
                                sw = (sbb2, t0, t1) if neg else (sbb2, t1, t0)
                                break
                    if sw is None:
                        continue
                    sbb, tt, ft = sw
                    self.seq_switches.append((b.name, bb, sbb, tt, ft))
                    cfg = ctx.cfg(b)
                    true_only = cfg.reach(tt) - cfg.reach(ft)
                    # calls on the sequential-only route, and calls inside the closures that are built there
                    # (`filled_by(self, |vec| seq_kernel(iter, map, filter, vec))`)
                    seq_calls = [b.blocks[x]['term'] for x in sorted(true_only)]
                    for x in sorted(true_only):
                        for st in b.blocks[x].get('stmts', []):
                            rv = st.get('rv') or {}
                            if rv.get('r') == 'agg' and rv.get('ak') == 'closure' and rv.get('def') in F.bodies:
                                seq_calls.extend(t_ for _, t_ in F.bodies[rv['def']].calls())
                    for tx in seq_calls:
                        if tx['t'] == 'call' and tx.get('local') and callee_of(tx) in F.bodies:
                            k = callee_of(tx)
                            # a sequential kernel is where the concurrent iterator is turned back into its sequential iterator;
                            # accessors on the sequential route (`destruct`) are not kernels
                            if k not in self.seq_kernels and not F.bodies[k].d.get('impl_trait') and \
                                    (self._reaches_seq_iter(k) or self._receives_iterator(b, tx, F.bodies[k])):
                                self.seq_kernels.append(k)
                    # the sequential work may also be written inline on the sequential-only route of this body
                    if any(b.blocks[x]['term']['t'] == 'call' and is_coniter_call(b.blocks[x]['term'], {'into_seq_iter'}) for x in true_only):
                        if b.name not in self.seq_inline:
                            self.seq_inline.append(b.name)
        # a sequential kernel that hands the iterator on to a crate helper (`seq_for_each_kept(iter, map, filter, |x| out.push(x))`):
        # the helper that calls into_seq_iter is the kernel
        self.seq_delegates = []
        changed = True
        rounds = 0
        while changed and rounds < 3:
            changed = False
            rounds += 1
            for k in list(self.seq_kernels):
                kb = F.bodies[k]
                direct = any(is_coniter_call(t, {'into_seq_iter'}) for bd in [kb] + F.closures_in(kb) for _, t in bd.calls())
                if direct:
                    continue
                subs = [callee_of(t) for _, t in kb.calls() if t.get('local') and callee_of(t) in F.bodies and self._reaches_seq_iter(callee_of(t))]
                if subs:
                    self.seq_kernels.remove(k)
                    self.seq_delegates.append(k)
                    for sname in subs:
                        if sname not in self.seq_kernels:
                            self.seq_kernels.append(sname)
                    changed = True
        # ---- Par methods
        self.par_impl_types = sorted({b.d['impl_self'] for b in F.bodies.values() if b.d.get('impl_trait') == PAR_TRAIT})
        self.par_methods = {}     # name -> body (impl methods and provided methods)
        for b in F.bodies.values():
            if b.kind != 'AssocFn':
                continue
            if b.d.get('impl_trait') == PAR_TRAIT or b.d.get('trait_default') == PAR_TRAIT:
                self.par_methods[b.name] = b
        self.setters, self.transformations, self.terminals, self.observers = [], [], [], []
        for n, b in sorted(self.par_methods.items()):
            m = b.d['method']
            if m == 'params':
                self.observers.append(n)
            elif self.returns_par(b):
                (self.setters if m in SETTER_NAMES else self.transformations).append(n)
            else:
                self.terminals.append(n)
        # inherent terminals (find_with_index & co) and constructors/conversions
        self.inherent_terminals = []
        self.inherent_helpers = []
        self.inherent_transformations = []
        self.constructors = []
        self.sources = []     # par()/into_par()/cloned()/copied()
        for b in F.bodies.values():
            if b.kind != 'AssocFn' or b.name in self.par_methods:
                continue
            st = b.d.get('impl_self')
            m = b.d.get('method')
            if st in self.par_impl_types and not b.d.get('impl_trait'):
                has_self = bool(b.arg_locals()) and b.local_name(b.arg_locals()[0]) == 'self'
                if m == 'new' or (not has_self and self.returns_par(b) and b.d.get('ret_head') == st):
                    # `new` and other associated functions without a receiver that return Self (`with_params(iter, params)`)
                    self.constructors.append(b.name)
                elif m.startswith('destruct') or m in ('iter_len',):
                    pass
                elif not self.returns_par(b):
                    # what a user can call is a terminal; private / crate-visible helpers (`destruct`, `compose`, `into_seq`) are plumbing
                    if b.d.get('vis_pub'):
                        self.inherent_terminals.append(b.name)
                    else:
                        self.inherent_helpers.append(b.name)
                elif b.arg_locals() and b.local_name(b.arg_locals()[0]) == 'self':
                    # an inherent method that turns one computation into another: a transformation like those of the trait
                    self.transformations.append(b.name)
                    self.inherent_transformations.append(b.name)
            elif self.returns_par(b) and (b.d.get('impl_trait') or b.d.get('trait_default')):
                self.sources.append(b.name)

    # ------------------------------------------------------------------
    def _reaches_seq_iter(self, name, depth=0):
        F = self.ctx.facts
        b = F.bodies.get(name)
        if b is None or depth > 2:
            return False
        for bd in [b] + F.closures_in(b):
            for _, t in bd.calls():
                if is_coniter_call(t, {'into_seq_iter'}):
                    return True
                if t.get('local') and callee_of(t) in F.bodies and depth < 2 and self._reaches_seq_iter(callee_of(t), depth + 1):
                    return True
        return False

    def _receives_iterator(self, host, t, callee):
        """does the call hand the concurrent iterator (a value whose type is an `I: ConcurrentIter(X)` parameter, by value or by
        reference) to the callee: then the callee does the work of the sequential route, whatever it calls"""
        for l in callee.arg_locals():
            h = callee.locals[l]['head']
            while h.startswith('ref:'):
                h = h[4:]
            ty = callee.locals[l]['ty']
            if h.startswith('param:') and not ty.lstrip('&').strip() in callee.fn_bounds() and 'Params' not in ty:
                # a type parameter that is not a closure: the iterator (I) - element / output types never appear as bare parameters
                nm = (callee.local_name(l) or '')
                tp = h[6:]
                # ... and is used as a concurrent iterator somewhere in the signature or the body (`<I as ConcurrentIterX>::Item`)
                probe = '<%s as orx_concurrent_iter::' % tp
                used = any(probe in (fb.get('inputs') or '') or probe in (fb.get('output') or '') for fb in callee.fn_bounds().values()) or \
                    any(probe in (lc.get('ty') or '') for lc in callee.locals.values()) or probe in (callee.d.get('ret_ty') or '')
                if nm in ('iter', 'con_iter', 'source') or (tp in ('I', 'Iter', 'C') and used):
                    return True
        return False

    def expand_dispatchers(self, ctx, fns, depth=0):
        """a task that only dispatches (`if chunk_size == 1 { one_by_one(iter, ..) } else { in_chunks(iter, .., c) }`) is replaced
        by the functions it dispatches to: those hold the pull loops the task rules are about.  A dispatcher is loop-free, makes no
        call on the concurrent iterator itself, and returns on every path the value of a crate function that received its iterator."""
        F = self.ctx.facts
        out = []
        for f in fns:
            b = F.bodies[f]
            cfg = ctx.cfg(b)
            if depth > 2 or cfg.loops() or not b.arg_locals():
                out.append(f)
                continue
            own = [t for _, t in b.calls() if is_coniter_call(t) or is_buffered_next(t)]
            if own or F.closures_in(b):
                out.append(f)
                continue
            r = ctx.run0(f)
            it = ('param', b.local_name(b.arg_locals()[0]) or '_1')
            alts = [a for a in alternatives(r.ret)] if r.ret is not None else []
            helpers = []
            ok = bool(alts)
            for a in alts:
                if a[0] == 'call' and a[1] in F.bodies and it in a[2]:
                    helpers.append(a[1])
                else:
                    ok = False
            if not ok:
                out.append(f)
                continue
            sites = {}
            for bb, c in r.calls.items():
                if c['res'] in alts:
                    sites[c['res'][1]] = (bb, c)
            for h in dict.fromkeys(helpers):
                self.task_parent[h] = (f, sites.get(h, (None, None))[0])
            self.dispatchers.append(f)
            out.extend(self.expand_dispatchers(ctx, list(dict.fromkeys(helpers)), depth + 1))
        return out

    def returns_par(self, b):
        rh = b.d.get('ret_head', '')
        if rh.startswith('adt:') and rh in self.par_impl_types:
            return True
        if rh.startswith('alias:') and 'Par' in b.d.get('ret_ty', ''):
            # opaque `impl Par<Item = ..>`
            return 'impl ' in b.d.get('ret_ty', '') and 'Par<' in b.d.get('ret_ty', '')
        return False

    def thread_task_param(self, entry_body):
        """index (0-based among arguments) of the parameter whose type parameter has an `Fn(usize)` bound
        and which is what spawned closures call"""
        fb = entry_body.fn_bounds()
        for i, l in enumerate(entry_body.arg_locals()):
            ty = entry_body.locals[l]['ty']
            base = ty.lstrip('&').strip()
            if base in fb and fb[base]['inputs'] == '(usize,)':
                return i
        return None

    def switch_on_call_result(self, b, bb, t):
        """the SwitchInt whose scrutinee is (a copy of) the call's destination: (switch bb, true tgt, false tgt)"""
        dest = t['dest']['l']
        cur = t.get('target')
        holders = {dest}
        hops = 0
        while cur is not None and hops < 6:
            blk = b.blocks[cur]
            for st in blk['stmts']:
                rv = st['rv']
                if rv['r'] == 'use' and rv['o']['k'] in ('copy', 'move') and rv['o']['pl']['l'] in holders and not rv['o']['pl']['p']:
                    holders.add(st['lhs']['l'])
            tt = blk['term']
            if tt['t'] == 'switch' and tt['discr']['k'] in ('copy', 'move') and tt['discr']['pl']['l'] in holders:
                false_t = None
                true_t = None
                for v, tgt in tt['arms']:
                    if int(v) == 0:
                        false_t = tgt
                    if int(v) == 1:
                        true_t = tgt
                if false_t is None:
                    false_t = tt['otherwise']
                if true_t is None:
                    true_t = tt['otherwise']
                return cur, true_t, false_t
            if tt['t'] == 'goto':
                cur = tt['target']
                hops += 1
                continue
            break
        return None
