"""Run the orxfacts driver over a crate and give access to the extracted MIR facts.

Everything here is *extraction and lookup*; no property is decided in this file.
"""
import json, os, re, shutil, subprocess, sys, tempfile, time

VERIF = os.path.dirname(os.path.dirname(os.path.abspath(__file__)))
DRIVER_DIR = os.path.join(VERIF, 'driver')
DRIVER = os.path.join(DRIVER_DIR, 'target', 'release', 'orxfacts')


class CheckerFault(Exception):
    """The checker itself is broken (driver missing, facts missing, fixture control did not fire)."""


def _env_offline(extra=None):
    env = dict(os.environ)
    env['CARGO_NET_OFFLINE'] = 'true'
    env.pop('RUSTC_WRAPPER', None)
    if extra:
        env.update(extra)
    return env


def ensure_driver():
    src = os.path.join(DRIVER_DIR, 'src', 'main.rs')
    if os.path.exists(DRIVER) and os.path.getmtime(DRIVER) >= os.path.getmtime(src):
        return
    r = subprocess.run(['cargo', 'build', '--release', '--offline'], cwd=DRIVER_DIR, env=_env_offline(),
                       stdout=subprocess.PIPE, stderr=subprocess.STDOUT, text=True)
    if r.returncode != 0 or not os.path.exists(DRIVER):
        raise CheckerFault('driver build failed:\n' + r.stdout[-3000:])


_SYSROOT = None


def nightly_sysroot():
    global _SYSROOT
    if _SYSROOT is None:
        _SYSROOT = subprocess.run(['rustc', '+nightly', '--print', 'sysroot'], stdout=subprocess.PIPE, text=True,
                                  env=_env_offline()).stdout.strip()
    return _SYSROOT


def run_driver(crate_dir, crate_name, release=False, timeout=600):
    """cargo +nightly check under the driver in a fresh target dir; returns the parsed fact dict.

    A fresh CARGO_TARGET_DIR is used on every call (cargo's freshness cache would otherwise skip the
    wrapper), the fact file is removed before and asserted after, and both are removed at exit."""
    ensure_driver()
    tdir = tempfile.mkdtemp(prefix='orxfacts-target-')
    out = os.path.join(tdir, 'facts.json')
    try:
        env = _env_offline({
            'LD_LIBRARY_PATH': os.path.join(nightly_sysroot(), 'lib') + ':' + os.environ.get('LD_LIBRARY_PATH', ''),
            'RUSTFLAGS': '-Zmir-opt-level=0 -Awarnings',
            'RUSTC_WORKSPACE_WRAPPER': DRIVER,
            'CARGO_TARGET_DIR': tdir,
            'ORXFACTS_OUT': out,
            'ORXFACTS_CRATE': crate_name,
        })
        cmd = ['cargo', '+nightly', 'check', '--offline', '--lib']
        if release:
            cmd.append('--release')
        t0 = time.time()
        r = subprocess.run(cmd, cwd=crate_dir, env=env, stdout=subprocess.PIPE, stderr=subprocess.STDOUT, text=True,
                           timeout=timeout)
        if r.returncode != 0:
            raise CompileError(r.stdout[-4000:])
        if not os.path.exists(out):
            raise CheckerFault('driver produced no fact file for %s (cargo said: %s)' % (crate_dir, r.stdout[-800:]))
        with open(out) as f:
            d = json.load(f)
        if d.get('crate') != crate_name:
            raise CheckerFault('fact file is for crate %r, expected %r' % (d.get('crate'), crate_name))
        d['_wall_s'] = time.time() - t0
        d['_dir'] = crate_dir
        d['_profile'] = 'release' if release else 'dev'
        return d
    finally:
        shutil.rmtree(tdir, ignore_errors=True)


class CompileError(Exception):
    pass


# ------------------------------------------------------------------------------------------------

def strip_generics(s):
    """`par::par_fil::ParFilter::<I, F>::new` -> `par::par_fil::ParFilter::new` (balanced <> removal,
    keeping `<T as Trait>::m` heads readable: `<ParFilter as Par>::m`)."""
    out = []
    depth = 0
    i = 0
    # keep a leading '<' of a qualified path
    lead = s.startswith('<')
    while i < len(s):
        c = s[i]
        if c == '<':
            if lead and i == 0:
                out.append(c)
            else:
                depth += 1
        elif c == '>':
            if depth > 0:
                depth -= 1
            else:
                out.append(c)
        elif depth == 0:
            out.append(c)
        i += 1
    r = ''.join(out).replace('::::', '::')
    r = re.sub(r'::\s*$', '', r)
    return r


class Body:
    __slots__ = ('d', 'name', 'kind', 'blocks', 'locals', 'argc', 'file', 'line', 'end', 'parent', 'key')

    def __init__(self, d):
        self.d = d
        self.name = d['name']
        self.kind = d['kind']
        self.blocks = {b['bb']: b for b in d['blocks']}
        self.locals = {l['i']: l for l in d['locals']}
        self.argc = d['argc']
        self.file = d['file']
        self.line = d['line']
        self.end = d['end']
        self.parent = d.get('parent')
        self.key = strip_generics(self.name)

    # ---- convenience
    def calls(self):
        for bb, b in self.blocks.items():
            t = b['term']
            if t['t'] == 'call':
                yield bb, t

    def local_name(self, i):
        return self.locals[i].get('name')

    def arg_locals(self):
        return list(range(1, self.argc + 1))

    def where(self, line=None):
        return '%s:%s' % (short_file(self.file), line if line is not None else self.line)

    def fn_bounds(self):
        return {fb['param']: fb for fb in self.d.get('fn_bounds', [])}

    def is_closure(self):
        return self.kind == 'Closure'

    def short(self):
        return self.key


def short_file(f):
    i = f.rfind('src/')
    return f[i:] if i >= 0 else f


def callee_of(t):
    """best callee path of a call terminator: the resolved instance if rustc could resolve it"""
    return t.get('resolved') or t.get('callee') or '?'


def declared_of(t):
    return t.get('callee') or '?'


class Facts:
    def __init__(self, d):
        self.raw = d
        self.bodies = {}
        for b in d['bodies']:
            self.bodies[b['name']] = Body(b)
        self.impls = d.get('impls', [])
        self.opts = d.get('opts', {})
        self.dir = d.get('_dir')
        self.profile = d.get('_profile', 'dev')
        self.adts = {a['path']: a for a in d.get('adts', [])}
        self.children = {}
        for b in self.bodies.values():
            if b.parent:
                self.children.setdefault(b.parent, []).append(b.name)
        self._by_key = {}
        for b in self.bodies.values():
            self._by_key.setdefault(b.key, []).append(b)

    # ---- ADT tables
    def field_index(self, adt, field, variant=0):
        a = self.adts.get(adt)
        if a is None:
            raise KeyError('adt %s not in facts' % adt)
        for i, f in enumerate(a['variants'][variant]['fields']):
            if f['name'] == field:
                return i
        raise KeyError('adt %s has no field %s' % (adt, field))

    def variant_index(self, adt, name):
        a = self.adts.get(adt)
        if a is None:
            raise KeyError('adt %s not in facts' % adt)
        for i, v in enumerate(a['variants']):
            if v['name'] == name:
                return i
        raise KeyError('adt %s has no variant %s' % (adt, name))

    def discr_of(self, adt, vidx):
        a = self.adts.get(adt)
        if a is None or vidx >= len(a['variants']):
            return vidx
        return int(a['variants'][vidx].get('discr', vidx))

    def variant_of_discr(self, adt, val):
        a = self.adts.get(adt)
        if a is None:
            return None
        for i, v in enumerate(a['variants']):
            if int(v.get('discr', i)) == val:
                return i
        return None

    def fn_bodies(self):
        return [b for b in self.bodies.values() if b.kind in ('Fn', 'AssocFn', 'Closure')]

    def get(self, name):
        return self.bodies.get(name)

    def by_suffix(self, suffix):
        return [b for b in self.bodies.values() if b.key.endswith(suffix)]

    def one(self, suffix):
        r = self.by_suffix(suffix)
        if len(r) != 1:
            raise KeyError('expected exactly one body with suffix %r, found %d' % (suffix, len(r)))
        return r[0]

    def root_of(self, body):
        """the enclosing fn of a (nested) closure"""
        while body.parent and body.parent in self.bodies:
            body = self.bodies[body.parent]
        return body

    def closures_in(self, body, recursive=True):
        out = []
        for c in self.children.get(body.name, []):
            cb = self.bodies[c]
            out.append(cb)
            if recursive:
                out.extend(self.closures_in(cb, True))
        return out

    def cargo_toml(self):
        p = os.path.join(self.dir, 'Cargo.toml')
        return open(p).read() if os.path.exists(p) else ''


def load_facts(path):
    with open(path) as f:
        return Facts(json.load(f))
