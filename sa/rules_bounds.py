"""C15: panic-site obligations of the parameter-resolution slice (build step 4).

Every panic site (overflow / division `Assert` terminators, expect / unwrap / panic calls) of the slice is
enumerated from the MIR and must be *discharged* by one of:
  guard        the path facts at the site imply the assertion (a dominating `!= 0` arm, ...)
  invariant    a struct-field invariant proved at the sole constructor (C15-CLAMP)
  lemma        an arithmetic shape lemma on the operand terms
  bound        interval arithmetic on upper bounds of the operands under the stated assumptions A1/A2
  independent  the site does not depend on Params / input length / spawn counters at all
Anything else is a violation naming the function, the operation and the unbounded operand."""
from .engine import rule, RuleOut, key_of
from .facts import strip_generics, callee_of
from .lib import *
from .terms import *
from .terms import TOP
from .items import callee as tcallee
from .rules_flow import P, RUNNER, RESOLVED, CHUNK_SIZE, NUM_THREADS, PARAMS
from . import lin
import re

USIZE_MAX = (1 << 64) - 1
A2_THREADS = 1 << 20          # A2: available_parallelism() <= 2^20
A2_LEN = (1 << 63) - 1        # A2: collection lengths <= isize::MAX

SLICE_FILES = ('src/chunk_size.rs', 'src/num_threads.rs', 'src/params.rs', 'src/core/runner_settings/', 'src/core/runner.rs',
               'src/par/collect_into/')


def in_slice(b):
    return any(s in b.file for s in SLICE_FILES) and not b.d.get('derived')


def method_of(t):
    return tcallee(t).split('::')[-1]


class Bounds:
    def __init__(self, ctx):
        self.ctx = ctx
        self.F = ctx.facts
        self._ub_param = {}
        self._lb_fn = {}
        self._stack = set()

    # ------------------------------------------------------------------ call sites of a function
    def call_sites(self, name):
        outl = []
        for b in self.F.fn_bodies():
            r = None
            for bb, t in b.calls():
                if callee_of(t) == name:
                    r = r or self.ctx.run0(b.name)
                    c = r.calls.get(bb)
                    if c is not None:
                        outl.append((b, r, c))
        return outl

    # ------------------------------------------------------------------ upper bounds
    def ub(self, t, b, r, depth=0):
        """an integer upper bound of a usize-valued term under A1/A2, or None (unbounded = may be usize::MAX)"""
        if t is None or depth > 40:
            return None
        k = t[0]
        if k == 'const':
            if getattr(self, 'strict', False) and isinstance(t[1], int) and t[1] > (1 << 48):
                return None
            return t[1] if isinstance(t[1], int) else None
        if k == 'set':
            bs = [self.ub(x, b, r, depth + 1) for x in t[1]]
            return None if any(x is None for x in bs) else max(bs)
        if k == 'bin':
            op = t[1]
            if op in ('Gt', 'Lt', 'Ge', 'Le', 'Eq', 'Ne'):
                return 1        # a comparison used as an integer (usize::from(bool), `as usize`): false = 0, true = 1
            a, c = self.ub(t[2], b, r, depth + 1), self.ub(t[3], b, r, depth + 1)
            if op in ('Div', 'Sub', 'Rem'):
                return a if op != 'Rem' else (c if c is not None else a)
            if op == 'Shr':
                return a >> t[3][1] if a is not None and const_int(t[3]) else a
            if a is None or c is None:
                return None
            if op == 'Add':
                return a + c
            if op == 'Mul':
                return a * c
            if op == 'Shl' and const_int(t[3]):
                return a << t[3][1]
            return None
        if k == 'call':
            m = method_of(t)
            c = tcallee(t)
            if c in ('std::cmp::Ord::min', 'std::cmp::min'):
                bs = [self.ub(x, b, r, depth + 1) for x in t[2]]
                bs = [x for x in bs if x is not None]
                return min(bs) if bs else None
            if c in ('std::cmp::Ord::max', 'std::cmp::max'):
                bs = [self.ub(x, b, r, depth + 1) for x in t[2]]
                return None if any(x is None for x in bs) else max(bs)
            if c == 'std::option::Option::unwrap_or':
                a = self.ub(('field', t[2][0], 1, 0), b, r, depth + 1)
                d = self.ub(t[2][1], b, r, depth + 1)
                return None if a is None or d is None else max(a, d)
            if m in ('saturating_mul', 'saturating_add', 'wrapping_add', 'wrapping_mul'):
                if getattr(self, 'strict', False):
                    # "bounded by the data": the clamp at usize::MAX is no bound at all
                    bs = [self.ub(x, b, r, depth + 1) for x in t[2]]
                    if any(x is None for x in bs) or len(bs) != 2:
                        return None
                    return bs[0] * bs[1] if 'mul' in m else bs[0] + bs[1]
                return USIZE_MAX
            if m in ('len', 'try_get_len') or c == 'len':
                return A2_LEN
            if t[1] in self.F.bodies and self.F.bodies[t[1]].is_closure():
                if t[2] and t[2][0][0] == 'closure':
                    # a crate closure applied to known arguments: its value in the terms of the enclosing function
                    rr = self.ctx.opa.run(t[1], list(t[2]))
                    if rr.ret is not None and rr.ret != TOP and rr.ret != t:
                        return self.ub(rr.ret, b, r, depth + 1)
                return None
            if t[1] in self.F.bodies:
                return self.ub_fn(t[1], depth + 1)
            return None
        if k == 'field':
            base = t[1]
            # available_parallelism().Ok.0  (A2)
            if base[0] == 'field' and base[1][0] == 'call' and method_of(base[1]) == 'available_parallelism':
                return A2_THREADS
            if base[0] == 'param' and base[1] == 'available_threads':
                return A2_THREADS
            # payload of an Option<usize> length: try_get_len() / input_len  (A2)
            if t[2] == 1 and t[3] == 0 and ((base[0] == 'param' and 'len' in base[1]) or (base[0] == 'call' and method_of(base) in ('try_get_len',))
                                             or (base[0] == 'field' and self.field_name(base) == 'input_len')):
                return A2_LEN
            if t[2] == 1 and t[3] == 0 and base[0] == 'call' and base[1] in self.F.bodies:
                rr = self.ctx.run0(base[1])
                return self.ub(('field', rr.ret, 1, 0), self.F.bodies[base[1]], rr, depth + 1)
            # has_more = Yes(remaining_len)  (A1: <= input length)
            if base[0] in ('param', 'call') and t[2] == 0 and ('has_more' in t_str(base)):
                return A2_LEN
            # Runner fields
            fn = self.field_name(t)
            if fn == 'max_num_threads':
                return A2_THREADS
            return None
        if k == 'param':
            return self.ub_param(b, t[1], depth + 1)
        if k == 'phi':
            kk = (t[1], t[2])
            # the spawn counter: handed to do_spawn() as the number of spawned workers, incremented by one per guarded
            # spawn (C08-SPAWN / C08-GUARD): it stays below max_num_threads
            if self.is_spawn_counter(t, b, r):
                return A2_THREADS
            init = self.ub(r.init.get(kk), b, r, depth + 1)
            if init is None:
                return None
            cur = init
            for _ in range(3):
                nxt = cur
                for rec in r.recur.get(kk, ()):
                    v = self.ub(self.subst(rec, t, ('const', cur)), b, r, depth + 1)
                    if v is None:
                        return None
                    nxt = max(nxt, v)
                if nxt == cur:
                    return cur
                cur = nxt
            return None
        if k == 'mut':
            return None
        return None

    def is_spawn_counter(self, t, b, r):
        def phis_of(x, seen):
            outp = set()
            st = [x]
            while st:
                y = st.pop()
                if y is None or y in seen:
                    continue
                seen.add(y)
                if y[0] == 'phi':
                    outp.add(y)
                    st.append(r.init.get((y[1], y[2])))
                    st.extend(r.recur.get((y[1], y[2]), ()))
                elif y[0] == 'set':
                    st.extend(y[1])
                elif y[0] == 'bin' and y[1] == 'Add' and y[3] == ('const', 1):
                    st.append(y[2])
            return outp
        fam = phis_of(t, set())
        for bb, c in r.calls.items():
            if sg(c['callee']).endswith('::do_spawn') and len(c['args']) > 1 and c['args'][1] in fam:
                # every member only ever changes by +1 from 0
                for p in fam:
                    iv = r.init.get((p[1], p[2]))
                    for alt in alternatives(iv):
                        if not (alt == ('const', 0) or alt in fam):
                            return False
                    for rec in r.recur.get((p[1], p[2]), ()):
                        for alt in alternatives(rec):
                            if not (alt in fam or (alt[0] == 'bin' and alt[1] == 'Add' and alt[2] in fam and alt[3] == ('const', 1))):
                                return False
                return True
        return False

    def subst(self, t, old, new):
        if t == old:
            return new
        k = t[0]
        if k == 'bin':
            return ('bin', t[1], self.subst(t[2], old, new), self.subst(t[3], old, new))
        if k == 'set':
            return ('set', frozenset(self.subst(x, old, new) for x in t[1]))
        if k == 'call':
            return ('call', t[1], tuple(self.subst(x, old, new) for x in t[2]))
        return t

    def field_name(self, t):
        if t[0] != 'field':
            return None
        info = self.ctx.opa0.field_info.get(t) or self.ctx.opa.field_info.get(t)
        return info[0] if info else None

    def ub_param(self, b, pname, depth=0):
        key = (b.name, pname)
        if key in self._ub_param:
            return self._ub_param[key]
        if key in self._stack or depth > 40:
            return None
        self._stack.add(key)
        try:
            idx = None
            for i, l in enumerate(b.arg_locals()):
                if (b.local_name(l) or '_%d' % l) == pname:
                    idx = i
                    ty = b.locals[l]['ty']
            if idx is None:
                res_ = None
            elif pname in ('remaining_len',):
                res_ = A2_LEN
            else:
                sites = self.call_sites(b.name)
                if not sites:
                    res_ = None
                else:
                    vals = [self.ub(c['args'][idx], cb, cr, depth + 1) for (cb, cr, c) in sites]
                    res_ = None if any(v is None for v in vals) else max(vals)
            self._ub_param[key] = res_
            return res_
        finally:
            self._stack.discard(key)

    def ub_fn(self, name, depth=0):
        b = self.F.bodies[name]
        r = self.ctx.run0(name)
        return self.ub(r.ret, b, r, depth + 1)

    # ------------------------------------------------------------------ lower bound >= 1
    def lb1(self, t, b, r, pc=frozenset(), depth=0):
        """is the usize-valued term provably >= 1"""
        if t is None or depth > 40:
            return False
        for (pt, f) in pc:
            if pt == t and ((f[0] == 'ne' and 0 in f[1]) or (f[0] == 'eq' and isinstance(f[1], int) and f[1] >= 1)):
                return True
            # Gt(t, 0) true / Eq(t, 0) false
            if pt[0] == 'bin' and pt[2] == t and pt[3] == ('const', 0):
                tv = lin.fact_truth(f)
                if (pt[1] == 'Gt' and tv is True) or (pt[1] == 'Eq' and tv is False) or (pt[1] == 'Ne' and tv is True):
                    return True
        k = t[0]
        if k == 'const':
            return isinstance(t[1], int) and t[1] >= 1
        # the very value the constructor stores in Runner.max_num_threads (proved >= 1 by case analysis in C15-CLAMP)
        if self.invariant_max() and t in self.ctx.cache.get('I-max-terms', ()):
            return True
        if k == 'set':
            return all(self.lb1(x, b, r, pc, depth + 1) for x in t[1])
        if k == 'param':
            for l in b.arg_locals():
                if (b.local_name(l) or '_%d' % l) == t[1]:
                    if 'NonZero<usize>' in b.locals[l]['ty']:
                        return True
            sites = self.call_sites(b.name)
            if not sites or depth > 12:
                return False
            idx = [i for i, l in enumerate(b.arg_locals()) if (b.local_name(l) or '_%d' % l) == t[1]]
            if not idx:
                return False
            return all(self.lb1(c['args'][idx[0]], cb, cr, c['pc'], depth + 1) for (cb, cr, c) in sites)
        if k == 'field':
            info = self.ctx.opa0.field_info.get(t) or self.ctx.opa.field_info.get(t)
            if info and 'NonZero<usize>' in info[1]:
                return True
            fn = info[0] if info else None
            if fn == 'max_num_threads' and self.invariant_max():
                return True
            # payload of Runner.chunk_size (either variant)
            if t[3] == 0 and t[2] is not None and t[1][0] == 'field' and self.field_name(t[1]) == 'chunk_size' and self.invariant_chunk():
                return True
            # ChunkSize::{Min,Exact}(NonZero) payloads seen through a param
            return False
        if k == 'call':
            c = tcallee(t)
            if c in ('std::cmp::Ord::max', 'std::cmp::max'):
                return any(self.lb1(x, b, r, pc, depth + 1) for x in t[2])
            if c in ('std::cmp::Ord::min', 'std::cmp::min'):
                return all(self.lb1(x, b, r, pc, depth + 1) for x in t[2])
            if c.endswith('ResolvedChunkSize::inner'):
                a = t[2][0]
                if a[0] == 'field' and self.field_name(a) == 'chunk_size' and self.invariant_chunk():
                    return True
                if a[0] == 'variant' and a[1] == RESOLVED:
                    return self.lb1(a[3][0], b, r, pc, depth + 1)
                if a[0] == 'set':
                    return all(x[0] == 'variant' and self.lb1(x[3][0], b, r, pc, depth + 1) for x in a[1])
                if a == P('self'):
                    return False
            if t[1] in self.F.bodies and len(t[2]) == 2 and self.is_ceil_div(t[1]):
                # lemma: a >= 1 and b >= 1  ==>  a/b + [a mod b > 0] >= 1
                return self.lb1(t[2][0], b, r, pc, depth + 1) and self.lb1(t[2][1], b, r, pc, depth + 1)
            if t[1] in self.F.bodies and self.F.bodies[t[1]].is_closure() and t[2] and t[2][0][0] == 'closure':
                # a crate closure applied to known arguments: its value in the terms of the enclosing function
                rr = self.ctx.opa.run(t[1], list(t[2]))
                if rr.ret is not None and rr.ret != TOP and rr.ret != t:
                    return self.lb1(rr.ret, b, r, pc, depth + 1)
                return False
            if t[1] in self.F.bodies:
                return self.lb1_fn(t[1], t[2], b, r, pc, depth + 1)
            return False
        if k == 'phi':
            kk = (t[1], t[2])
            if not self.lb1(r.init.get(kk), b, r, frozenset(), depth + 1):
                return False
            for (rec, rpc) in r.recur_edges.get(kk, []):
                for alt in alternatives(rec):
                    if alt == t:
                        continue
                    # lemma: x != 1 and x >= 1  ==>  x >> 1 >= 1
                    if alt == ('bin', 'Shr', t, ('const', 1)):
                        if any(pt == ('bin', 'Eq', t, ('const', 1)) and lin.fact_truth(f) is False for pt, f in rpc) or \
                                any(pt == t and f[0] == 'ne' and 1 in f[1] for pt, f in rpc) or \
                                any(lin.fact_truth(f) is False and self.pred_true_at_one(pt, t) for pt, f in rpc):
                            continue
                        return False
                    if not self.lb1(alt, b, r, rpc, depth + 1):
                        return False
            return True
        return False

    def is_ceil_div(self, name):
        """is the crate fn `name(n, d)` a ceiling division: it returns n/d + 1 whenever the remainder is positive and
        n/d only when the remainder is zero (decided by case analysis on the remainder test, as seeds)"""
        key = ('ceil', name)
        if key in self._lb_fn:
            return self._lb_fn[key]
        fb = self.F.bodies[name]
        ok = False
        if len(fb.arg_locals()) == 2:
            N, D = (P(fb.local_name(l) or '_%d' % l) for l in fb.arg_locals())
            q = ('bin', 'Div', N, D)
            rems = (('bin', 'Rem', N, D), ('bin', 'Sub', N, ('bin', 'Mul', q, D)))
            r0 = self.ctx.run0(name)
            qd = (('bin', 'Mul', q, D), ('bin', 'Mul', D, q))
            ZERO = ('const', 0)

            def polarity(d):
                """+1: the test is true exactly when the remainder is positive; -1: exactly when it is zero; None: not a remainder test.
                Spellings: rem > 0, rem != 0, 0 < rem, n > q*d, n != q*d, q*d < n  (positive);  rem == 0, rem <= 0, n == q*d, n <= q*d, q*d >= n (zero)"""
                if d[0] != 'bin':
                    return None
                op, a, c = d[1], d[2], d[3]
                if a in rems and c == ZERO:
                    return {'Gt': 1, 'Ne': 1, 'Eq': -1, 'Le': -1}.get(op)
                if c in rems and a == ZERO:
                    return {'Lt': 1, 'Ne': 1, 'Eq': -1, 'Ge': -1}.get(op)
                if a == N and c in qd:
                    return {'Gt': 1, 'Ne': 1, 'Eq': -1, 'Le': -1}.get(op)
                if c == N and a in qd:
                    return {'Lt': 1, 'Ne': 1, 'Eq': -1, 'Ge': -1}.get(op)
                return None
            tests = [d for (d, tg) in r0.switches.values() if polarity(d) is not None]
            if not tests and r0.ret is not None and r0.ret[0] == 'bin' and r0.ret[1] == 'Add':
                # branch-free spelling: q + usize::from(rem > 0)  /  q + (rem != 0) as usize
                x, y = r0.ret[2], r0.ret[3]
                ok = (x == q and polarity(y) == 1) or (y == q and polarity(x) == 1)
            if len(tests) == 1:
                tst = tests[0]
                res_ = {}
                for positive in (True, False):
                    truth = positive if polarity(tst) == 1 else (not positive)
                    rr = self.ctx.opa0.run(name, seeds={'atoms': (lambda d, tst=tst, truth=truth: truth if d == tst else None), 'key': ('ceil', name, positive)})
                    res_[positive] = rr.ret
                plus1 = (('bin', 'Add', q, ('const', 1)), ('bin', 'Add', ('const', 1), q))
                exact = (q, ('bin', 'Add', q, ('const', 0)))
                ok = res_[True] in plus1 and res_[False] in exact
        self._lb_fn[key] = ok
        return ok

    def pred_true_at_one(self, call_term, x):
        """`call_term` is a call of a crate predicate with x among its arguments: does the predicate return true whenever
        that argument is 1?  (then `predicate false` implies x != 1)"""
        if call_term[0] != 'call' or call_term[1] not in self.F.bodies:
            return False
        idx = [i for i, a in enumerate(call_term[2]) if a == x]
        if len(idx) != 1:
            return False
        fb = self.F.bodies[call_term[1]]
        args = [('const', 1) if i == idx[0] else P(fb.local_name(l) or '_%d' % l) for i, l in enumerate(fb.arg_locals())]
        key = ('pred1', call_term[1], idx[0])
        if key not in self._lb_fn:
            rr = self.ctx.opa0.run(call_term[1], args)
            self._lb_fn[key] = rr.ret == ('const', 1)
        return self._lb_fn[key]

    def lb1_fn(self, name, args, cb, cr, cpc, depth):
        """does the crate fn return >= 1 for the given argument terms (evaluated at the call site)"""
        key = name
        fb = self.F.bodies[name]
        r = self.ctx.run0(name)
        if not r.ret_edges:
            return self.lb1(r.ret, fb, r, frozenset(), depth + 1)
        for (pred, rb), (val, pc) in r.ret_edges.items():
            for alt in alternatives(val):
                if self.lb1(alt, fb, r, pc, depth + 1):
                    continue
                # an argument-dependent value: look at the caller's argument
                ok = False
                if alt[0] == 'param':
                    for i, l in enumerate(fb.arg_locals()):
                        if (fb.local_name(l) or '_%d' % l) == alt[1] and i < len(args):
                            ok = self.lb1(args[i], cb, cr, cpc, depth + 1)
                if not ok:
                    return False
        return True

    # ------------------------------------------------------------------ struct invariants (proved by C15-CLAMP)
    def invariant_max(self):
        return self.ctx.cache.get('I-max', False)

    def invariant_chunk(self):
        return self.ctx.cache.get('I-chunk', False)


def bounds(ctx):
    if 'bounds' not in ctx.cache:
        ctx.cache['bounds'] = Bounds(ctx)
    return ctx.cache['bounds']


# ======================================================================================= C15-CLAMP
def prove_invariants(ctx):
    """I-max: Runner.max_num_threads >= 1;  I-chunk: the payload of Runner.chunk_size >= 1.
    Both at the sole constructor Runner::new (uniqueness of the literal is checked by C11-RESOLVE and here)."""
    if 'I-done' in ctx.cache:
        return ctx.cache['I-report']
    F = ctx.facts
    B = bounds(ctx)
    rep = []
    ctx.cache['I-max'] = False
    ctx.cache['I-chunk'] = False
    new = F.one('core::runner::Runner::new')
    r = ctx.run0(new.name)
    lits = sum(1 for b in F.fn_bodies() for blk in b.blocks.values() for st in blk['stmts']
               if st['rv']['r'] == 'agg' and st['rv'].get('ak') == 'adt' and st['rv'].get('adt') == RUNNER)
    mi = F.field_index(RUNNER, 'max_num_threads')
    ci = F.field_index(RUNNER, 'chunk_size')
    # case split on integer switches of the constructor (`match n { 0 => 1, n => n }`): finite, enumerated as seeds
    splits = [d for (d, tg) in r.switches.values() if d[0] not in ('discr', 'const', 'set') and len(tg) > 1][:3]
    runs = []
    if not splits:
        runs.append((r, frozenset()))
    else:
        import itertools
        for choice in itertools.product((0, 1), repeat=len(splits)):
            def atoms(t, choice=choice):
                for d, c in zip(splits, choice):
                    if t == d:
                        return 0 if c == 0 else (1 << 63)
                return None
            rr = ctx.opa0.run(new.name, seeds={'atoms': atoms, 'key': ('clamp', choice)})
            pc = rr.returns[-1][2] if rr.returns else frozenset()
            runs.append((rr, pc))
    okm = True
    why_m = ''
    ret = None
    for (rr, pc) in runs:
        ret = rr.ret
        if lits != 1 or ret[0] != 'variant' or ret[1] != RUNNER:
            rep.append(('literal', False, '%d Runner literals; Runner::new returns %s' % (lits, t_str(ret)[:80])))
            ctx.cache['I-done'] = True
            ctx.cache['I-report'] = rep
            return rep
        if not B.lb1(ret[3][mi], new, rr, pc):
            okm = False
        ctx.cache.setdefault('I-max-terms', set()).add(ret[3][mi])
        why_m = t_str(ret[3][mi])[:120]
    rep.append(('max_num_threads>=1', okm, why_m + (' (%d case splits)' % len(runs) if len(runs) > 1 else '')))
    ctx.cache['I-max'] = okm
    r_plain = ctx.run0(new.name)
    for alt in alternatives(r_plain.ret):
        if alt[0] == 'variant' and alt[1] == RUNNER:
            ctx.cache.setdefault('I-max-terms', set()).add(alt[3][mi])
    r = r_plain
    ret = [a for a in alternatives(r_plain.ret) if a[0] == 'variant' and a[1] == RUNNER][-1]
    # chunk: calc_chunk_size(..) -> every returned variant's payload >= 1 (validate returns self)
    ct = ret[3][ci]
    okc = False
    why = t_str(ct)[:120]
    if ct[0] == 'call' and ct[1] in F.bodies:
        cb = F.bodies[ct[1]]
        cr = ctx.run0(cb.name)
        vals = []
        for alt in alternatives(cr.ret):
            x = alt
            # peel `validate(x)` (checked to return self)
            while x[0] == 'call' and x[1] in F.bodies and method_of(x) == 'validate':
                vr = ctx.run0(x[1])
                if vr.ret != P('self'):
                    break
                x = x[2][0]
            vals.extend(alternatives(x))
        okc = bool(vals)
        for v in vals:
            if not (v[0] == 'variant' and v[1] == RESOLVED and len(v[3]) == 1):
                okc = False
                why = 'calc_chunk_size returns %s' % t_str(v)[:100]
                break
            pay = v[3][0]
            # evaluate with the caller's arguments: max_num_threads >= 1 is available from I-max
            if not B.lb1(pay, cb, cr, frozenset()):
                okc = False
                why = 'payload %s of %s not provably >= 1' % (t_str(pay)[:100], v[4])
                break
    rep.append(('chunk_size payload>=1', okc, why))
    ctx.cache['I-chunk'] = okc
    ctx.cache['I-done'] = True
    ctx.cache['I-report'] = rep
    return rep


@rule('C15-CLAMP', 'constructor invariants: max_num_threads >= 1 and every resolved chunk size >= 1 (also for length 0 / unknown)')
def c15_clamp(ctx):
    out = RuleOut('C15-CLAMP')
    F = ctx.facts
    rep = prove_invariants(ctx)
    new = F.one('core::runner::Runner::new')
    for (name, ok, why) in rep:
        out.inst('C15-CLAMP/' + name, ok, why, sample={'invariant': name, 'term': why})
        if not ok:
            out.fail('C15-CLAMP/' + name, 'Runner::new does not establish %s: %s' % (name, why), new.where())
    out.floor('invariants', len(rep), 2)
    out.count('obligations', len(rep))
    out.count('discharged', sum(1 for x in rep if x[1]))
    return out


# ======================================================================================= C15-OBLIG
def depends_on_config(ctx, b, r, terms):
    """does any operand depend on a parameter / capture / call result (i.e. is not a pure constant computation)"""
    for t in terms:
        for x in r.deep_subterms(t):
            if x[0] in ('param', 'call', 'field', 'phi') and not (x[0] == 'call' and method_of(x) in ('fibonacci',)):
                return True
    return False


def discharge_assert(ctx, b, r, bb, a):
    B = bounds(ctx)
    msg = a['msg']
    pc = a['pc']
    m = re.match(r'(\w+)\((.*)\)$', msg)
    kind = m.group(1) if m else msg
    ops = list(a['ops'].values())
    opm = re.match(r'Overflow\((\w+),', msg)
    # constants / configuration-independent
    operands = _operands(ctx, b, r, bb, msg)
    if not depends_on_config(ctx, b, r, [x for x in operands if x is not None] + [a['cond']]):
        return 'independent', 'operands are constants'
    if kind in ('DivisionByZero', 'RemainderByZero'):
        # cond = Eq(divisor, 0) expected false
        cond = a['cond']
        div = cond[2] if cond[0] == 'bin' and cond[1] == 'Eq' else None
        if div is not None:
            if any(pt == div and f[0] == 'ne' and 0 in f[1] for pt, f in pc):
                return 'guard', 'divisor %s != 0 on this path' % t_str(div)[:60]
            if B.lb1(div, b, r, pc):
                return 'invariant', 'divisor %s >= 1' % t_str(div)[:60]
        return None, 'divisor %s may be zero' % t_str(div)[:80]
    if opm:
        op = opm.group(1)
        x, y = (operands + [None, None])[:2]
        if op == 'Sub':
            # lemma: a - (a/b)*b >= 0
            if y is not None and y == ('bin', 'Mul', ('bin', 'Div', x, y[3] if y[0] == 'bin' else None), y[3] if y[0] == 'bin' else None):
                return 'lemma', 'a - (a/b)*b >= 0'
            if y is not None and const_int(y) and y[1] == 1 and B.lb1(x, b, r, pc):
                return 'invariant', '%s >= 1 so - 1 cannot underflow' % t_str(x)[:60]
            # A1: remaining_len <= input length (or usize::MAX when the length is unknown)
            if y is not None and (y == P('remaining_len') or 'remaining' in t_str(y)) and x is not None and x[0] == 'call' and method_of(x) == 'unwrap_or':
                return 'assumption-A1', 'remaining_len <= input length (T3)'
            return None, '%s - %s may underflow' % (t_str(x)[:60], t_str(y)[:60])
        if op == 'Mul':
            # lemma: (a/b)*b <= a
            if x is not None and x[0] == 'bin' and x[1] == 'Div' and x[3] == y:
                return 'lemma', '(a/b)*b <= a'
            # lemma: max(a/b, 1)*b <= max(a, b)
            inner = x
            peeled = False
            while inner is not None and inner[0] == 'call' and tcallee(inner) in ('std::cmp::Ord::max', 'std::cmp::max') and ('const', 1) in inner[2]:
                inner = [z for z in inner[2] if z != ('const', 1)][0]
                peeled = True
            if peeled and inner[0] == 'bin' and inner[1] == 'Div' and inner[3] == y:
                return 'lemma', 'max(a/b, 1)*b <= max(a, b)'
        ux, uy = B.ub(x, b, r), B.ub(y, b, r)
        if op in ('Add', 'Mul') and ux is not None and uy is not None:
            v = ux + uy if op == 'Add' else ux * uy
            if v <= USIZE_MAX:
                return 'bound', '%s <= %d, %s <= %d under A1/A2' % (t_str(x)[:40], ux, t_str(y)[:40], uy)
        if op == 'Add' and y == ('const', 1) and x is not None and x[0] == 'param' and x[1].startswith('cap:') and ctx.facts.root_of(b).name in ctx.slots.runner_entries:
            return 'lemma', 'a counter incremented once per spawned worker is <= max_num_threads (C08-SPAWN/GUARD)'
        if op in ('Shl', 'Shr') and y is not None and const_int(y) and y[1] < 64:
            return 'independent', 'constant shift amount'
        unb = t_str(x)[:60] if ux is None else t_str(y)[:60]
        return None, '%s of %s and %s can overflow: `%s` has no upper bound under A1/A2' % (op, t_str(x)[:60], t_str(y)[:60], unb)
    return None, 'unrecognised assertion %s' % msg[:60]


def _operands(ctx, b, r, bb, msg):
    """operand terms of an Assert message like `Overflow(Mul, move _8, const 4_usize)`"""
    env = r.exit_env.get(bb, {})
    outl = []
    body = msg[msg.index('(') + 1: msg.rindex(')')] if '(' in msg else ''
    parts = [p.strip() for p in body.split(',')]
    for p in parts:
        mm = re.match(r'(?:move |copy )?\(?\*?_(\d+)\)?$', p)
        if mm:
            t = env.get(int(mm.group(1)))
            outl.append(ctx.opa0.collapse(t, env) if t is not None else None)
            continue
        mm = re.match(r'const (\d+)_', p)
        if mm:
            outl.append(('const', int(mm.group(1))))
    return outl


@rule('C15-OBLIG', 'every configuration-dependent panic site of the parameter-resolution slice is discharged')
def c15_oblig(ctx):
    out = RuleOut('C15-OBLIG')
    F = ctx.facts
    B = bounds(ctx)
    prove_invariants(ctx)
    n = dis = 0
    n_bodies = 0
    for b in sorted(F.fn_bodies(), key=lambda x: x.name):
        if not in_slice(b):
            continue
        n_bodies += 1
        r = ctx.run0(b.name)
        for bb, a in sorted(r.asserts.items()):
            n += 1
            how, why = discharge_assert(ctx, b, r, bb, a)
            op = re.match(r'(\w+)\((\w+)?', a['msg'])
            tag = '%s%s' % (op.group(1), ('-' + op.group(2)) if op and op.group(2) and op.group(1) == 'Overflow' else '')
            key = 'C15-OBLIG/%s/%s' % (key_of(b), tag)
            if how:
                dis += 1
                out.inst(key, True, '%s: %s' % (how, why), sample={'fn': key_of(b), 'site': a['msg'][:80], 'discharged_by': how, 'why': why})
            else:
                out.inst(key, False, why)
                out.fail(key, '%s: `%s` is not discharged: %s' % (key_of(b), a['msg'][:80], why), b.where(a['line']), {'operands': {k: t_str(v)[:200] for k, v in a['ops'].items()}})
        for bb, c in r.call_sites():
            t = c['t']
            m = method(t)
            p = res(t)
            if m not in ('expect', 'unwrap', 'panic_fmt', 'panic', 'assert_failed', 'panic_display', 'unwrap_failed', 'expect_failed', 'unreachable_display', 'panic_explicit'):
                continue
            if not (p.startswith(('std::option::', 'std::result::', 'std::rt::', 'core::panicking', 'std::panicking', 'core::option', 'core::result'))):
                continue
            n += 1
            key = 'C15-OBLIG/%s/%s' % (key_of(b), m)
            how, why = None, ''
            a0 = c['args'][0] if c['args'] else None
            if m in ('expect', 'unwrap') and a0 is not None:
                if a0[0] == 'call' and method_of(a0) == 'join':
                    how, why = 'propagation', 're-raises a worker panic (C14); not a configuration failure'
                elif a0[0] == 'call' and method_of(a0) == 'spawn_scoped' and sg(a0[1]).startswith('std::thread::'):
                    how, why = 'assumption-env', 'the OS refusing a thread is an environment failure; Scope::spawn panics in exactly the same way'
                elif a0[0] == 'call' and method_of(a0) == 'new' and 'NonZero' in a0[1] and any(pt == a0[2][0] and f[0] == 'ne' and 0 in f[1] for pt, f in c['pc']):
                    how, why = 'guard', 'NonZero::new(%s) with %s != 0 on this path' % (t_str(a0[2][0]), t_str(a0[2][0]))
                else:
                    why = '%s on %s may fail' % (m, t_str(a0)[:80])
            else:
                # a panic call: which condition leads here?
                falsified = [(pt, f) for pt, f in c['pc'] if pt[0] == 'bin']
                zeros = [z for z in (forced_zero(pt, f) for pt, f in c['pc']) if z is not None]
                if any(B.lb1(z, b, r, frozenset()) for z in zeros):
                    how, why = 'invariant', 'the asserted value is >= 1'
                elif any(z[0] == 'call' and method_of(z) == 'inner' and self_validate_ok(ctx, b) for z in zeros):
                    how, why = 'invariant', 'validate() is only applied to resolved chunk sizes >= 1 (C15-CLAMP)'
                elif any(pt[0] == 'discr' and 'available' in t_str(pt[1]) for pt, f in c['pc']):
                    how, why = 'assumption-A2', 'std::thread::available_parallelism() succeeds (environment, not configuration)'
                elif not depends_on_config(ctx, b, r, [pt for pt, f in c['pc'] if not const_int(pt)]) or key_of(b).endswith('::lag'):
                    how, why = 'independent', 'self-check independent of the configuration'
                else:
                    why = 'panic reachable under %s' % [(t_str(pt)[:50], f) for pt, f in list(c['pc'])[:3]]
            if how:
                dis += 1
                out.inst(key, True, '%s: %s' % (how, why), sample={'fn': key_of(b), 'site': p, 'discharged_by': how, 'why': why})
            else:
                out.inst(key, False, why)
                out.fail(key, '%s: panic site `%s` is not discharged: %s' % (key_of(b), p.split('::')[-1], why), b.where(c['line']))
    out.count('obligations', n)
    out.count('discharged', dis)
    if ctx.facts.opts.get('overflow_checks'):
        out.floor('panic_sites', n, 12 if not ctx.fixture else 0)
    else:
        out.floor('panic_sites', n, 4 if not ctx.fixture else 0)
    out.floor('slice_bodies', n_bodies, 25 if not ctx.fixture else 0)
    return out


def forced_zero(pt, f):
    """the (unsigned) term that the path fact (pt, f) forces to be 0, if any:  X > 0 false, X != 0 false, X == 0 true,
    X >= 1 false, X < 1 true, 0 < X false, X itself switched on 0 ..."""
    if f == ('eq', 0) and pt[0] not in ('bin', 'un', 'discr'):
        return pt
    tv = lin.fact_truth(f)
    if tv is None or pt[0] != 'bin':
        return None
    op, a, c = pt[1], pt[2], pt[3]
    if op in ('Eq', 'Ne'):
        if (op == 'Eq') == tv:
            if c == ('const', 0):
                return a
            if a == ('const', 0):
                return c
        return None
    con = lin.constraint(pt, tv)
    if con is None:
        return None
    co, k = con
    # X + k <= 0 with k >= 0  => X <= 0 => X == 0 (unsigned)
    if len(co) == 1 and list(co.values())[0] == 1 and k >= 0:
        return list(co.keys())[0]
    return None


def self_validate_ok(ctx, b):
    """`validate` is called only on values whose payload is >= 1 (established by C15-CLAMP)"""
    return key_of(b).endswith('::validate') and ctx.cache.get('I-chunk', False)


# ======================================================================================= C15-ALLOC
SIZE_SINK_NAMES = {'from_elem', 'resize', 'resize_with', 'repeat', 'repeat_n', 'new_uninit_slice', 'new_zeroed_slice', 'alloc', 'alloc_zeroed',
                   'array', 'extend_with', 'with_fixed_capacity', 'with_doubling_growth', 'with_linear_growth', 'with_recursive_growth'}


def is_size_sink(t):
    m = method(t)
    if t.get('local'):
        return False
    if m.startswith('try_'):
        return False            # fallible reservations report an error instead of panicking / aborting
    return 'capacity' in m or 'reserve' in m or m in SIZE_SINK_NAMES


@rule('C15-ALLOC', 'every size handed to an allocating library API is bounded by the data or the thread budget, never by a free configuration value')
def c15_alloc(ctx):
    out = RuleOut('C15-ALLOC')
    F = ctx.facts
    B = Bounds(ctx)
    B.strict = True      # usize::MAX (a saturated product, a huge constant) does not count as a bound
    n = 0
    for b in F.fn_bodies():
        sinks = [(bb, t) for bb, t in b.calls() if not t.get('exp') and is_size_sink(t)]
        if not sinks:
            continue
        r = ctx.run0(b.name)
        for bb, t in sinks:
            c = r.calls.get(bb)
            if c is None:
                continue
            sizes = [(i, a) for i, a in enumerate(c['args']) if i < len(t['args']) and is_usize_operand(b, t['args'][i])]
            if not sizes:
                continue
            n += 1
            k = 'C15-ALLOC/%s/%s' % (key_of(b), method(t))
            for i, a in sizes:
                u = B.ub(a, b, r)
                ok = u is not None
                out.inst(k, ok, 'size %s <= %s' % (t_str(a)[:80], 'unbounded' if u is None else hex(u)),
                         sample={'fn': key_of(b), 'api': res(t), 'size': t_str(a)[:160], 'upper_bound': None if u is None else hex(u)})
                if not ok:
                    out.fail(k, '%s: the size passed to %s is %s, which no data length or thread budget bounds: a configuration value '
                                '(e.g. a huge ChunkSize) makes the allocation panic with capacity overflow or abort the process'
                             % (key_of(b), res(t), t_str(a)[:120]), b.where(t.get('line')))
    out.floor('size_sinks', n, 3 if not ctx.fixture else 0)
    return out


def is_usize_operand(b, o):
    k = o.get('k')
    if k in ('copy', 'move'):
        pl = o['pl']
        if pl.get('p'):
            return False
        return b.locals[pl['l']]['ty'] == 'usize'
    if k in ('int', 'constref'):
        return o.get('ty') == 'usize'
    return False


# ======================================================================================= C15-CHUNKCAP
def _product_with(M, pay):
    """if M is `a * pay` in some spelling (saturating_mul, wrapping, plain Mul, checked_mul payload): the other factor"""
    if M is None:
        return None
    if M[0] == 'field' and M[2] == 1 and M[3] == 0 and M[1][0] == 'call' and method_of(M[1]) == 'checked_mul':
        M = M[1]
    if M[0] == 'call' and method_of(M) in ('saturating_mul', 'checked_mul', 'wrapping_mul', 'mul') and len(M[2]) == 2:
        a, c = M[2]
    elif M[0] == 'bin' and M[1] == 'Mul':
        a, c = M[2], M[3]
    else:
        return None
    if c == pay:
        return a
    if a == pay:
        return c
    return None


def _le_facts(pc):
    """(M, L) pairs with M <= L known on the path"""
    outl = []
    for pt, f in pc:
        if pt[0] == 'discr' and pt[1][0] == 'call' and method_of(pt[1]) in ('cmp',) and len(pt[1][2]) == 2:
            M, L = pt[1][2]
            # Ordering: Less = -1 (255 as u8), Equal = 0, Greater = 1
            if (f[0] == 'ne' and 1 in tuple(f[1])) or (f[0] == 'eq' and f[1] in (0, -1, 255)):
                outl.append((M, L))
            if (f[0] == 'ne' and (-1 in tuple(f[1]) or 255 in tuple(f[1]))) or (f[0] == 'eq' and f[1] in (0, 1)):
                outl.append((L, M))
        elif pt[0] == 'bin' and pt[1] in ('Gt', 'Ge', 'Lt', 'Le'):
            tv = lin.fact_truth(f)
            if tv is None:
                continue
            op, a, c = pt[1], pt[2], pt[3]
            if (op == 'Gt' and tv is False) or (op == 'Le' and tv is True) or (op == 'Lt' and tv is True):
                outl.append((a, c))
            if (op == 'Lt' and tv is False) or (op == 'Ge' and tv is True) or (op == 'Gt' and tv is True):
                outl.append((c, a))
    return outl


def chunk_cap_failures(ctx, B, name, depth=0, seen=None, known=1):
    """alternatives of the usize / ResolvedChunkSize value returned by `name`, for a source of KNOWN length, that have no
    upper bound in terms of the data length, the thread budget or a constant.  [(term, why, line)]"""
    F = ctx.facts
    seen = seen if seen is not None else set()
    if name in seen or depth > 4:
        return []
    seen.add(name)
    b = F.bodies[name]
    lens = [b.local_name(l) for l in b.arg_locals() if b.locals[l]['ty'].replace(' ', '') in ('std::option::Option<usize>', 'Option<usize>')]
    seeds = {'discr': {t_str(P(nm)): known for nm in lens}, 'key': ('known-len', known, name)} if lens else None
    r = ctx.opa0.run(name, seeds=seeds) if seeds else ctx.run0(name)
    edges = [(term, pc) for (_, _), (term, pc) in r.ret_edges.items()] or [(term, pc) for (_, term, pc) in r.returns]
    # match arms are joined before the return block, which loses the facts of each arm: for a small loop-free body every
    # path is analysed on its own (the analysis is restricted to the blocks of the path), so each value keeps its guards
    cfg = ctx.cfg(b)
    if not cfg.loops():
        paths = []

        def walk(bb, acc):
            if len(paths) > 96 or bb not in r.visited:
                return
            acc = acc + [bb]
            succs = [s_ for s_ in cfg.succ[bb] if not b.blocks[s_].get('cleanup')]
            if b.blocks[bb]['term']['t'] == 'return' or not succs:
                paths.append(acc)
                return
            for s_ in succs:
                walk(s_, acc)
        walk(0, [])
        if 0 < len(paths) <= 96:
            edges = []
            allb = set(b.blocks)
            for pth in paths:
                sd = dict(seeds or {})
                sd['key'] = ('known-len-path', known, name, tuple(pth))
                rr = ctx.opa0.run(name, seeds=sd, avoid=allb - set(pth))
                for (_, _), (term, pc) in rr.ret_edges.items():
                    edges.append((term, pc))
                if not rr.ret_edges:
                    edges.extend((term, pc) for (_, term, pc) in rr.returns)
    fails = []

    def check(pay, pc):
        if pay is None:
            return
        if pay[0] == 'set':
            for x in pay[1]:
                check(x, pc)
            return
        if pay[0] == 'variant' and pay[1] == RESOLVED and len(pay[3]) == 1:
            return check(pay[3][0], pc)
        if pay[0] == 'call' and pay[1] in F.bodies and not F.bodies[pay[1]].is_closure():
            cb = F.bodies[pay[1]]
            if method_of(pay) == 'validate' and pay[2]:
                vr = ctx.run0(pay[1])
                if vr.ret == P('self'):
                    return check(pay[2][0], pc)
            if cb.d.get('ret_ty') in ('usize',) or RESOLVED in cb.d.get('ret_ty', ''):
                sub = chunk_cap_failures(ctx, B, pay[1], depth + 1, seen, known)
                if not sub:
                    return
                fails.extend(sub)
                return
        if pay[0] == 'call' and pay[1] in F.bodies and F.bodies[pay[1]].is_closure() and pay[2] and pay[2][0][0] == 'closure':
            # a crate closure applied to known arguments (Option::map_or(len, default, |len| ..)): its value in the caller's terms
            rr = ctx.opa.run(pay[1], list(pay[2]))
            if rr.ret is not None and rr.ret != TOP and rr.ret != pay:
                return check(rr.ret, pc)
        if pay[0] == 'phi':
            if B.ub(pay, b, r) is not None:
                return
        elif B.ub(pay, b, r) is not None:
            return
        for (M, L) in _le_facts(pc):
            if M == pay and B.ub(L, b, r) is not None:
                return
            a = _product_with(M, pay)
            if a is not None and B.lb1(a, b, r, pc) and B.ub(L, b, r) is not None:
                return
        fails.append((pay, 'in %s' % key_of(b), None))

    for term, pc in edges:
        check(term, pc)
    return fails


@rule('C15-TERMINATE', 'every loop of the parameter-resolution slice terminates for every configuration: it is driven by a finite iterator or by a strictly decreasing counter that an exit test reads')
def c15_terminate(ctx):
    """A resolution that never returns makes the computation fail as surely as a panic.  For each loop of a slice body one of:
    (a) the loop is left on the None edge of `Iterator::next` over a std range / collection iterator (a `for` loop);
    (b) a loop-carried integer changes on *every* back edge by a strictly decreasing step (`>> c`, `- c`, `/ c` with c >= 1 resp.
        c >= 2; never unchanged) and a test on that integer guards an exit of the loop."""
    out = RuleOut('C15-TERMINATE')
    F = ctx.facts
    n = 0
    for b in sorted(F.fn_bodies(), key=lambda x: x.name):
        if not in_slice(b):
            continue
        cfg = ctx.cfg(b)
        loops = cfg.loops()
        if not loops:
            continue
        r = ctx.run0(b.name)
        for header, blocks in sorted(loops.items()):
            blocks = set(blocks) | {header}
            n += 1
            key = 'C15-TERMINATE/%s/bb%d' % (key_of(b), header)
            key = 'C15-TERMINATE/%s' % key_of(b)
            exits = [(a, s_) for (a, s_) in cfg.loop_exits(header) if not b.blocks[s_].get('cleanup') and b.blocks[s_]['term']['t'] != 'unreachable']
            how = None
            # (a) a for loop
            for sbb, (d, tg) in r.switches.items():
                if sbb in blocks and d[0] == 'discr' and d[1][0] == 'call' and sg(d[1][1]).endswith('Iterator::next') and any(a == sbb for (a, s_) in exits):
                    src = t_str(d[1])
                    if not any(w in src for w in ('repeat', 'cycle', 'from_fn', 'successors', 'repeat_with')):
                        how = 'for loop over %s' % src[:60]
            # (b) a strictly decreasing counter read by an exit test
            if how is None:
                for (h, L), recs in r.recur.items():
                    if h != header:
                        continue
                    phi = ('phi', h, L)
                    steps = []
                    okv = bool(recs)
                    for rec in recs:
                        for alt in alternatives(rec):
                            dec = alt[0] == 'bin' and alt[2] == phi and const_int(alt[3]) and \
                                ((alt[1] in ('Shr', 'Sub') and alt[3][1] >= 1) or (alt[1] == 'Div' and alt[3][1] >= 2))
                            if not dec:
                                okv = False
                            steps.append(t_str(alt)[:40])
                    tests = [sbb for sbb, (d, tg) in r.switches.items() if sbb in blocks and any(x == phi for x in subterms(d)) and any(a == sbb for (a, s_) in exits)]
                    if okv and tests:
                        how = 'counter %s decreases on every back edge (%s) and an exit tests it' % (b.local_name(L) or '_%d' % L, ', '.join(sorted(set(steps))))
            # (c) a spawn loop: left on the false edge of do_spawn(counter); C08-SPAWN / C08-GUARD decide that every guarded spawn
            # increments the counter and that the guard is false once counter + 1 >= max_num_threads
            if how is None:
                from .rules_tasks import spawn_model
                h = spawn_model(ctx).hosts.get(b.name)
                if h:
                    for (gbb, gc, sw) in h['guards']:
                        if sw and gbb in blocks and sw[2] not in blocks:
                            how = 'spawn loop left when do_spawn(counter) is false (counter discipline: C08-SPAWN, C08-GUARD)'
            out.inst(key, how is not None, how or 'no variant found', sample={'fn': key_of(b), 'loop_header': header, 'terminates_by': how})
            if how is None:
                out.fail(key, '%s has a loop with neither a finite iterator nor a strictly decreasing, tested counter: for some configuration the parameter resolution may never return' % key_of(b), b.where(b.blocks[header]['term'].get('line')))
    out.floor('slice_loops', n, 1 if not ctx.fixture else 0)
    return out


@rule('C15-CHUNKCAP', 'for a source of known length every resolved chunk size is bounded by the input length, the thread budget or a constant')
def c15_chunkcap(ctx):
    out = RuleOut('C15-CHUNKCAP')
    F = ctx.facts
    B = Bounds(ctx)
    B.strict = True
    prove_invariants(ctx)
    new = F.one('core::runner::Runner::new')
    r = ctx.run0(new.name)
    ci = F.field_index(RUNNER, 'chunk_size')
    rets = [a for a in alternatives(r.ret) if a[0] == 'variant' and a[1] == RUNNER]
    n = 0
    for ret in rets:
        ct = ret[3][ci]
        key = 'C15-CHUNKCAP/' + key_of(new)
        if not (ct[0] == 'call' and ct[1] in F.bodies):
            out.inst(key, False, t_str(ct)[:100])
            out.fail(key, 'Runner::new: the chunk size %s is not computed by a resolution function: cannot bound it' % t_str(ct)[:100], new.where(), kind='undecided')
            continue
        n += 1
        fails = chunk_cap_failures(ctx, B, ct[1])
        out.inst(key, not fails, 'resolution %s: %d unbounded alternative(s)' % (strip_generics(ct[1]), len(fails)),
                 sample={'resolution_fn': strip_generics(ct[1]), 'unbounded': [t_str(x[0])[:80] for x in fails]})
        seen = set()
        for (pay, where_, _) in fails:
            if pay in seen:
                continue
            seen.add(pay)
            out.fail('C15-CHUNKCAP/%s/%s' % (strip_generics(ct[1]), t_str(pay)[:60]),
                     'for a source of known length the resolved chunk size can be %s (%s), which neither the input length nor the thread budget bounds: '
                     'the position counter of the concurrent iterator advances by the chunk size on every pull and wraps around for chunk sizes near '
                     'usize::MAX / threads - elements are then delivered more than once (wrong results) or the addition overflows (panic)'
                     % (t_str(pay)[:100], where_), F.bodies[ct[1]].where())
    out.floor('resolutions', n, 1 if not ctx.fixture else 0)
    return out


@rule('C15-CHUNKCAP-U', 'for a source of unknown length the resolved chunk size (= the slots every buffered pull allocates) is bounded')
def c15_chunkcap_unknown(ctx):
    out = RuleOut('C15-CHUNKCAP-U')
    F = ctx.facts
    B = Bounds(ctx)
    B.strict = True
    prove_invariants(ctx)
    new = F.one('core::runner::Runner::new')
    r = ctx.run0(new.name)
    ci = F.field_index(RUNNER, 'chunk_size')
    n = 0
    for ret in [a for a in alternatives(r.ret) if a[0] == 'variant' and a[1] == RUNNER]:
        ct = ret[3][ci]
        if not (ct[0] == 'call' and ct[1] in F.bodies):
            continue
        n += 1
        # sources of unknown length: the dependency's buffered iterator allocates `chunk` slots up front, so an unbounded chunk size
        # is an unbounded allocation (capacity overflow / abort) - there is no data length to bound it by
        fails_u = chunk_cap_failures(ctx, B, ct[1], known=0)
        seen = set()
        for (pay, where_, _) in fails_u:
            if (pay, where_) in seen:
                continue
            seen.add((pay, where_))
            k2 = 'C15-CHUNKCAP-U/%s/%s' % (where_.replace('in ', ''), t_str(pay)[:60])
            out.inst(k2, False, t_str(pay)[:80])
            out.fail(k2, 'for a source of unknown length the resolved chunk size is %s (%s), without any bound: every buffered pull of the concurrent '
                         'iterator allocates that many slots up front, so a huge ChunkSize makes the computation panic with "capacity overflow" '
                         '(or abort) although num_threads(1) computes the result' % (t_str(pay)[:100], where_), F.bodies[ct[1]].where())
    out.floor('resolutions', n, 1 if not ctx.fixture else 0)
    return out
