"""Symbolic elements of iterator chains.

std adaptor calls are uninterpreted in opa, so a pipeline appears as a nested term.  This module gives
those terms their (T2) meaning at the level of *one element*:

  elem(chain)      the term of one element produced by an iterator-valued term
  payload(opt)     the term(s) inside Some(..) of an Option-valued term
  apply(f, args)   result of calling a closure / fn item / user-closure parameter term
  normalize(t)     rewrite every `Iterator::next(chain).Some.0` inside t into elem(chain)

Extra term kinds produced here:
  ('elem', root)     one element of the root stream `root` (a non-adaptor iterator-valued term)
  ('count', chain)   the counter `enumerate` attaches to the elements of `chain`
"""
from .terms import *
from .terms import TOP
from .lib import sg, ITER, ITER_CARD_PRESERVING

ITER_NEXT = ('std::iter::Iterator::next',)
# element term unchanged; only adaptors that keep every element (or drop by a per-element closure) pass through.
# take / skip / step_by / rev / chain / take_while / skip_while stay visible as the root of an ('elem', ..) term so that
# every rule that asks "which elements" sees them in the spine.
PASS_THROUGH = {'filter', 'inspect', 'by_ref', 'peekable', 'fuse', 'into_iter', 'iter', 'iter_mut'}
OPTION = 'std::option::Option'
SEARCH_PREFIX = '$search:'
FN_CALL_DECLS = ('std::ops::Fn::call', 'std::ops::FnMut::call_mut', 'std::ops::FnOnce::call_once')


def callee(t):
    return sg(t[1]) if t is not None and t[0] == 'call' else ''


def is_iter_method(t, names=None):
    c = callee(t)
    if c.startswith(ITER):
        return names is None or c[len(ITER):] in names
    return False


def is_into_iter(t):
    c = callee(t)
    return c.endswith('IntoIterator::into_iter') or c.endswith('IntoIterator>::into_iter')


def is_next_call(t):
    c = callee(t)
    return c == 'std::iter::Iterator::next' or (c.endswith('::next') and 'Iterator' in c and 'BufferedIter' not in c)


class Items:
    def __init__(self, ctx):
        self.ctx = ctx
        self.opa = ctx.opa
        self._norm = {}
        self._search = {}
        self._chain_helper = {}

    # ------------------------------------------------------------------ application
    def apply(self, f, args, depth=0):
        if f is None or depth > 60:
            return TOP
        if f[0] == 'set':
            return mk_set([self.apply(x, args, depth) for x in f[1]], 32)
        if f[0] == 'closure' and f[1].startswith(SEARCH_PREFIX):
            # the per-element step of a hand-written search loop (see search_loop): Some(payload) on the paths that return,
            # None on the paths that go on to the next element
            sm = self.search_loop(f[1][len(SEARCH_PREFIX):])
            if sm is None or len(args) != 1:
                return TOP
            mapping = {p_: a for p_, a in zip(sm['params'], f[2])}
            mapping[sm['elem']] = args[0]
            got = subst_terms(sm['step'], mapping)
            return self.normalize(self._apply_known_closures(got), depth + 1)
        if f[0] == 'closure' and f[1] in self.ctx.facts.bodies:
            r = self.opa.run(f[1], [f] + list(args))
            return self.normalize(r.ret, depth + 1)
        if f[0] == 'fn':
            if f[1] in self.ctx.facts.bodies:
                r = self.opa.run(f[1], list(args))
                return self.normalize(r.ret, depth + 1)
            return ('call', f[1], tuple(args))
        return ('call', 'std::ops::Fn::call', (f, ('tuple', tuple(args))))

    def _apply_known_closures(self, t, depth=0):
        """after a substitution: `Fn::call(<crate closure>, (args))` is evaluated"""
        if t is None or depth > 8:
            return t
        hits = {}
        for x in subterms(t):
            if x[0] == 'call' and sg(x[1]) in FN_CALL_DECLS and len(x[2]) == 2 and x[2][0][0] == 'closure' and x[2][1][0] == 'tuple' \
                    and x[2][0][1] in self.ctx.facts.bodies:
                hits[x] = self.apply(x[2][0], list(x[2][1][1]), depth + 1)
        return subst_terms(t, hits) if hits else t

    # ------------------------------------------------------------------ hand-written search loops
    def search_loop(self, fname):
        """Summary of a crate function that is a first-match loop over one of its iterator arguments:

            for e in items { ..; if test(e) { return Some(g(e)) } }   None

        i.e. `items.find_map(|e| if test(e) { Some(g(e)) } else { None })`.  Conditions (all checked on the MIR): one loop; the
        loop pulls with Iterator::next from (the into_iter of) a parameter; no value is carried from one iteration to the next
        (no loop phi); the exhaustion edge returns None; every return reached from the Some edge returns Some(..).
        Result: {'iter': parameter index, 'params': parameter terms, 'elem': the element term, 'step': {Some(payload).. | None}}"""
        if fname in self._search:
            return self._search[fname]
        self._search[fname] = None
        F = self.ctx.facts
        b = F.bodies.get(fname)
        if b is None or b.is_closure() or 'Option<' not in (b.d.get('ret_ty') or ''):
            return None
        cfg = self.ctx.cfg(b)
        loops = cfg.loops()
        if len(loops) != 1:
            return None
        header, blocks = next(iter(loops.items()))
        blocks = set(blocks) | {header}
        r = self.opa.run(fname)
        if r.ret is None or r.ret == TOP or any(r.recur.get(k) for k in r.recur):
            return None
        params = [('param', b.local_name(l) or '_%d' % l) for l in b.arg_locals()]
        nexts = [(bb, c) for bb, c in r.call_sites() if bb in blocks and c['res'] is not None and c['res'][0] == 'call' and is_next_call(c['res'])]
        if len(nexts) != 1:
            return None
        nbb, nc = nexts[0]
        recv = nc['res'][2][0] if nc['res'][2] else None
        while recv is not None and recv[0] in ('mut', 'ref'):
            recv = recv[1]
        if recv is not None and is_into_iter(recv) and recv[2]:
            recv = recv[2][0]
        if recv not in params:
            return None
        sw = [sbb for sbb, (d, tg) in r.switches.items() if d == ('discr', nc['res'])]
        if len(sw) != 1:
            return None
        some_t, none_t = r.switch_target(sw[0], 1), r.switch_target(sw[0], 0)
        if some_t == none_t:
            return None
        from_some = cfg.reach(some_t, avoid={header})
        from_none = cfg.reach(none_t, avoid={header})
        edges = [(pred, val) for (pred, rb), (val, pc) in r.ret_edges.items()] or [(bb_, val) for (bb_, val, pc) in r.returns]
        step = []
        for pred, val in edges:
            for alt in alternatives(val):
                if pred in from_some and pred not in from_none:
                    if not (alt is not None and alt[0] == 'variant' and alt[1] == OPTION and alt[2] == 1):
                        return None
                    step.append(alt)
                elif pred in from_none and pred not in from_some:
                    if alt != none():
                        return None
                else:
                    return None
        if not step:
            return None
        sm = {'iter': params.index(recv), 'params': params, 'elem': ('field', nc['res'], 1, 0), 'step': mk_set(step + [none()], 32)}
        self._search[fname] = sm
        return sm

    def search_call(self, t):
        """a call of a search-loop function as the find_map it is, or None"""
        if t is None or t[0] != 'call' or t[1] not in self.ctx.facts.bodies:
            return None
        sm = self.search_loop(t[1])
        if sm is None or len(t[2]) != len(sm['params']):
            return None
        return ('call', ITER + 'find_map', (t[2][sm['iter']], ('closure', SEARCH_PREFIX + t[1], tuple(t[2]))))

    # ------------------------------------------------------------------ elements
    def elem(self, chain, depth=0):
        if chain is None or depth > 60:
            return TOP
        if chain[0] == 'set':
            return mk_set([self.elem(x, depth + 1) for x in chain[1]], 32)
        if chain[0] == 'mut':
            return self.elem(chain[1], depth + 1)
        if is_iter_method(chain):
            m = callee(chain)[len(ITER):]
            src = chain[2][0] if chain[2] else None
            if m == 'map':
                return self.apply(chain[2][1], [self.elem(src, depth + 1)], depth + 1)
            if m == 'enumerate':
                return ('tuple', (('count', src), self.elem(src, depth + 1)))
            if m in PASS_THROUGH:
                return self.elem(src, depth + 1)
            if m in ('cloned', 'copied'):
                return self.elem(src, depth + 1)
            if m == 'flat_map':
                inner = self.apply(chain[2][1], [self.elem(src, depth + 1)], depth + 1)
                return self.elem_of_into_iter(inner, depth + 1)
            if m == 'filter_map':
                return self.payload(self.apply(chain[2][1], [self.elem(src, depth + 1)], depth + 1), depth + 1)
            if m == 'flatten':
                return self.elem_of_into_iter(self.elem(src, depth + 1), depth + 1)
            return ('elem', chain)
        if is_into_iter(chain):
            return self.elem_of_into_iter(chain[2][0], depth + 1) if chain[2] else TOP
        exp = self.expand_chain_helper(chain)
        if exp is not None:
            return self.elem(exp, depth + 1)
        if callee(chain) == 'std::iter::from_fn' and chain[2]:
            # the stream of `Some` results of the generator closure (it ends at the first None)
            return self.payload(self.apply(chain[2][0], [], depth + 1), depth + 1)
        return ('elem', chain)

    def elem_of_into_iter(self, x, depth=0):
        """element of `x.into_iter()`"""
        if x is None:
            return TOP
        if x[0] == 'set':
            return mk_set([self.elem_of_into_iter(y, depth + 1) for y in x[1]], 32)
        if self.is_option_term(x):
            return self.payload(x, depth + 1)
        if is_iter_method(x) or is_into_iter(x):
            return self.elem(x, depth + 1)
        return self.elem(x, depth + 1) if x[0] == 'call' and callee(x).split('::')[-1] in ('iter', 'iter_mut', 'values', 'ids_and_values', 'from_fn') else ('elem', x)

    def is_option_term(self, x):
        if x[0] == 'variant' and x[1] == OPTION:
            return True
        c = callee(x)
        if c.startswith(OPTION + '::') and c.split('::')[-1] in ('map', 'flatten', 'and_then', 'filter', 'or', 'or_else', 'take'):
            return True
        if is_iter_method(x, ('find', 'find_map', 'next', 'reduce', 'last', 'nth', 'max', 'min', 'position')):
            return True
        return False

    def payload(self, o, depth=0):
        """term inside Some(..) of an Option-valued term (None alternatives are dropped)"""
        if o is None or depth > 60:
            return TOP
        if o[0] == 'set':
            return mk_set([self.payload(x, depth + 1) for x in o[1]], 32)
        if o[0] == 'variant' and o[1] == OPTION:
            return o[3][0] if o[2] == 1 else None
        c = callee(o)
        if is_iter_method(o, ('find',)):
            return self.elem(o[2][0], depth + 1)
        if is_iter_method(o, ('find_map',)):
            return self.payload(self.apply(o[2][1], [self.elem(o[2][0], depth + 1)], depth + 1), depth + 1)
        if is_next_call(o):
            return self.elem(o[2][0], depth + 1)
        if c == OPTION + '::map':
            return self.apply(o[2][1], [self.payload(o[2][0], depth + 1)], depth + 1)
        if c == OPTION + '::flatten':
            return self.payload(self.payload(o[2][0], depth + 1), depth + 1)
        if c == OPTION + '::filter':
            return self.payload(o[2][0], depth + 1)
        return ('field', o, 1, 0)

    # ------------------------------------------------------------------ normalisation
    def normalize(self, t, depth=0):
        """rewrite `next(chain).Some.0` into elem(chain), bottom-up"""
        if t is None:
            return None
        if t in self._norm:
            return self._norm[t]
        if depth > 60:
            return t
        k = t[0]
        n = lambda x: self.normalize(x, depth + 1)
        if k in ('top', 'param', 'const', 'fn', 'phi', 'ref', 'elem', 'count'):
            r = t
        elif k == 'field':
            base = t[1]
            if t[2] == 1 and t[3] == 0 and base is not None and base[0] == 'call' and is_next_call(base):
                r = self.elem(n(base[2][0]), depth + 1)
            elif t[2] == 1 and t[3] == 0 and base is not None and base[0] == 'call' and self.is_option_term(base) and \
                    self.payload(n(base), depth + 1) not in (None, TOP, ('field', n(base), 1, 0)):
                # the payload of `chain.find(p)` / `opt.map(f)` / `chain.find_map(f)`: what the search / mapping yields
                r = n(self.payload(n(base), depth + 1))
            else:
                nb = n(base)
                r = self._proj(nb, t[2], t[3])
                if r is not None and r[0] == 'field' and t in self.opa.field_info:
                    self.opa.field_info.setdefault(r, self.opa.field_info[t])
        elif k == 'tuple':
            r = ('tuple', tuple(n(x) for x in t[1]))
        elif k == 'variant':
            r = ('variant', t[1], t[2], tuple(n(x) for x in t[3]), t[4])
        elif k == 'closure':
            r = ('closure', t[1], tuple(n(x) for x in t[2]))
        elif k == 'call':
            r = ('call', t[1], tuple(n(x) for x in t[2]))
            sc = self.search_call(r) if t[1] in self.ctx.facts.bodies else None
            if sc is not None:
                r = sc
        elif k == 'index':
            r = ('index', n(t[1]), n(t[2]))
        elif k == 'upd':
            r = ('upd', n(t[1]), t[2], n(t[3]))
        elif k == 'bin':
            r = ('bin', t[1], n(t[2]), n(t[3]))
        elif k == 'un':
            r = ('un', t[1], n(t[2]))
        elif k == 'discr':
            r = ('discr', n(t[1]))
        elif k == 'mut':
            r = ('mut', n(t[1]), n(t[2]))
        elif k == 'set':
            r = mk_set([n(x) for x in t[1]], 32)
        else:
            r = t
        self._norm[t] = r
        return r

    def _proj(self, base, variant, f):
        if base is None:
            return None
        return self.opa.proj(base, f, variant)

    # ------------------------------------------------------------------ chain structure
    def spine(self, chain):
        """(list of adaptor method names from the terminal side down, root term) of an iterator-valued term"""
        names = []
        cur = chain
        guard = 0
        while cur is not None and guard < 40:
            guard += 1
            if cur[0] == 'mut':
                cur = cur[1]
                continue
            if is_iter_method(cur):
                names.append(callee(cur)[len(ITER):])
                cur = cur[2][0] if cur[2] else None
                continue
            if is_into_iter(cur):
                names.append('into_iter')
                cur = cur[2][0] if cur[2] else None
                continue
            exp = self.expand_chain_helper(cur)
            if exp is not None:
                cur = exp
                continue
            break
        return names, cur

    def expand_chain_helper(self, t):
        """a call of a loop-free crate function that only builds an iterator chain (`map_filter(values, map, filter)` =
        `values.map(map).filter(filter)`, `chunks_x(iter, c)` = `from_fn(|| iter.next_chunk_x(c))`): what it returns for these
        arguments, else None"""
        if t is None or t[0] != 'call' or t[1] not in self.ctx.facts.bodies:
            return None
        if t in self._chain_helper:
            return self._chain_helper[t]
        self._chain_helper[t] = None
        b = self.ctx.facts.bodies[t[1]]
        if b.is_closure() or self.ctx.cfg(b).loops() or len(b.arg_locals()) != len(t[2]):
            return None
        y = self.opa.run(t[1], list(t[2])).ret
        if y is None or y == TOP or y == t or y[0] != 'call':
            return None
        if is_iter_method(y) or is_into_iter(y) or callee(y) in ('std::iter::from_fn', 'std::iter::successors') or callee(y).split('::')[-1] in ('values', 'ids_and_values'):
            self._chain_helper[t] = y
            return y
        return None


    def generator_pull(self, root):
        """for a root `iter::from_fn(closure)`: the term the generator closure returns (e.g. a pull call), else None"""
        if root is not None and root[0] == 'call' and callee(root) == 'std::iter::from_fn' and root[2]:
            return self.apply(root[2][0], [])
        return None
