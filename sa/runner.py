"""Orchestration of one property check."""
import json, os, random, shutil, subprocess, sys, tempfile, time
from concurrent.futures import ThreadPoolExecutor

from .facts import run_driver, Facts, CheckerFault, CompileError, load_facts, VERIF
from .engine import Ctx, run_rules, RULES, RULE_DOC
from . import report
from .properties import PROPERTIES, load_rules
from .terms import t_str

FIXTURE_DIR = os.path.join(VERIF, 'fixtures')
MUTANT_DIR = os.path.join(VERIF, 'mutants')


def get_facts(repo, release=False, facts_path=None):
    if facts_path:
        return load_facts(facts_path)
    return Facts(run_driver(repo, 'orx_parallel', release=release))


def fixture_facts(repo):
    """run the driver over the fixture crate (its Cargo.lock is copied from the repo so that the same
    dependency versions resolve offline)"""
    tmp = tempfile.mkdtemp(prefix='orxfix-')
    try:
        dst = os.path.join(tmp, 'fixtures')
        shutil.copytree(FIXTURE_DIR, dst, ignore=shutil.ignore_patterns('target'))
        lock = os.path.join(repo, 'Cargo.lock')
        if os.path.exists(lock):
            shutil.copy(lock, os.path.join(dst, 'Cargo.lock'))
        try:
            d = run_driver(dst, 'orxfix')
        except CompileError as e:
            raise CheckerFault('fixture crate does not compile: %s' % e)
        return Facts(d)
    finally:
        shutil.rmtree(tmp, ignore_errors=True)


def run_fixture_controls(pid, repo):
    """every rule that has fixture expectations must report exactly the expected keys on the fixture crate"""
    exp_path = os.path.join(FIXTURE_DIR, 'expect.json')
    if not os.path.exists(exp_path):
        return {'rules': 0}
    with open(exp_path) as f:
        expect = json.load(f)
    rules = [r for r in PROPERTIES[pid]['rules'] if r in expect]
    if not rules:
        return {'rules': 0}
    F = fixture_facts(repo)
    ctx = Ctx(F, 'quick', fixture=True)
    outs = run_rules(ctx, rules)
    summary = {'rules': len(rules), 'fired': 0, 'silent': 0, 'bodies': len(F.bodies)}
    for out in outs:
        e = expect[out.rule]
        got = {f.key for f in out.findings if f.kind != 'anchor-missing'}
        for k in e.get('must_fire', []):
            if not any(g == k or g.startswith(k) for g in got):
                raise CheckerFault('fixture control: rule %s no longer fires on positive example %r (got %s)' % (out.rule, k, sorted(got)))
            summary['fired'] += 1
        for k in e.get('must_not_fire', []):
            if any(g == k or g.startswith(k) for g in got):
                raise CheckerFault('fixture control: rule %s fires on negative example %r' % (out.rule, k))
            summary['silent'] += 1
    return summary


# ---------------------------------------------------------------------------------------------------

def scratch_copy(repo):
    tmp = tempfile.mkdtemp(prefix='orxmut-')
    dst = os.path.join(tmp, 'repo')
    shutil.copytree(repo, dst, ignore=shutil.ignore_patterns('target', '.git'))
    return tmp, dst


def run_mutant(pid, repo, patch, tier='quick'):
    """apply one patch to a scratch copy and run the property's rules; returns (status, keys)"""
    tmp, dst = scratch_copy(repo)
    try:
        r = subprocess.run(['patch', '-p1', '--no-backup-if-mismatch', '-s', '-f', '-i', patch], cwd=dst,
                           stdout=subprocess.PIPE, stderr=subprocess.STDOUT, text=True)
        if r.returncode != 0:
            return 'not-applicable', [], r.stdout[-300:]
        try:
            F = Facts(run_driver(dst, 'orx_parallel'))
        except CompileError as e:
            return 'does-not-compile', [], str(e)[-300:]
        ctx = Ctx(F, tier)
        outs = run_rules(ctx, PROPERTIES[pid]['rules'])
        known = {k['key'] for k in report.load_known().get('findings', []) if k['property'] == pid}
        keys = sorted({'%s' % f.key for o in outs for f in o.findings if f.key not in known})
        return ('reported' if keys else 'silent'), keys, ''
    finally:
        shutil.rmtree(tmp, ignore_errors=True)


def replay_mutants(pid, repo):
    """thorough tier: seeded mutants must be reported, benign refactors must stay silent"""
    res = {'seeded': [], 'benign': []}
    jobs = []
    for kind, d in (('seeded', os.path.join(MUTANT_DIR, pid)), ('benign', os.path.join(MUTANT_DIR, 'benign', pid)),
                    ('benign', os.path.join(MUTANT_DIR, 'benign', 'ALL'))):
        if os.path.isdir(d):
            for fn in sorted(os.listdir(d)):
                if fn.endswith('.patch') or fn.endswith('.diff'):
                    jobs.append((kind, os.path.join(d, fn)))
    # sub-agent made changes kept under /verif/seeded/<name>/ (meta.json names the property)
    sd = os.path.join(VERIF, 'seeded')
    if os.path.isdir(sd):
        for name in sorted(os.listdir(sd)):
            mp = os.path.join(sd, name, 'meta.json')
            pp = os.path.join(sd, name, 'patch.diff')
            if os.path.exists(mp) and os.path.exists(pp):
                try:
                    meta = json.load(open(mp))
                except Exception:
                    continue
                props = meta.get('detected_by') or [meta.get('property')]
                if pid in props:
                    jobs.append(('seeded', pp))
    if not jobs:
        return res
    with ThreadPoolExecutor(max_workers=8) as ex:
        futs = [(kind, p, ex.submit(run_mutant, pid, repo, p)) for kind, p in jobs]
        for kind, p, f in futs:
            status, keys, note = f.result()
            res[kind].append({'patch': os.path.relpath(p, VERIF), 'status': status, 'keys': keys[:6], 'note': note})
    return res


# ---------------------------------------------------------------------------------------------------

def check_property(pid, tier, repo, facts_path=None, fixture=True, mutants=True):
    t0 = time.time()
    seed = int(os.environ.get('VERIF_SEED', '0') or 0)
    rng = random.Random(seed)
    prop = PROPERTIES[pid]
    profiles = ['dev'] + (['release'] if tier == 'thorough' and not facts_path else [])
    all_outs = []
    bodies = {}
    findings = {}
    for prof in profiles:
        F = get_facts(repo, release=(prof == 'release'), facts_path=facts_path)
        bodies[prof] = len(F.bodies)
        if len(F.bodies) < 300:
            raise CheckerFault('only %d bodies extracted from %s' % (len(F.bodies), repo))
        ctx = Ctx(F, tier)
        outs = run_rules(ctx, prop['rules'])
        for o in outs:
            o.profile = prof
            all_outs.append(o)
            for f in o.findings:
                findings.setdefault(f.key, f)
    fx = run_fixture_controls(pid, repo) if fixture else {'rules': 0, 'skipped': True}
    mut = None
    if tier == 'thorough' and mutants and not facts_path:
        mut = replay_mutants(pid, repo)
        bad = [m for m in mut['seeded'] if m['status'] == 'silent']
        fa = [m for m in mut['benign'] if m['status'] == 'reported']
        if bad or fa:
            raise CheckerFault('mutant replay: %d seeded mutant(s) not reported %s; %d benign refactor(s) reported %s'
                               % (len(bad), [m['patch'] for m in bad], len(fa), [(m['patch'], m['keys']) for m in fa]))

    # ---- known findings
    known = report.load_known()
    known_keys = {k['key']: k for k in known.get('findings', []) if k.get('property') == pid}
    report.clear_violations(pid)
    viol_lines = []
    known_lines = []
    for key, f in sorted(findings.items()):
        if key in known_keys:
            known_lines.append('KNOWN-FINDING: property=%s %s: %s' % (pid, key, known_keys[key].get('what', f.msg)))
            continue
        p = report.write_violation(pid, f)
        viol_lines.append((f, p))

    # ---- evidence
    insts = [i for o in all_outs for i in o.instances]
    evaluations = len(insts) + sum(len(o.findings) for o in all_outs)
    distinct = len({i['key'] for i in insts if i['nontrivial']})
    samples_pool = [i for i in insts if i.get('sample') is not None]
    rng.shuffle(samples_pool)
    samples = [{'instance': i['key'], 'ok': i['ok'], 'note': i['note'], 'terms': i['sample']} for i in samples_pool[:8]]
    if not samples:
        samples = [{'instance': i['key'], 'ok': i['ok'], 'note': i['note']} for i in insts[:8]]
    per_rule = {}
    for o in all_outs:
        pr = per_rule.setdefault(o.rule, {'doc': RULE_DOC.get(o.rule, ''), 'instances': 0, 'findings': 0, 'counts': {}, 'wall_s': 0.0, 'profiles': []})
        pr['instances'] += len(o.instances)
        pr['findings'] += len(o.findings)
        pr['counts'].update({('%s[%s]' % (k, o.profile) if len(profiles) > 1 else k): v for k, v in o.counts.items()})
        pr['wall_s'] = round(pr['wall_s'] + o.wall_s, 3)
        pr['profiles'].append(o.profile)
    coverage = {
        'explanation': prop['explanation'],
        'evaluations': evaluations,
        'distinct_nontrivial': distinct,
        'rule': 'every instance of each rule\'s slot set in the MIR of the current tree is enumerated (never a sample); an '
                'instance is non-trivial when the rule had a term / dominance / reachability fact to decide for it; '
                'distinct = distinct instance keys (rule/function/site)',
        'samples': samples,
        'exhaustive': True,
        'bodies_analysed': bodies,
        'rules': per_rule,
        'fixture_controls': fx,
        'profiles': profiles,
        'findings': [f.to_json() for _, f in sorted(findings.items())],
        'known_findings': [k for k in known_keys if k in findings],
        'checker_cmd': './check %s --tier %s' % (pid, tier),
    }
    n_obl = sum(o.counts.get('obligations', 0) for o in all_outs)
    if n_obl:
        coverage['obligations'] = n_obl
        coverage['discharged'] = sum(o.counts.get('discharged', 0) for o in all_outs)
    if mut is not None:
        coverage['seeded_mutants'] = {
            'applied': sum(1 for m in mut['seeded'] if m['status'] in ('reported', 'silent')),
            'reported': sum(1 for m in mut['seeded'] if m['status'] == 'reported'),
            'skipped': [m for m in mut['seeded'] if m['status'] not in ('reported', 'silent')],
            'detail': mut['seeded'],
        }
        coverage['benign_refactors'] = {
            'applied': sum(1 for m in mut['benign'] if m['status'] in ('reported', 'silent')),
            'silent': sum(1 for m in mut['benign'] if m['status'] == 'silent'),
            'detail': mut['benign'],
        }
    assumptions = [report.ASSUMPTIONS[a] for a in prop.get('assumes', ['T1', 'T2', 'T3', 'T4'])] + prop.get('extra_assumptions', [])
    report.write_evidence(pid, tier, seed, coverage, assumptions, time.time() - t0, len(viol_lines))

    # ---- output
    print('%s %s tier=%s profiles=%s bodies=%s rules=%d instances=%d distinct=%d wall=%.1fs' % (
        pid, prop['title'], tier, ','.join(profiles), bodies.get('dev'), len(prop['rules']), evaluations, distinct, time.time() - t0))
    for o in all_outs:
        print('  rule %-16s [%s] instances=%-4d findings=%d %s' % (o.rule, o.profile, len(o.instances), len(o.findings),
                                                                 ' '.join('%s=%s' % kv for kv in sorted(o.counts.items()))))
    for l in known_lines:
        print(l)
    for f, p in viol_lines:
        print('  -> %s %s: %s' % (f.where, f.key, f.msg))
        print('VIOLATION property=%s replay=%s' % (pid, os.path.relpath(p, VERIF)))
    return 1 if viol_lines else 0
