"""Evidence, violation files, known-finding handling."""
import json, os, re, time, hashlib

VERIF = os.path.dirname(os.path.dirname(os.path.abspath(__file__)))
EVID = os.path.join(VERIF, 'evidence')
KNOWN = os.path.join(VERIF, 'known_findings.json')

ASSUMPTIONS = {
    'T1': "T1 rustc's MIR construction, drop elaboration and Instance::try_resolve are faithful to the compiled program",
    'T2': "T2 std: Iterator adaptors call their closure once per item in order; find/find_map stop at the first hit; "
          "reduce is a left fold; Vec::push/extend append; thread::scope joins all workers and re-raises a worker panic",
    'T3': "T3 orx-* dependency contracts are assumed, not analysed: a concurrent iterator hands out every source element "
          "exactly once over all pulls of all threads; Next.idx / NextChunk.begin_idx are source positions and chunk values "
          "are consecutive; after skip_to_end every pull returns None; try_get_len never grows; into_seq_iter yields the "
          "remaining elements in source order; ConIterOfIter serialises Iterator::next; ConcurrentOrderedBag::set_value(s) "
          "initialise exactly the addressed slots; SplitVec<_, Recursive>::append keeps every fragment; the d-ary heap pops a "
          "node with the smallest key. Known limits of T3, reproduced and listed in DESIGN.md section 7: positions overflow for "
          "ranges ending near usize::MAX and for sources of >= 2^63 elements; ConIterOfIter deadlocks when the wrapped iterator's "
          "next() panics; orx-split-vec rejects some SplitVec targets (fragment table > 32 entries, Linear From<Vec>, zero-sized "
          "elements) in reserve_maximum_concurrent_capacity / the bag conversion",
    'T4': "T4 the analyses of /verif/sa themselves (exercised both ways by fixtures and seeded mutants)",
}


def load_known():
    if not os.path.exists(KNOWN):
        return {'findings': [], 'fixed': []}
    with open(KNOWN) as f:
        return json.load(f)


def safe_name(key):
    s = re.sub(r'[^A-Za-z0-9_.-]+', '_', key).strip('_')
    if len(s) > 120:
        s = s[:100] + '_' + hashlib.sha1(key.encode()).hexdigest()[:10]
    return s


def write_violation(pid, finding, extra=None):
    d = os.path.join(EVID, 'violations', pid)
    os.makedirs(d, exist_ok=True)
    p = os.path.join(d, safe_name(finding.key) + '.json')
    j = finding.to_json()
    j['property'] = pid
    if extra:
        j.update(extra)
    with open(p, 'w') as f:
        json.dump(j, f, indent=1, default=str)
    return p


def clear_violations(pid):
    d = os.path.join(EVID, 'violations', pid)
    if os.path.isdir(d):
        for x in os.listdir(d):
            try:
                os.remove(os.path.join(d, x))
            except OSError:
                pass


def write_evidence(pid, tier, seed, coverage, assumptions, wall_s, violations):
    os.makedirs(EVID, exist_ok=True)
    ev = {
        'property_id': pid,
        'tier': tier,
        'seed': seed,
        'level': 'other',
        'coverage': coverage,
        'assumptions': assumptions,
        'wall_s': round(wall_s, 2),
        'violations': violations,
    }
    p = os.path.join(EVID, pid + '.json')
    tmp = p + '.tmp'
    with open(tmp, 'w') as f:
        json.dump(ev, f, indent=1, default=str)
    os.replace(tmp, p)
    return p
