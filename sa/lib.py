"""Shared vocabulary: callee classification tables and small helpers used by several rules.

The tables classify *all* methods of std::iter::Iterator / Vec by semantic class (not only the handful
used today) so that a refactor to an equivalent idiom of the same class stays silent.
"""
from .facts import strip_generics, callee_of, declared_of
from .terms import subterms, children, TOP


def sg(p):
    return strip_generics(p or '')


def decl(t):
    """generic-stripped *declared* callee path of a call terminator (trait method path for trait calls)"""
    return sg(t.get('callee'))


def res(t):
    return sg(callee_of(t))


def method(t):
    return t.get('method') or decl(t).split('::')[-1]


def term_callee(term):
    return sg(term[1]) if term and term[0] == 'call' else ''


def term_method(term):
    return term_callee(term).split('::')[-1]


# ---- std::iter::Iterator method classes ---------------------------------------------------------
ITER = 'std::iter::Iterator::'
# adaptors that keep every item, in order (cardinality- and order-preserving)
ITER_CARD_PRESERVING = {'map', 'enumerate', 'inspect', 'by_ref', 'into_iter', 'peekable', 'fuse', 'cloned', 'copied',
                        'iter', 'iter_mut', 'zip_longest'}
# adaptors that keep order but may drop / multiply items according to a closure (lazy, in order)
ITER_ORDER_PRESERVING_LAZY = {'filter', 'filter_map', 'flat_map', 'flatten', 'map_while', 'take_while', 'skip_while',
                              'scan'} | ITER_CARD_PRESERVING
# adaptors through which every pulled element reaches the (user) per-element closures: an element is dropped
# only because a per-element closure (filter / filter_map / flat_map stage) said so - never because of a position,
# a count or a condition that stops the iteration (take_while, skip, step_by ... discard pulled elements unseen)
ITER_ELEMENT_FAITHFUL = {'filter', 'filter_map', 'flat_map', 'flatten'} | ITER_CARD_PRESERVING
# adaptors that change which items are seen irrespective of a user closure
ITER_CARD_CHANGING = {'take', 'skip', 'step_by', 'rev', 'chain', 'cycle', 'zip', 'dedup', 'last', 'nth', 'peek'}
# terminals that stop at the first hit (short-circuit, in order)
ITER_SHORT_CIRCUIT = {'find', 'find_map', 'position', 'any', 'all', 'next', 'try_fold', 'try_for_each'}
# terminals that visit every item (exhaustive)
ITER_EXHAUSTIVE = {'collect', 'count', 'fold', 'reduce', 'for_each', 'sum', 'product', 'last', 'max', 'min',
                   'max_by', 'min_by', 'max_by_key', 'min_by_key', 'extend', 'partition', 'unzip', 'rfold'}
# terminals that can answer without running the per-item closures
ITER_SKIPPING = {'len', 'size_hint', 'last', 'nth', 'advance_by', 'is_empty'}
# order-reversing / order-insensitive
ITER_REORDER = {'rev', 'rfold', 'rfind', 'rposition', 'next_back', 'nth_back', 'max', 'min', 'max_by', 'min_by',
                'max_by_key', 'min_by_key', 'sum', 'product', 'last'}

# ---- Vec / buffer methods -----------------------------------------------------------------------
BUF_APPEND = {'push', 'extend', 'extend_from_slice', 'append', 'push_within_capacity', 'reserve', 'reserve_exact',
              'with_capacity', 'new', 'len', 'is_empty', 'capacity', 'from_iter', 'collect'}
BUF_DISTURB = {'clear', 'truncate', 'drain', 'set_len', 'pop', 'remove', 'swap_remove', 'retain', 'retain_mut',
               'split_off', 'insert', 'swap', 'sort', 'sort_by', 'sort_by_key', 'sort_unstable', 'sort_unstable_by',
               'sort_unstable_by_key', 'reverse', 'dedup', 'dedup_by', 'dedup_by_key', 'rotate_left', 'rotate_right',
               'fill', 'fill_with', 'resize', 'resize_with', 'splice', 'shrink_to', 'take'}

# ---- concurrent iterator pulls (orx-concurrent-iter) ---------------------------------------------
PULL_SIZED = {'next_chunk', 'next_chunk_x', 'buffered_iter', 'buffered_iter_x'}
PULL_ELEMENT = {'next', 'next_id_and_value', 'values', 'ids_and_values'}
PULL_BUFFERED_NEXT = {'next', 'next_x'}
CONITER_TRAITS = ('orx_concurrent_iter::ConcurrentIter', 'orx_concurrent_iter::ConcurrentIterX')


def is_coniter_call(t, names=None):
    d = decl(t)
    for tr in CONITER_TRAITS:
        if d.startswith(tr + '::'):
            m = d[len(tr) + 2:]
            return names is None or m in names
    return False


def is_buffered_next(t):
    d = decl(t)
    return 'BufferedIter' in d and d.split('::')[-1] in PULL_BUFFERED_NEXT


def is_pull_call(t):
    """a call that takes elements from the shared concurrent iterator (or creates the stream that does)"""
    return is_coniter_call(t, PULL_SIZED | PULL_ELEMENT) or is_buffered_next(t)


def coniter_term_is(term, names):
    c = term_callee(term)
    for tr in CONITER_TRAITS:
        if c.startswith(tr + '::') and c[len(tr) + 2:] in names:
            return True
    return False


def buffered_next_term(term):
    c = term_callee(term)
    return 'BufferedIter' in c and c.split('::')[-1] in PULL_BUFFERED_NEXT


def is_user_closure_call(t, body):
    """`<F as Fn*>::call*(f, args)` where F is a generic parameter of the body carrying an Fn* bound"""
    if t.get('callee') not in ('std::ops::Fn::call', 'std::ops::FnMut::call_mut', 'std::ops::FnOnce::call_once'):
        return None
    sh = t.get('self_head', '')
    if sh.startswith('param:'):
        return sh[6:]
    if sh.startswith('ref:param:'):
        return sh[10:]
    return None


def local_type_param(body, local):
    """type-parameter name of a local whose type is `P` or `&P` / `&mut P`, else None"""
    h = body.locals[local]['head']
    while h.startswith('ref:'):
        h = h[4:]
    return h[6:] if h.startswith('param:') else None


def user_closure_params(body):
    """names of generic parameters with an Fn* bound (user closures)"""
    return set(body.fn_bounds().keys())


def place_local(o):
    return o['pl']['l'] if o.get('k') in ('copy', 'move') else None
